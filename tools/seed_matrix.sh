#!/bin/bash
# usage: seed_matrix.sh [seed names...] : applies each kept seeded change to /repo in turn, runs the checks recorded for it
# (seeded/<id>/checks.txt, default: the property's own check), undoes it; prints one line per (seed, check)
cd /verif
names=${@:-$(ls seeded)}
for n in $names; do
  P=/verif/seeded/$n/patch.diff
  ids=$(cat /verif/seeded/$n/checks.txt 2>/dev/null || echo ${n:0:3})
  (cd /repo && git apply "$P") || { echo "$n: patch does not apply"; continue; }
  for id in $ids; do
    timeout 1800 ./check $id > /tmp/matrix-$n-$id.log 2>&1; rc=$?
    echo "$n $id exit=$rc $(grep -E '^C[0-9]+ tier' /tmp/matrix-$n-$id.log | cut -c1-110) :: $(grep -E '^VIOLATION' /tmp/matrix-$n-$id.log | head -1 | cut -c1-90)"
  done
  (cd /repo && git checkout -- . )
done
(cd /repo && git status --short | head -3)
