#!/bin/bash
# usage: seed_matrix.sh [seed names...] : runs every kept seeded change against the checks recorded for it
# (seeded/<id>/checks.txt, default: the property's own check) in ONE scratch worktree of /repo (never /repo itself);
# prints one line per (seed, check). Evidence of these runs goes to a scratch directory.
cd /verif
names=${@:-$(ls seeded)}
W=/tmp/wt-matrix
git -C /repo worktree remove --force $W 2>/dev/null
git -C /repo worktree add --detach -f $W HEAD >/dev/null 2>&1 || { echo "cannot create worktree"; exit 3; }
for n in $names; do
  P=/verif/seeded/$n/patch.diff
  ids=$(cat /verif/seeded/$n/checks.txt 2>/dev/null || echo ${n:0:3}); [ "$ids" = "none" ] && { echo "$n: neutralised (see meta.json)"; continue; }
  (cd $W && git checkout -q -- . && git apply "$P") || { echo "$n: patch does not apply"; continue; }
  for id in $ids; do
    VERIF_REPO=$W timeout 2400 ./check $id > /tmp/matrix-$n-$id.log 2>&1; rc=$?
    echo "$n $id exit=$rc $(grep -E '^C[0-9]+ tier' /tmp/matrix-$n-$id.log | cut -c1-100) :: $(grep -E '^(VIOLATION|INCONCLUSIVE)' /tmp/matrix-$n-$id.log | head -1 | cut -c1-110)"
  done
done
git -C /repo worktree remove --force $W
rm -rf /verif/.build/replay-alt-* /verif/.build/replay-target-alt-* /tmp/verif-evidence-alt
