#!/opt/veriftools/pyvenv/bin/python3
"""census of external callees reachable from given root functions (regex on printed names)"""
import sys,re,collections
sys.path.insert(0,'/verif')
from mirsmt import common, engine, mir, models
from mirsmt.defs import strip_generics
ctx=common.Ctx()
I=ctx.interp()
roots=sys.argv[1:]
seen=set(); work=[]
for r in roots:
    for name,lst in ctx.fns.items():
        if re.search(r,name):
            for f in lst: work.append(f)
ext=collections.Counter(); 
def modelled(c):
    for rx,h,l in I.models:
        if rx.search(c): return True
    return False
while work:
    f=work.pop()
    if id(f) in seen: continue
    seen.add(id(f))
    for bb in f.blocks:
        st,tm=mir.parsed_block(f,bb)
        if tm[0] not in ('call','diverge'): continue
        c=tm[1] if tm[0]=='diverge' else tm[2]
        nargs=len(tm[2]) if tm[0]=='diverge' else len(tm[3])
        m=re.match(r'^<&?(mut )?(\{closure@[^}]*\}) as',c)
        if m:
            g=I.closures.get(m.group(2))
            if g: work.append(g)
            continue
        # closures passed as args: add all closures defined in this fn
        if modelled(c): 
            continue
        try: g=I.resolve_local(c,[None]*nargs,engine.State())
        except Exception: g=None
        if g is not None: work.append(g)
        else: ext[c]+=1
    # closures created inside f
    for name,lst in ctx.fns.items():
        if name.startswith(f.name+'::{closure#'):
            for g in lst: work.append(g)
print(len(seen),'functions reachable;',len(ext),'distinct unmodelled external callees')
for k,v in sorted(ext.items()): print(v,k[:230])
