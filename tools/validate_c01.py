#!/opt/veriftools/pyvenv/bin/python3
"""Scenario self-test: every C01 description (typed shapes, and a sample of grammar skeletons) must be a VALID module for the
real validator, since the interpretation assumes "Validator::* return Ok".  Builds each shape alone natively."""
import json, os, sys, random
sys.path.insert(0, '/verif')
import z3
from mirsmt import common, witness, replay
from obligations import c01

def main():
    table = witness.load_table()
    items = [('typed:' + n, f) for n, f in c01.typed_skeletons()]
    if len(sys.argv) > 1 and sys.argv[1] == 'skels':
        sk = []
        for stmts in c01.gen_stmts(3, 0, 2):
            if stmts:
                sk.append(('skel:' + repr(stmts), (lambda st: (lambda L: L.lower(st)))(stmts)))
        random.Random(0).shuffle(sk)
        items = sk[:int(sys.argv[2]) if len(sys.argv) > 2 else 100]
    bad = 0
    s = z3.Solver(); s.check(); m = s.model()
    os.makedirs(os.path.join(common.BUILD, 'scripts'), exist_ok=True)
    for it in items:
        spec = c01.build_module([it])
        J = witness.spec_json(spec, m, table)
        p = os.path.join(common.BUILD, 'scripts', 'val-%d.json' % os.getpid())
        json.dump({'spec': J, 'steps': ['emit'], 'config': {}}, open(p, 'w'))
        r = replay.run_vreplay(['script', p], 'debug')
        ok = (r.get('input') or {}).get('valid')
        if not ok:
            bad += 1
            print('INVALID', it[0], (r.get('input') or {}).get('validation_error'), r.get('error'))
    print('%d scenarios, %d invalid' % (len(items), bad))
    return 1 if bad else 0

sys.exit(main())
