#!/bin/bash
# usage: verify_seed.sh <name> (reads /tmp/wt-out/<name>/{patch.diff,seeded_demo.rs,demo_deps.txt}); writes /tmp/wt-out/<name>/verify.json
# Confirms independently, in a fresh scratch worktree: patch applies, workspace tests unchanged, demo fails with / passes without.
set -u
N=$1
OUT=/tmp/wt-out/$N
WT=/tmp/wt/verify-$N
export CARGO_NET_OFFLINE=true
git -C /repo worktree remove --force $WT 2>/dev/null
git -C /repo worktree add --detach $WT -q HEAD || exit 2
cd $WT
cp $OUT/seeded_demo.rs crates/tests/tests/seeded_demo.rs
if [ -s $OUT/demo_deps.txt ]; then
  grep -E '^\s*[a-z_-]+\s*=' $OUT/demo_deps.txt | while read -r l; do
    k=$(echo "$l" | cut -d= -f1 | tr -d ' ')
    grep -q "^$k" crates/tests/Cargo.toml || sed -i "/^\[dev-dependencies\]/a $l" crates/tests/Cargo.toml
  done
fi
# baseline demo (must pass)
cargo test --offline -p walrus-tests --test seeded_demo > $OUT/v_demo_without.log 2>&1; R_WITHOUT=$?
git apply $OUT/patch.diff; APPLY=$?
cargo test --offline -p walrus-tests --test seeded_demo > $OUT/v_demo_with.log 2>&1; R_WITH=$?
# full suite with the patch but without the demo
mv crates/tests/tests/seeded_demo.rs /tmp/wt-out/$N/.demo_parked.rs
cargo test --workspace --no-fail-fast --offline > $OUT/v_suite_with.log 2>&1
PASSED=$(grep -E '^test result' $OUT/v_suite_with.log | sed -E 's/.* ([0-9]+) passed.*/\1/' | paste -sd+ | bc)
FAILED=$(grep -E '^test .* FAILED$' $OUT/v_suite_with.log | grep -v 'walrus-fuzz-utils' | grep -vE 'tests::(fuzz0|fuzz1|fuzz2|wasm_opt_ttf_fuzz|watgen_fuzz)' | wc -l)
COMPILE_ERR=$(grep -c '^error' $OUT/v_suite_with.log)
cat > $OUT/verify.json <<JSON
{"name":"$N","patch_applies":$([ $APPLY = 0 ] && echo true || echo false),"demo_without_rc":$R_WITHOUT,"demo_with_rc":$R_WITH,"suite_passed_with_patch":${PASSED:-0},"suite_unexpected_failures":$FAILED,"compile_errors":$COMPILE_ERR}
JSON
cat $OUT/verify.json
cd /; git -C /repo worktree remove --force $WT
