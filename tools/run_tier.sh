#!/bin/bash
# usage: run_tier.sh <tier> <ids...> : runs the checks one after the other, one summary line each (for background sweeps)
T=$1; shift
for id in "$@"; do
  s=$(date +%s)
  ./check $id --tier $T > /tmp/tier-$T-$id.log 2>&1
  rc=$?
  echo "$id tier=$T exit=$rc secs=$(( $(date +%s) - s )) $(grep -E '^C[0-9]+ tier' /tmp/tier-$T-$id.log | cut -c1-160)"
  grep -E '^(VIOLATION|INCONCLUSIVE)' /tmp/tier-$T-$id.log | cut -c1-300
done
