#!/opt/veriftools/pyvenv/bin/python3
"""Scenario self-test: the interpretation models wasmparser's Validator as "Ok" on the described module, so every
description used by a check must really be valid.  Each description is concretised (several solver models: default,
and models pushed to extreme attribute values) and validated natively by the real wasmparser with walrus' feature set
(`vreplay script`, which also reports whether the real walrus accepts it)."""
import json, os, sys
sys.path.insert(0, '/verif')
import z3
from mirsmt import common, witness, replay
from obligations import scen, c01, c04, c06, c08, c10, c11, c12, c13, c14, c18, c20


def all_specs():
    L = []
    for v in (0, 1, 2):
        L.append(('full-module/variant%d' % v, scen.full_module(v)))
        L.append(('named/variant%d' % v, c13.named_spec(v)))
    for n, mk in c06.SCENARIOS:
        L.append(('gc/' + n, mk()))
    L.append(('c04/local-tables', c04.local_tables_module()))
    L.append(('c08/rich', c08.rich_spec()))
    L.append(('c08/partly-readable-producers', c08.partly_readable_producers_spec()))
    for n in (1, 2, 3, 4):
        L.append(('c11/spec_for(%d)' % n, c11.spec_for(n)))
    L.append(('c10/gc', c10.gc_spec()))
    L.append(('c10/shrink', c10.shrink_spec()))
    for k in ('small', 'full'):
        L.append(('c12/' + k, c12.customs_spec(k)))
    for k in ('older-walrus', 'same-walrus', 'foreign-only', 'none'):
        L.append(('c14/' + k, c14.base_spec(k)))
    for k in ('orig', 'imp-replaced', 'exp-replaced'):
        L.append(('c18/' + k, c18.module(k)))
    for k in ('mvp', 'bulk', 'unused-bulk-in-dead-code'):
        L.append(('c20/' + k, c20.mvp_spec(k)))
    return L


def main():
    table = witness.load_table()
    os.makedirs(os.path.join(common.BUILD, 'scripts'), exist_ok=True)
    bad = 0
    n = 0
    for name, spec in all_specs():
        from mirsmt.pipeline import validity
        pre = validity(spec)
        s = z3.Solver()
        s.add(*pre)
        s.check()
        models = [('default', s.model())]
        # a second instantiation: every symbolic flag on where the validity preconditions allow it, limits non-zero
        o = z3.Optimize()
        o.add(*pre)
        ents = list(spec.memories) + list(spec.tables) + list(spec.globals) + [i for i in spec.imports if i['kind'] != 'func']
        for e in ents:
            for k in ('memory64', 'table64', 'shared', 'mutable'):
                b = e.get(k)
                if isinstance(b, z3.BoolRef) and not (z3.is_true(b) or z3.is_false(b)):
                    o.add_soft(b)
            if e.get('initial') is not None and not z3.is_bv_value(e['initial'].t):
                o.add_soft(e['initial'].t != 0)
        if o.check() == z3.sat:
            models.append(('flags-on', o.model()))
        for label, m in models:
            try:
                J = witness.spec_json(spec, m, table)
            except Exception as ex:
                print('SKIP', name, 'witness:', str(ex)[:120])
                continue
            p = os.path.join(common.BUILD, 'scripts', 'val-%d.json' % os.getpid())
            json.dump({'spec': J, 'steps': ['emit'], 'config': {}}, open(p, 'w'))
            r = replay.run_vreplay(['script', p], 'debug')
            os.remove(p)
            n += 1
            inp = r.get('input') or {}
            if not inp.get('valid'):
                bad += 1
                print('INVALID', name, label, inp.get('validation_error'), (r.get('error') or '')[:160])
            elif r.get('status') != 'ok':
                print('NOTE', name, label, 'valid but walrus status', r.get('status'), (r.get('error') or '')[:160])
    print('%d descriptions validated natively, %d invalid' % (n, bad))
    return 1 if bad else 0


sys.exit(main())
