#!/bin/bash
# usage: try_seed_wt.sh <seed name | patch file> <check ids...>
# runs the checks against a scratch worktree of /repo with the seeded change applied; /repo itself is never touched, the
# real evidence files are not overwritten (VERIF_REPO / alternative evidence dir); the worktree is removed afterwards
S=$1; shift
P=$S; [ -f "$P" ] || P=/verif/seeded/$S/patch.diff
W=/tmp/wt-try-$$
git -C /repo worktree add --detach -f $W HEAD >/dev/null 2>&1 || { echo "cannot create worktree"; exit 3; }
(cd $W && git apply "$P") || { echo "patch does not apply"; git -C /repo worktree remove --force $W; exit 3; }
for id in "$@"; do
  (cd /verif && VERIF_REPO=$W timeout 2400 ./check $id > /tmp/try-$$-$id.log 2>&1; rc=$?
   echo "$(basename $S) $id exit=$rc $(grep -E '^C[0-9]+ tier' /tmp/try-$$-$id.log | cut -c1-110) :: $(grep -E '^(VIOLATION|INCONCLUSIVE)' /tmp/try-$$-$id.log | head -1 | cut -c1-150)")
done
git -C /repo worktree remove --force $W
rm -rf /verif/.build/replay-alt-* /verif/.build/replay-target-alt-* /tmp/verif-evidence-alt
