#!/usr/bin/env python3
"""keep_seed.py <name> : copies a confirmed seeded change into /verif/seeded/<name>/ (patch.diff, demonstration, meta.json)"""
import json, os, shutil, sys
n = sys.argv[1]
src = '/tmp/wt-out/' + n
dst = '/verif/seeded/' + n
v = json.load(open(src + '/verify.json'))
assert v['patch_applies'] and v['demo_without_rc'] == 0 and v['demo_with_rc'] != 0 and v['suite_unexpected_failures'] == 0, v
os.makedirs(dst, exist_ok=True)
for f in ('patch.diff', 'seeded_demo.rs', 'demo_deps.txt'):
    if os.path.exists(src + '/' + f):
        shutil.copy(src + '/' + f, dst + '/' + f)
m = json.load(open(src + '/meta.json'))
meta = {'breaks_property': m.get('property'), 'summary': m.get('summary'), 'needs_to_manifest': m.get('needs'), 'why_existing_tests_pass': m.get('why_tests_pass'),
        'confirmed_by_me': {'how': 'tools/verify_seed.sh in a fresh scratch worktree of /repo HEAD: patch applies; demonstration passes without the patch and fails with it; full workspace suite with the patch: %d tests pass (134 + 12 doctests), no unexpected failure' % v['suite_passed_with_patch'], 'verify': v},
        'author_ran': m.get('ran')}
if len(sys.argv) > 2:
    meta['checks_run_against_it'] = json.loads(sys.argv[2])
json.dump(meta, open(dst + '/meta.json', 'w'), indent=1)
print('kept', dst)
