#!/bin/bash
# usage: try_seed.sh <patch.diff> <check ids...> : applies the seeded change to /repo, runs the checks, undoes it
P=$1; shift
cd /repo && git apply "$P" || { echo "patch does not apply"; exit 3; }
for id in "$@"; do
  echo "== $id with $(basename $(dirname $P))"
  (cd /verif && ./check $id 2>&1 | grep -E '^(VIOLATION|KNOWN|INCONCLUSIVE|C[0-9]+ tier)|^  ' | cut -c1-250 | head -12; echo "exit=${PIPESTATUS[0]}")
done
cd /repo && git checkout -- . && git status --short | head -3
