#!/bin/bash
# Runs the repository's pinned test suite with the verification guard OFF (cfg(kani) is never set by cargo test).
cd /repo || exit 2
export CARGO_NET_OFFLINE=true
if command -v cargo-nextest >/dev/null 2>&1 && [ -f /w/lib/nextest.toml ]; then
  exec cargo nextest run --workspace --no-fail-fast --tool-config-file pb:/w/lib/nextest.toml --profile pb --test-threads 8 --offline
else
  exec cargo test --workspace --no-fail-fast --offline
fi
