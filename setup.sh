#!/bin/bash
# One-time, offline set-up after a fresh restore: builds the native helper (vreplay) against /repo, computes the
# codec correspondence table and the packed wasmparser constants, and warms the MIR-dump build directory.
set -e
cd "$(dirname "$0")"
export CARGO_NET_OFFLINE=true
mkdir -p .build evidence
(cd replay && python3 gen.py --check)
cargo build --offline --manifest-path replay/Cargo.toml --target-dir .build/replay-target 2>&1 | tail -2
.build/replay-target/debug/vreplay codec-table > .build/codec_table.json
.build/replay-target/debug/vreplay consts > .build/consts.json
# warm the nightly build used for -Zunpretty=mir (dependencies only change with Cargo.lock)
/opt/veriftools/pyvenv/bin/python3 - <<'PY'
import sys
sys.path.insert(0, '.')
from mirsmt import common
p, th, s = common.mir_dump()
print('MIR dump', p, 'tree', th, '%.0fs' % s)
PY
echo setup done
