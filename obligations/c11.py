"""C11 - the code-offset map handed to custom sections is exact.

The REAL parse and emit run symbolically with preserve_code_transform on; a probe custom section records the
CodeTransform it is given.  Byte lengths are symbolic: flen(f, n) is the encoded length of function f after n
instructions (uninterpreted, strictly increasing), the module prefix is a symbol, LEB128 lengths are the exact function.
The recorded map must equal the layout that wasm-encoder produces for the recorded code section."""
import os
import re
import sys

import z3

from mirsmt import common, engine, modcmp, pipeline, bodycmp, witness, lin
from mirsmt.pipeline import S, Spec, leblen, leb_definitions, leb_range_axioms
from mirsmt.values import *
from obligations import scen, pipecommon as pc, c14, c15
from obligations.scen import OP, u32
from obligations.c01 import BT_EMPTY


def spec_for(nfuncs=3):
    sp = Spec()
    sp.types = [([], [])]
    sp.imports = [dict(module=S('e'), name=S('f'), kind='func', type=0)]
    bodies = [
        [OP('I32Const', value=sym('a0', 'i32')), OP('If', blockty=BT_EMPTY), OP('Nop'), OP('Call', function_index=u32(0)), OP('End'),
         OP('Block', blockty=BT_EMPTY), OP('Loop', blockty=BT_EMPTY), OP('I32Const', value=sym('a1', 'i32')), OP('BrIf', relative_depth=u32(0)), OP('End'), OP('End')],
        [OP('I32Const', value=sym('b0', 'i32')), OP('If', blockty=BT_EMPTY), OP('Call', function_index=u32(0)), OP('Else'), OP('Call', function_index=u32(1)), OP('End')],
        [],
        [OP('I32Const', value=sym('d0', 'i32')), OP('Drop'), OP('I32Const', value=sym('d1', 'i32')), OP('Drop'), OP('I32Const', value=sym('d2', 'i32')), OP('Drop'), OP('I32Const', value=sym('d3', 'i32')), OP('Drop')],
    ][:nfuncs]
    sp.funcs = []
    sp.func_tags = []
    for k, b in enumerate(bodies):
        tag = 'f%d_tag' % k
        sp.funcs.append(dict(type=0, ops=[OP('I32Const', value=sym(tag, 'i32')), OP('Drop')] + b + [OP('End')], start=usize(1000 + 200 * k)))
        sp.func_tags.append(tag)
    sp.exports = [dict(name=S('e%d' % k), kind='Func', index=u32(1 + k)) for k in range(len(bodies))]
    sp.code_start = usize(900)
    return sp


def input_positions(spec, k):
    """input byte offset (relative to the code section start, as walrus keys them) of every operator of function k"""
    f = spec.funcs[k]
    if f.get('positions'):
        return [conc(p) for p in f['positions']]
    base = conc(f['start'])
    pos = 1 + 2 * len(f.get('locals', []))
    return [base + pos + j for j in range(len(f['ops']))]


def expected_layout(OUT):
    """(CS, [(E_j, leb_j, L_j)]) as terms, from the recorded code section"""
    n = len(OUT['code'])
    Ls = []
    for b in OUT['code']:
        sl = b['slice']
        Ls.append(sl.get('len').t)
    B = z3.BitVecVal(0, 64)
    for L in Ls:
        B = B + leblen(L) + L
    Sz = leblen(z3.BitVecVal(n, 64)) + B
    P = z3.BitVec('bytes_before_code_section', 64)
    CS = P + 1 + leblen(Sz)
    E = CS + leblen(z3.BitVecVal(n, 64))
    ents = []
    for L in Ls:
        ents.append((E, leblen(L), L))
        E = E + leblen(L) + L
    return CS, ents


def pad_from(model, ents, pi, nimp, nfuncs):
    """body sizes chosen by the solver, per input function (used to build a native witness of about that size)"""
    pad = {}
    for k in range(nfuncs):
        j = pi['func'].get(nimp + k)
        if j is None:
            continue
        size = model.eval(ents[j - nimp][2], True).as_long()
        if size > 64:
            pad[k] = min(size, 3 << 20)
    return pad


def flen_term(I, k, n):
    f = I.uf.get('flen')
    return f(z3.BitVecVal(k, 32), z3.BitVecVal(n, 32))


def equal_terms(report, pcs, a, b, timeout_ms):
    """None if a == b for all values (linear-form identity, else solver with the exact LEB128 definition); else a model"""
    a, b = z3.simplify(a), z3.simplify(b)
    fa, fb = lin.flatten(a), lin.flatten(b)
    if fa is not None and fb is not None:
        d = fa.add(fb, -1)
        if d.c % (1 << 64) == 0 and not any(co % (1 << 64) for co, _ in d.terms.values()):
            return None
    s = z3.Then('simplify', 'solve-eqs', 'ackermannize_bv', 'bit-blast', 'sat').solver()
    s.set('timeout', timeout_ms)
    terms = list(pcs) + [a != b]
    s.add(*terms)
    s.add(*leb_definitions(terms))
    report.queries += 1
    r = s.check()
    if r == z3.unknown:
        so = second_opinion(s)
        if so == 'unsat':
            report.extra['decided_by_cvc5_after_z3_timeout'] = report.extra.get('decided_by_cvc5_after_z3_timeout', 0) + 1
            return None
        raise Inconclusive('solver timeout on a layout equality (z3 unknown, cvc5 %s)' % so)
    common.cross_check(s, r)
    return s.model() if r == z3.sat else None


def run_count_kernel(ctx, report, timeout_ms):
    """<ModuleFunctions as Emit>::emit, the slice after the function ranges are sorted: code_section_start must be the
    offset of the first entry minus the LEB128 length of the number of CODE ENTRIES, for every count"""
    from mirsmt.pipeline import leblen_exact
    from mirsmt import mir as _mir
    ob = common.Obligation('O11.k', 'ModuleFunctions::emit (slice from the sort of function_ranges to the assignment of code_section_start): for every number n of emitted code entries (64-bit) and every first-entry offset, code_section_start = offset - LEB128 length of n; any other length the code consults (e.g. of the function arena, which also holds imports) is unconstrained')
    try:
        fn = ctx.fn(r'^functions::<impl at src/module/functions/mod\.rs:\d+:\d+: \d+:\d+>::emit$')
        start = None
        for bb in fn.blocks:
            stt, tm = _mir.parsed_block(fn, bb)
            if tm[0] == 'call' and 'sort_by_key' in tm[2] and 'Range<usize>' in tm[2]:
                start = bb
        if start is None:
            raise Inconclusive('sort of function_ranges not found in ModuleFunctions::emit')
        I = ctx.interp()
        n = sym('n_code_entries', 'usize')
        off = sym('first_entry_offset', 'usize')
        others = {}

        def m_len(I, st, c, args, cont, depth, site):
            if 'Range<usize>' in c and 'Id<functions::Function>' in c.replace('id_arena::', ''):
                return cont(st, n)
            key = re.sub(r'[^A-Za-z0-9_:<>]', '', c)[:80]
            if key not in others:
                others[key] = sym('other_len_%d' % len(others), 'usize')
            return cont(st, others[key])
        I.add_model(r'::len$', m_len, 'len(): function_ranges.len() = n (symbolic), any other length = an unconstrained symbol', front=True)
        I.add_model(r'sort_by_key', lambda I, st, c, args, cont, depth, site: cont(st, unit()), 'sort of function_ranges (order is irrelevant to the slice)', front=True)
        ends = []
        I.add_model(r'BTreeMap<ir::InstrLocId, usize> as IntoIterator>::into_iter$', lambda I, st, c, args, cont, depth, site: ends.append(st), 'end of the slice', front=True)
        st = engine.State()
        st.pc += [z3.ULT(n.t, z3.BitVecVal(1 << 63, 64)), z3.UGE(off.t, z3.BitVecVal(16, 64)), z3.ULT(off.t, z3.BitVecVal(1 << 40, 64))]
        ct = Struct('CodeTransform', (VecVal([]), usize(0), Opaque('function_ranges')), ('instruction_map', 'code_section_start', 'function_ranges'))
        cx = Struct('EmitContext', (Opaque('module'), Opaque('indices'), Opaque('wasm_module'), Opaque('locals'), ct), ('module', 'indices', 'wasm_module', 'locals', 'code_transform'))
        cxref = I.halloc(st, cx)
        selfref = I.halloc(st, Struct('ModuleFunctions', (Opaque('arena'),), ('arena',)))
        locs = {fn.debug.get('cx') or '_2': cxref, fn.debug.get('self') or '_1': selfref}
        if fn.debug.get('code_section_start_offset') is None:
            raise Inconclusive('local code_section_start_offset not found')
        locs[fn.debug['code_section_start_offset']] = off
        outs = []
        I.run_from(fn, start, locs, st, lambda s_, v: outs.append((s_, v)))
        bad = []
        nq = 0
        for s_, v in outs:
            if v is PANIC:
                sol = z3.Solver()
                sol.add(*s_.pc)
                if sol.check() == z3.sat:
                    bad.append('panic for n = %s: %r' % (sol.model().eval(n.t, True), pc.pipeline_panic_events(s_)[:1]))
        for s_ in ends:
            got = I.read_ref(s_, cxref).f[4].f[1]
            want = off.t - leblen_exact(n.t)
            sol = z3.Solver()
            sol.set('timeout', timeout_ms)
            sol.add(*s_.pc)
            sol.add(got.t != want)
            nq += 1
            r = sol.check()
            if r == z3.unknown:
                raise Inconclusive('solver timeout on the count kernel')
            common.cross_check(sol, r)
            if r == z3.sat:
                m = sol.model()
                bad.append('n = %s code entries%s: code_section_start is off by %s' % (m.eval(n.t, True), ''.join(', %s = %s' % (k[-40:], m.eval(v_.t, True)) for k, v_ in others.items()), m.eval(got.t - want, True).as_signed_long()))
        report.queries += nq
        ob.detail = '%d slice paths, %d other lengths consulted' % (len(ends), len(others))
        if bad:
            ob.status = 'violated'
            ob.cex = bad[:3]
            report.violations.append({'key': 'ct.code_section_start.count-leb', 'what': 'ModuleFunctions::emit: ' + bad[0]})
        else:
            ob.status = 'discharged' if ends else 'inconclusive'
    except Inconclusive as ex:
        ob.status, ob.detail = 'inconclusive', str(ex)[:400]
    report.add(ob)


def many_functions(nlocal, nimp):
    """nlocal tiny local functions of different instruction counts (+ nimp imported ones): the function-count LEB of the
    code section and of the function arena lie on different sides of the 127/128 boundary"""
    sp = Spec()
    sp.types = [([], [])]
    sp.imports = [dict(module=S('e'), name=S('f%d' % i), kind='func', type=0) for i in range(nimp)]
    sp.funcs = []
    sp.func_tags = []
    pos = 2000
    for k in range(nlocal):
        tag = 'f%d_tag' % k
        ops = [OP('I32Const', value=sym(tag, 'i32')), OP('Drop')] + ([OP('Nop')] if k % 2 else []) + [OP('End')]
        sp.funcs.append(dict(type=0, ops=ops, start=usize(pos)))
        pos += 1 + len(ops) + 1
        sp.func_tags.append(tag)
    sp.exports = [dict(name=S('e%d' % k), kind='Func', index=u32(nimp + k)) for k in (0, nlocal - 1)]
    sp.code_start = usize(1997)
    return sp


def within_by_intervals(I, got, lo, hi):
    """lo <= got <= hi decided by interval arithmetic on the linear forms (bounded atoms, no wrap-around): sound, no solver"""
    got, lo, hi = z3.simplify(got), z3.simplify(lo), z3.simplify(hi)
    fg, fl, fh = lin.flatten(got), lin.flatten(lo), lin.flatten(hi)
    if fg is None or fl is None or fh is None:
        if os.environ.get('VERIF_SLOWQ'):
            sys.stderr.write('INTERVALS: not linear: got=%s lo=%s hi=%s :: %s\n' % (fg is None, fl is None, fh is None, str(z3.simplify(got))[:600]))
        return False
    b = I.bounds
    for f in (fg, fl, fh):
        l, h = lin.form_bounds(f, b)
        if l < 0 or h >= (1 << 64):
            if os.environ.get('VERIF_SLOWQ'):
                sys.stderr.write('INTERVALS: range [%d, %d] c=%d terms=%s\n' % (l, h, f.c, [(co, str(a)[:60]) for co, a in f.terms.values()][:12]))
            return False
    d1, d2 = fg.add(fl, -1), fh.add(fg, -1)
    ok = lin.form_bounds(d1, b)[0] >= 0 and lin.form_bounds(d2, b)[0] >= 0
    if not ok and os.environ.get('VERIF_SLOWQ'):
        for d in (d1, d2):
            sys.stderr.write('INTERVALS: diff bounds %r c=%d terms=%s\n' % (lin.form_bounds(d, b), d.c, [(co, str(a)[:70]) for co, a in d.terms.values()][:10]))
    return ok


def second_opinion(solver, cap_s=180):
    """z3 gave up on an obligation-level query: ask cvc5 (same SMT-LIB2 export as the cross-check); 'sat' / 'unsat' / None"""
    import subprocess
    try:
        txt = '(set-logic ALL)\n' + common._portable(solver.to_smt2())
        p = subprocess.run(['cvc5', '--lang', 'smt2', '--tlimit=%d' % (cap_s * 1000)], input=txt, capture_output=True, text=True, timeout=cap_s + 20)
        out = (p.stdout or '').strip().splitlines()
        if out and out[0].strip() in ('sat', 'unsat') and not any('(error' in l for l in out):
            return out[0].strip()
    except Exception:      # noqa
        pass
    return None


def find_model(report, pcs, cond, timeout_ms):
    """a model of pcs /\\ cond under the exact LEB128 definition, or None"""
    s = z3.Then('simplify', 'solve-eqs', 'ackermannize_bv', 'bit-blast', 'sat').solver()
    s.set('timeout', timeout_ms)
    terms = list(pcs) + [cond]
    s.add(*terms)
    s.add(*leb_definitions(terms))
    report.queries += 1
    import time as _t
    _t0 = _t.time()
    r = s.check()
    if os.environ.get('VERIF_SLOWQ') and _t.time() - _t0 > float(os.environ['VERIF_SLOWQ']):
        sys.stderr.write('SLOW find_model %.1fs %s: %s\n' % (_t.time() - _t0, r, str(cond)[:300]))
    if r == z3.unknown:
        so = second_opinion(s)
        if so == 'unsat':
            report.extra['decided_by_cvc5_after_z3_timeout'] = report.extra.get('decided_by_cvc5_after_z3_timeout', 0) + 1
            return None
        raise Inconclusive('solver timeout on a layout inequality (z3 unknown, cvc5 %s)' % so)
    common.cross_check(s, r)
    return s.model() if r == z3.sat else None


def run_scenario(ctx, report, name, spec, timeout_ms, table, edit=None, light=False):
    """light: many-function descriptions - only code_section_start, the ranges of the first / last function and the
    pairs of the first / last function are examined"""
    ob = common.Obligation('O11:' + name, 'every (input offset, output offset) pair points at the first byte of the same instruction in the emitted code section; each function range is exactly the function\'s entry; code_section_start is the start of the code section body; inserted instructions appear in no pair')
    try:
        I, P = pc.new_pipeline(ctx)
        if light:
            I.fuel_limit = 200000
        st = engine.State()
        cfg = P.default_config(st, preserve_code_transform=z3.BoolVal(True))
        oks, errs, panics = pc.parse_ok_paths(I, P, spec, config=cfg, st=st)
        vios = []
        n = 0
        for s, module in oks:
            mref = I.halloc(s, module)
            pipeline.add_probe(P, s, mref)
            inserted = None
            if edit:
                inserted = edit(I, P, s, mref)
            for s2, rec, _m in P.run_emit(s, None, mref=mref):
                if pc.should_stop(I, vios):
                    break
                if rec is PANIC:
                    vios.append({'key': 'emit.panic', 'what': 'emit panics: %r' % (pc.pipeline_panic_events(s2)[:2],)})
                    continue
                n += 1
                OUT = modcmp.out_module(rec)
                IN = modcmp.in_module(spec)
                C, pi = modcmp.compare_structure(spec, IN, OUT, spec.func_tags)
                ct = [e for e in s2.events if e[0] == 'probe.code_transform']
                if len(ct) != 1:
                    vios.append({'key': 'ct.count', 'what': 'apply_code_transform called %d times' % len(ct)})
                    continue
                ct = ct[0][1]
                CS, ents = expected_layout(OUT)
                extra = {'spec': spec, 'model': None, 'pc': list(s2.pc), 'config': {'preserve_code_transform': True}, 'native_check': native_ct}
                # (0) every code entry is exactly one function body: the slice handed to CodeSection::raw starts right after the
                #     length prefix that Function::encode wrote and spans the whole body
                for j, b in enumerate(OUT['code']):
                    nin = len(b['instrs'])
                    Lb = flen_term(I, b['k'], nin)
                    if b['prefixed']:
                        if b['start'] is None:
                            vios.append(dict(key='code.entry.bytes', what='[%s] code entry %d still contains the length prefix' % (name, j), **extra))
                        else:
                            mm = equal_terms(report, s2.pc, b['start'].t, leblen(Lb), timeout_ms)
                            if mm is not None:
                                vios.append(dict(key='code.entry.bytes', what='[%s] code entry %d is cut at offset %s of the encoded function, the body starts at %s (body size %s)' % (
                                    name, j, mm.eval(b['start'].t, True), mm.eval(leblen(Lb), True), mm.eval(Lb, True)), **extra))
                    mm = equal_terms(report, s2.pc, b['slice'].get('len').t, Lb, timeout_ms)
                    if mm is not None:
                        vios.append(dict(key='code.entry.bytes', what='[%s] code entry %d has %s bytes, the function body has %s' % (name, j, mm.eval(b['slice'].get('len').t, True), mm.eval(Lb, True)), **extra))
                # (c) code section start
                got_cs = ct.get('code_section_start').t
                m = equal_terms(report, s2.pc, got_cs, CS, timeout_ms)
                if m is not None:
                    nfun = len(OUT['code'])
                    vios.append(dict(key='ct.code_section_start', what='[%s] code_section_start is not the start of the code section body (%d functions): off by %s' % (
                        name, nfun, m.eval(got_cs - CS, True).as_signed_long()), **extra))
                # (b) function ranges
                nimp = sum(1 for i in spec.imports if i['kind'] == 'func')
                fr = {conc(t.f[0]): t.f[1] for t in ct.get('function_ranges').items}
                ev_parse_ids = None
                # ids of local functions are their arena positions: imports first, then locals in input order
                for k in range(len(spec.funcs)):
                    if light and k not in (0, len(spec.funcs) - 1):
                        continue
                    j = pi['func'].get(nimp + k)
                    if j is None:
                        continue
                    j -= nimp
                    E, lb, L = ents[j]
                    r = fr.get(nimp + k)
                    if r is None:
                        vios.append(dict(key='ct.range.missing', what='[%s] no function range for function %d' % (name, k), **extra))
                        continue
                    for what, got, want in (('start', r.get('start').t, E), ('end', r.get('end').t, E + lb + L)):
                        m = equal_terms(report, s2.pc, got, want, timeout_ms)
                        if m is not None:
                            vios.append(dict(key='ct.range.' + what, what='[%s] function %d range %s is off by %s (entry size %s)' % (name, k, what, m.eval(got - want, True).as_signed_long(), m.eval(L, True)),
                                             pad=pad_from(m, ents, pi, nimp, len(spec.funcs)), **extra))
                # (a) instruction pairs
                imap = {conc(t.f[0].f[0]): t.f[1].t for t in ct.get('instruction_map').items}
                want_locs = set()
                for k, f in enumerate(spec.funcs):
                    if light and k not in (0, len(spec.funcs) - 1):
                        want_locs |= set(input_positions(spec, k))
                        continue
                    j = pi['func'].get(nimp + k)
                    if j is None:
                        continue
                    j -= nimp
                    body = OUT['code'][j]
                    E, lb, L = ents[j]
                    pos = input_positions(spec, k)
                    lv = bodycmp.liveness(f['ops'])
                    # order-preserving alignment of live non-nop input operators with emitted instructions
                    oi = 0
                    outs = body['instrs']
                    shift = len(inserted.get(k, [])) if inserted else 0
                    oi += shift
                    has_else = set(o for (op, live, d, o) in lv if op.variant == 'Else')
                    for i, (op, live, d, opener) in enumerate(lv):
                        if op.variant == 'Nop' or not live:
                            continue
                        if op.variant == 'End' and opener is not None and f['ops'][opener].variant == 'If' and opener not in has_else:
                            # tolerated: the end of an else-less if is paired with the inserted empty else
                            loc = pos[i]
                            want_locs.add(loc)
                            got = imap.get(loc)
                            want1 = E + lb + flen_term(I, body['k'], oi)
                            oi += 2
                            if got is None:
                                vios.append(dict(key='ct.pair.missing', what='[%s] no pair for input offset %d (function %d operator %d %s)' % (name, loc, k, i, op.variant), **extra))
                            elif equal_terms(report, s2.pc, got, want1, timeout_ms) is not None:
                                vios.append(dict(key='ct.pair.offset', what='[%s] pair for the end of an else-less if (function %d) does not point at the inserted else' % (name, k), **extra))
                            continue
                        loc = pos[i]
                        want_locs.add(loc)
                        got = imap.get(loc)
                        want1 = E + lb + flen_term(I, body['k'], oi)
                        oi += 1
                        if got is None:
                            vios.append(dict(key='ct.pair.missing', what='[%s] no pair for input offset %d (function %d operator %d %s)' % (name, loc, k, i, op.variant), **extra))
                            continue
                        m = equal_terms(report, s2.pc, got, want1, timeout_ms)
                        if m is not None:
                            vios.append(dict(key='ct.pair.offset', what='[%s] pair for input offset %d (function %d operator #%d %s) is off by %s (model: entry size %s)' % (
                                name, loc, k, i, op.variant, m.eval(got - want1, True).as_signed_long(), m.eval(L, True)), pad=pad_from(m, ents, pi, nimp, len(spec.funcs)), **extra))
                extra_locs = set(imap) - want_locs
                if extra_locs:
                    vios.append(dict(key='ct.pair.extra', what='[%s] pairs for offsets that are no input instruction (or belong to inserted instructions): %r' % (name, sorted(extra_locs)[:6]), **extra))
        ob.detail = '%d emit paths' % n
        c14.finish(ob, report, vios, n)
    except Inconclusive as ex:
        ob.status, ob.detail = 'inconclusive', str(ex)[:400]
    except modcmp.Mismatch as ex:
        ob.status, ob.detail = 'inconclusive', 'output record not understood: ' + str(ex)[:300]
    report.add(ob)


def _leb(data, i):
    v = 0
    sh = 0
    while True:
        b = data[i]
        i += 1
        v |= (b & 0x7f) << sh
        sh += 7
        if b < 0x80:
            return v, i


def native_ct(r):
    """native confirmation with vreplay's probe: code_section_start, function ranges and the first pair of every function
    against the bytes of the emitted module"""
    try:
        ct = (r.get('code_transform') or [None])[0]
        if not ct:
            return None, {'note': 'no code_transform record'}
        data = bytes.fromhex(r['emits'][0]['hex'])
        i = 8
        body_start = None
        entries = []
        first_instr = []
        while i < len(data):
            sid = data[i]
            size, j = _leb(data, i + 1)
            if sid == 10:
                body_start = j
                n, p = _leb(data, j)
                for _ in range(n):
                    es = p
                    sz, q = _leb(data, p)
                    # locals declarations
                    nl, t = _leb(data, q)
                    for _k in range(nl):
                        _c, t = _leb(data, t)
                        t += 1
                    first_instr.append(t)
                    p = q + sz
                    entries.append((es, p))
                break
            i = j + size
        rep_ranges = sorted((x['start'], x['end']) for x in ct.get('function_ranges', []))
        rep_offsets = set(p[1] for p in ct.get('instruction_map', []))
        info = {'reported_code_section_start': ct.get('code_section_start'), 'real_code_section_body_start': body_start, 'reported_ranges': rep_ranges[:4], 'real_entries': sorted(entries)[:4],
                'first_instr_missing': [x for x in first_instr if x not in rep_offsets][:4]}
        bad = ct.get('code_section_start') != body_start or rep_ranges != sorted(entries) or bool(info['first_instr_missing'])
        return bad, info
    except Exception as ex:      # noqa
        return None, {'error': str(ex)}


def edit_insert(I, P, st, mref):
    """insert two instructions at the front of local function 1's body through the real builder (default locations)"""
    m = I.read_ref(st, mref)
    funcs = m.get('funcs').get('arena').get('inner').f[0].items
    # arena position of local function #1 = number of imported functions + 1
    idx = 2
    f = funcs[idx]
    kind_i = f.names.index('kind')
    lf_ref = Ref(mref.key, mref.path + (('field', m.names.index('funcs')), ('field', 0), ('field', 0), ('field', 0), ('elem', idx), ('field', kind_i), ('downcast', 'Local'), ('field', 0)))
    lf = I.read_ref(st, lf_ref)
    bref_fb = Ref(lf_ref.key, lf_ref.path + (('field', lf.names.index('builder')),))
    body = []
    I.run(I.method('func_body', 'FunctionBuilder'), [bref_fb], st, lambda s, v: body.append(v))
    bref = I.halloc(st, body[0])
    I.run(I.method('const_at', 'InstrSeqBuilder'), [bref, usize(0), Enum('Value', 'I32', (sym('ins', 'i32'),))], st, lambda s, v: None)
    I.run(I.method('drop_at', 'InstrSeqBuilder'), [bref, usize(1)], st, lambda s, v: None)
    return {1: ['I32Const', 'Drop']}


def run(tier, seed, only=None):
    import os as _os
    _os.environ.setdefault('VERIF_CROSS', '1')        # every obligation-level query of this check is re-decided by cvc5
    report = common.Report('C11', tier, seed)
    ctx = common.Ctx()
    timeout_ms = 120000 if tier == 'quick' else 600000
    table = witness.load_table()

    from obligations import gen
    gl = gen.generated(tier, seed, n_quick=4, n_thorough=18, prefer_small=True)
    items = [('three-functions', spec_for(3), timeout_ms, table, None), ('one-function', spec_for(1), timeout_ms, table, None), ('edited/insert-at-front', spec_for(2), timeout_ms, table, edit_insert)]
    if tier != 'quick':
        items.append(('four-functions', spec_for(4), timeout_ms, table, None))
    items += [(name, sp, timeout_ms, table, None) for name, sp in gl]
    # function-count boundary: 127 code entries (one-byte count) while the arena holds 128 functions, and 128 entries
    # (a whole-pipeline run on 127 + 1 functions does not finish within the scenario budget; the count boundary is
    #  decided by the slice kernel O11.k below for every count instead)
    items = [i for i in items if not only or i[0] in only]
    pc.run_parallel(ctx, report, run_scenario, items)
    if not only or 'O11.k' in only:
        engine.run_in_big_stack(lambda: run_count_kernel(ctx, report, timeout_ms))
    report.bounds = {'generated': gen.bounds_text(tier, len(gl)), 'functions': '1, 2 (edited) and 3 local functions (+1 import), with if/else, else-less if, block, loop, nop', 'sizes': 'every encoded length symbolic: flen(function, #instructions) in [1, 2^32), strictly increasing; module prefix in [8, 2^32); hence every LEB128-length boundary (127/128, 16383/16384, ...) of every entry and of the function count is inside the quantified space',
                     'LEB128': 'exact definition conjoined to every layout equality'}
    report.assumptions = ['layout contract of wasm-encoder 0.214.0: Function::encode = LEB(len) ++ body; CodeSection::raw appends LEB(len) ++ bytes; Module::section = id, LEB(size), payload; code payload = LEB(count) ++ entries',
                          'tolerated: the end of an else-less if is paired with the inserted empty else', 'GC variant: covered structurally by C06 (the map is computed by the same code after deletion)']
    report.samples = [o.as_json() for o in report.obligations[:3]]
    return report, ctx
