"""C18 - function replacement edits rewire exactly one thing.

The REAL Module::parse, replace_imported_func / replace_exported_func (with a harness closure that drives the real
InstrSeqBuilder methods) and emit_wasm run symbolically; the output is compared with a hand-written description of the
module the edit is documented to produce (same comparison as C04/C01)."""
import z3

from mirsmt import common, engine, modcmp, pipeline, bodycmp, witness
from mirsmt.pipeline import S, Spec
from mirsmt.values import *
from obligations import scen, pipecommon as pc, c14
from obligations.scen import OP, u32, tagged_body


from obligations import c15

def module(form):
    """form: 'orig' | 'imp-replaced' | 'exp-replaced' (the latter two are the documented results of the edits)"""
    sp = Spec()
    sp.types = [(['i32'], ['i32']), ([], []), ([], ['i32'])]
    imps = [dict(module=S('e'), name=S('f'), kind='func', type=0), dict(module=S('e'), name=S('g'), kind='func', type=1)]
    if form == 'imp-replaced':
        imps = imps[1:]
    sp.imports = imps
    n_imp = len(imps)
    # function index space of the original: 0 imp_f, 1 imp_g, 2 caller, 3 x, 4 y
    if form == 'imp-replaced':
        # 0 imp_g, 1 caller, 2 x, 3 y, 4 NEW (was imp_f)
        IDX = {'imp_f': 4, 'imp_g': 0, 'caller': 1, 'x': 2, 'y': 3}
    else:
        IDX = {'imp_f': 0, 'imp_g': 1, 'caller': 2, 'x': 3, 'y': 4, 'new_x': 5}
    sp.funcs = [
        dict(type=0, ops=tagged_body('caller', 2, [OP('LocalGet', local_index=u32(0)), OP('Call', function_index=u32(IDX['imp_f'])), OP('Call', function_index=u32(IDX['imp_g']))])),
        dict(type=2, ops=tagged_body('x', 1, [OP('I32Const', value=sym('x_k', 'i32'))])),
        dict(type=2, ops=tagged_body('y', 3, [OP('Call', function_index=u32(IDX['x']))])),
    ]
    sp.func_tags = ['caller', 'x', 'y']
    if form == 'imp-replaced':
        sp.funcs.append(dict(type=0, ops=[OP('I32Const', value=sym('newbody', 'i32')), OP('Drop'), OP('LocalGet', local_index=u32(0)), OP('End')]))
        sp.func_tags.append('newbody')
    if form == 'exp-replaced':
        sp.funcs.append(dict(type=2, ops=[OP('I32Const', value=sym('newbody', 'i32')), OP('Drop'), OP('I32Const', value=sym('newres', 'i32')), OP('End')]))
        sp.func_tags.append('newbody')
    sp.tables = [scen.table('t', t64=False)]
    sp.exports = [dict(name=S('c'), kind='Func', index=u32(IDX['caller'])), dict(name=S('x'), kind='Func', index=u32(IDX['new_x'] if form == 'exp-replaced' else IDX['x'])),
                  dict(name=S('y'), kind='Func', index=u32(IDX['y'])), dict(name=S('imp'), kind='Func', index=u32(IDX['imp_f']))]
    sp.elements = [dict(mode='active', table=None, offset=OP('I32Const', value=sym('eo', 'i32')), items=('funcs', [u32(IDX['imp_f']), u32(IDX['x'])]))]
    return sp


def builder_closure(I, kind):
    """the user closure handed to replace_*_func: builds `i32.const newbody; drop; <result>` with the real builder"""
    def clo(I, st, args, cont, depth):
        tupv = args[0]
        body, arglocals = tupv.f[0], tupv.f[1]
        i32c = I.method('i32_const', 'InstrSeqBuilder')
        drop = I.method('drop', 'InstrSeqBuilder', nparams=1)
        steps = [(i32c, [sym('newbody', 'i32')]), (drop, [])]
        if kind == 'imp':
            lg = I.method('local_get', 'InstrSeqBuilder')
            _, v = __import__('mirsmt.models', fromlist=['vec_at']).vec_at(I, st, arglocals)
            steps.append((lg, [v.items[0]]))
        else:
            steps.append((i32c, [sym('newres', 'i32')]))

        def run(i, st):
            if i >= len(steps):
                return cont(st, unit())
            fn, extra = steps[i]
            I.run(fn, [body] + extra, st, lambda s2, r: cont(s2, PANIC) if r is PANIC else run(i + 1, s2), depth + 1)
        run(0, st)
    return I.pyclosure(clo)


def run_edit(ctx, report, kind, timeout_ms, table):
    name = {'imp': 'replace_imported_func', 'exp': 'replace_exported_func', 'imp-rehomed': 'imports.delete + imports.add of the same function (re-homed import), then replace_imported_func', 'imp-wrong': 'replace_imported_func on a local function', 'exp-wrong': 'replace_exported_func on a non-exported function'}[kind]
    ob = common.Obligation('O18:' + kind, name + ': ' + {'imp': 'identifier kept (callers, table entry and export now reach the new body), exactly that import removed, signature kept, everything else unchanged',
                                                           'imp-rehomed': 'a multi-step history: the import entry of function 0 is deleted and re-added through the public ModuleImports API, then replaced: no panic, the live import entry is the one removed, result as for `imp`',
                                                           'exp': 'a new function is added, exactly that export retargeted, the original function still serves internal callers and the table, signature kept',
                                                           'imp-wrong': 'returns Err and changes nothing', 'exp-wrong': 'returns Err and changes nothing'}[kind])
    try:
        I, P = pc.new_pipeline(ctx)
        spec = module('orig')
        oks, errs, panics = pc.parse_ok_paths(I, P, spec)
        vios = []
        n = 0
        for s, mod in oks:
            mref = I.halloc(s, mod)
            before = __import__('mirsmt.outspec', fromlist=['canon']).canon(P.snap(s, mod))
            if kind.startswith('imp'):
                fn = I.method('replace_imported_func', impl_ty='Module')
                fid = bv(3 if kind == 'imp-wrong' else 0, 'Id<Function>')
                if kind == 'imp-rehomed':
                    imports_ref = c15.pipeline_field(mref, I.read_ref(s, mref), 'imports')
                    r = []
                    I.run(I.method('get_imported_func', 'ModuleImports'), [imports_ref, fid], s, lambda s_, v_: r.append((s_, v_)))
                    if len(r) != 1 or r[0][1] is PANIC or r[0][1].variant != 'Some':
                        raise Inconclusive('get_imported_func(0) before the edit: %r' % (r[:1],))
                    s = r[0][0]
                    imp_id = I.deref(s, r[0][1].f[0]).get('id')
                    r = []
                    I.run(I.method('delete', 'ModuleImports'), [imports_ref, imp_id], s, lambda s_, v_: r.append((s_, v_)))
                    if len(r) != 1 or r[0][1] is PANIC:
                        raise Inconclusive('imports.delete before the edit')
                    s = r[0][0]
                    r = []
                    I.run(I.method('add', 'ModuleImports'), [imports_ref, S('e'), S('f'), fid], s, lambda s_, v_: r.append((s_, v_)))
                    if len(r) != 1 or r[0][1] is PANIC:
                        raise Inconclusive('imports.add before the edit')
                    s = r[0][0]
            else:
                fn = I.method('replace_exported_func', impl_ty='Module')
                fid = bv(3 if kind == 'exp' else 1, 'Id<Function>')
            outs = []
            I.run(fn, [mref, fid, builder_closure(I, kind[:3])], s, lambda s2, v: outs.append((s2, v)))
            for s2, v in outs:
                if v is PANIC:
                    vios.append({'key': 'edit.panic', 'what': '%s panics: %r' % (name, pc.pipeline_panic_events(s2)[:2])})
                    continue
                if kind.endswith('wrong'):
                    n += 1
                    if v.variant != 'Err':
                        vios.append({'key': 'edit.accepts', 'what': '%s returned Ok' % name})
                    after = __import__('mirsmt.outspec', fromlist=['canon']).canon(P.snap(s2, I.read_ref(s2, mref)))
                    if after != before:
                        vios.append({'key': 'edit.err-mutates', 'what': '%s returned Err but changed the module' % name})
                    continue
                if v.variant != 'Ok':
                    vios.append({'key': 'edit.rejects', 'what': '%s returned Err on a valid request' % name})
                    continue
                rid = conc(v.f[0])
                if kind in ('imp', 'imp-rehomed') and rid != 0:
                    vios.append({'key': 'edit.id', 'what': 'replace_imported_func returned id %d, the replaced function had id 0' % rid})
                if kind == 'exp' and rid == 3:
                    vios.append({'key': 'edit.id', 'what': 'replace_exported_func returned the id of the original function'})
                want = module('imp-replaced' if kind in ('imp', 'imp-rehomed') else 'exp-replaced')
                IN = modcmp.in_module(want)
                for s3, rec, _m in P.run_emit(s2, None, mref=mref):
                    if rec is PANIC:
                        vios.append({'key': 'emit.panic', 'what': 'emit after %s panics: %r' % (name, pc.pipeline_panic_events(s3)[:2])})
                        continue
                    n += 1
                    OUT = modcmp.out_module(rec)
                    C, pi = modcmp.compare_structure(want, IN, OUT, want.func_tags)
                    nimp = len(want.imports)
                    types = [(tuple(p), tuple(r)) for p, r in want.types]
                    for k, f in enumerate(want.funcs):
                        j = pi['func'].get(nimp + k)
                        if j is None:
                            continue
                        B = bodycmp.BodyCmp(table, pi, C)
                        B.compare(want.func_tags[k], f['ops'], OUT['code'][j - nimp]['instrs'], types)
                    for key, what in C.bad:
                        vios.append({'key': key, 'what': '[after %s] %s' % (name, what)})
                    for key, what, cond in C.todo:
                        sol = z3.Solver()
                        sol.add(*s3.pc)
                        sol.add(cond)
                        report.queries += 1
                        if sol.check() == z3.sat:
                            vios.append({'key': key, 'what': '[after %s] %s not preserved' % (name, what)})
        ob.detail = '%d paths' % n
        c14.finish(ob, report, vios, n)
    except Inconclusive as ex:
        ob.status, ob.detail = 'inconclusive', str(ex)[:400]
    except modcmp.Mismatch as ex:
        ob.status, ob.detail = 'inconclusive', 'output record not understood: ' + str(ex)[:300]
    report.add(ob)


# ------------------------------------------------------------------ the edits on drawn descriptions
def remap_funcs(spec, fmap):
    """a copy of the description in which every function-index reference i is replaced by fmap(i)"""
    import copy
    sp = copy.copy(spec)

    def op(o):
        if isinstance(o, Enum) and o.names and 'function_index' in o.names:
            i = o.names.index('function_index')
            return o.with_field(i, u32(fmap(conc(o.f[i]))))
        return o
    sp.funcs = [dict(f, ops=[op(o) for o in f['ops']]) for f in spec.funcs]
    sp.func_tags = list(spec.func_tags)
    sp.imports = list(spec.imports)
    sp.exports = [dict(e, index=u32(fmap(conc(e['index'])))) if e['kind'] == 'Func' else dict(e) for e in spec.exports]
    sp.start = None if spec.start is None else u32(fmap(conc(spec.start)))
    els = []
    for e in spec.elements:
        e2 = dict(e)
        if e['items'][0] == 'funcs':
            e2['items'] = ('funcs', [u32(fmap(conc(x))) for x in e['items'][1]])
        else:
            e2['items'] = ('exprs', e['items'][1], [op(x) for x in e['items'][2]])
        els.append(e2)
    sp.elements = els
    sp.globals = [dict(g, init=op(g['init'])) for g in spec.globals]
    return sp


NEW_BODY = lambda: [OP('I32Const', value=sym('newbody', 'i32')), OP('Drop'), OP('Unreachable'), OP('End')]


def expected_after(spec, kind, target):
    """the description the edit is documented to produce"""
    nimp = sum(1 for i in spec.imports if i['kind'] == 'func')
    nloc = len(spec.funcs)
    if kind == 'imp':
        # the import disappears, the function keeps its identity and becomes local (its position among the local
        # functions is the emitter's business: the comparison recovers it from the tag)
        new_index = nimp - 1 + nloc
        fmap = lambda i: new_index if i == target else (i - 1 if i > target else i)
        sp = remap_funcs(spec, fmap)
        k = [j for j, i in enumerate(spec.imports) if i['kind'] == 'func'][target]
        ty = spec.imports[k]['type']
        sp.imports = [i for j, i in enumerate(spec.imports) if j != k]
        sp.funcs.append(dict(type=ty if isinstance(ty, int) else conc(ty), ops=NEW_BODY()))
        sp.func_tags.append('newbody')
        return sp
    # exported: a new function of the same type is added; the FIRST export of the target names it; nothing else moves
    sp = remap_funcs(spec, lambda i: i)
    new_index = nimp + nloc
    sp.funcs.append(dict(type=spec.funcs[target - nimp]['type'], ops=NEW_BODY()))
    sp.func_tags.append('newbody')
    done = False
    for e in sp.exports:
        if not done and e['kind'] == 'Func' and conc(e['index']) == target:
            e['index'] = u32(new_index)
            done = True
    return sp


def unreachable_closure(I):
    def clo(I, st, args, cont, depth):
        body = args[0].f[0]
        steps = [(I.method('i32_const', 'InstrSeqBuilder'), [sym('newbody', 'i32')]), (I.method('drop', 'InstrSeqBuilder', nparams=1), []), (I.method('unreachable', 'InstrSeqBuilder', nparams=1), [])]

        def run(i, st):
            if i >= len(steps):
                return cont(st, unit())
            fn, extra = steps[i]
            I.run(fn, [body] + extra, st, lambda s2, r: cont(s2, PANIC) if r is PANIC else run(i + 1, s2), depth + 1)
        run(0, st)
    return I.pyclosure(clo)


def run_generated_edit(ctx, report, name, spec, kind, table, timeout_ms):
    nimp = sum(1 for i in spec.imports if i['kind'] == 'func')
    if kind == 'imp':
        if nimp == 0:
            return
        target = spec.gen_seed % nimp
    else:
        cands = [conc(e['index']) for e in spec.exports if e['kind'] == 'Func' and conc(e['index']) >= nimp]
        if not cands:
            return
        target = cands[0]
    ob = common.Obligation('O18:%s@%s' % (kind, name), '%s of function %d of description %s: the output is the description with exactly that one thing rewired (%s); every other reference, segment, export and body is unchanged' % (
        'replace_imported_func' if kind == 'imp' else 'replace_exported_func', target, name, 'import removed, identity kept by callers / segments / exports' if kind == 'imp' else 'new function added, first export of the target retargeted'))
    try:
        I, P = pc.new_pipeline(ctx)
        oks, errs, panics = pc.parse_ok_paths(I, P, spec)
        vios = []
        n = 0
        want = expected_after(spec, kind, target)
        IN = modcmp.in_module(want)
        for s, mod in oks:
            mref = I.halloc(s, mod)
            fn = I.method('replace_imported_func' if kind == 'imp' else 'replace_exported_func', impl_ty='Module')
            outs = []
            I.run(fn, [mref, bv(target, 'Id<Function>'), unreachable_closure(I)], s, lambda s2, v: outs.append((s2, v)))
            for s2, v in outs:
                if v is PANIC:
                    vios.append({'key': 'edit.panic', 'what': '[%s] the edit panics: %r' % (name, pc.pipeline_panic_events(s2)[:2])})
                    continue
                if v.variant != 'Ok':
                    vios.append({'key': 'edit.rejects', 'what': '[%s] the edit returned Err on a valid request' % name})
                    continue
                rid = conc(v.f[0])
                if kind == 'imp' and rid != target:
                    vios.append({'key': 'edit.id', 'what': '[%s] replace_imported_func returned id %d, the replaced function had id %d' % (name, rid, target)})
                if kind == 'exp' and rid == target:
                    vios.append({'key': 'edit.id', 'what': '[%s] replace_exported_func returned the id of the original function' % name})
                for s3, rec, _m in P.run_emit(s2, None, mref=mref):
                    if rec is PANIC:
                        vios.append({'key': 'emit.panic', 'what': '[%s] emit after the edit panics: %r' % (name, pc.pipeline_panic_events(s3)[:2])})
                        continue
                    n += 1
                    OUT = modcmp.out_module(rec)
                    C, pi = modcmp.compare_structure(want, IN, OUT, want.func_tags)
                    wn = sum(1 for i in want.imports if i['kind'] == 'func')
                    types = [(tuple(p), tuple(r)) for p, r in want.types]
                    for k, f in enumerate(want.funcs):
                        j = pi['func'].get(wn + k)
                        if j is None or not (0 <= j - wn < len(OUT['code'])):
                            continue
                        B = bodycmp.BodyCmp(table, pi, C)
                        B.compare(want.func_tags[k], f['ops'], OUT['code'][j - wn]['instrs'], types)
                    for key, what in C.bad:
                        vios.append({'key': key, 'what': '[%s after %s of %d] %s' % (name, kind, target, what)})
                    for key, what, cond in C.todo:
                        sol = z3.Solver()
                        sol.add(*s3.pc)
                        sol.add(cond)
                        report.queries += 1
                        if sol.check() == z3.sat:
                            vios.append({'key': key, 'what': '[%s after %s of %d] %s not preserved' % (name, kind, target, what)})
        ob.detail = '%d paths' % n
        c14.finish(ob, report, vios, n)
    except Inconclusive as ex:
        ob.status, ob.detail = 'inconclusive', str(ex)[:400]
    except modcmp.Mismatch as ex:
        ob.status, ob.detail = 'inconclusive', 'output record not understood: ' + str(ex)[:300]
    report.add(ob)


def dup_names_spec():
    """two imports share module and field name (legal; they differ in signature): replacing the LATER one must remove
    exactly that import entry"""
    sp = Spec()
    sp.types = [(['i32'], ['i32']), ([], [])]
    sp.imports = [dict(module=S('env'), name=S('hook'), kind='func', type=0), dict(module=S('env'), name=S('other'), kind='func', type=1),
                  dict(module=S('env'), name=S('hook'), kind='func', type=1)]
    sp.funcs = [dict(type=1, ops=tagged_body('caller', 0, [OP('I32Const', value=sym('a', 'i32')), OP('Call', function_index=u32(0)), OP('Drop'), OP('Call', function_index=u32(1)), OP('Call', function_index=u32(2))]))]
    sp.func_tags = ['caller']
    sp.exports = [dict(name=S('c'), kind='Func', index=u32(3)), dict(name=S('h2'), kind='Func', index=u32(2))]
    sp.gen_seed = 2          # run_generated_edit replaces imported function gen_seed % #imports = 2
    return sp


def run(tier, seed, only=None):
    report = common.Report('C18', tier, seed)
    ctx = common.Ctx()
    timeout_ms = 60000 if tier == 'quick' else 600000
    table = witness.load_table()

    from obligations import gen
    gl = gen.generated(tier, seed, n_quick=10)

    def job(ctx, report, what, name, sp, kind):
        if what == 'fixed':
            run_edit(ctx, report, kind, timeout_ms, table)
        else:
            run_generated_edit(ctx, report, name, sp, kind, table, timeout_ms)
    items = [('fixed', kind, None, kind) for kind in ('imp', 'imp-rehomed', 'exp', 'imp-wrong', 'exp-wrong')]
    for n, sp in gl:
        items += [('gen', n, sp, 'imp'), ('gen', n, sp, 'exp')]
    items.append(('gen', 'duplicate-import-names', dup_names_spec(), 'imp'))
    items = [i for i in items if not only or i[1] in only]
    pc.run_parallel(ctx, report, job, items)
    report.bounds = {'generated': gen.bounds_text(tier, len(gl)) + ' x {replace_imported_func of a drawn imported function, replace_exported_func of the first exported local function} where the description has one; the expected result is computed by an index-remapping transform of the description (expected_after)', 'module': 'two imported functions (one called, listed in a table segment and exported), three local functions (caller, exported x, internal caller y of x)', 'replacement body': 'built by a harness closure through the real InstrSeqBuilder::{i32_const, drop, local_get}; constants symbolic'}
    report.assumptions = ['the documented result of each edit is written down as a second description (obligations/c18.py module())', 'counterexamples are reported with the solver path only (no native replay route for API edits yet)']
    report.samples = [o.as_json() for o in report.obligations[:4]]
    return report, ctx
