"""C19 - index maps exposed to extension code agree with the binaries.

parse-time map: observed through the real on_parse callback position of Module::parse (the callback is a recorder);
emit-time map: observed by a probe custom section whose `data(&IdsToIndices)` is a recorder."""
import z3

from mirsmt import common, engine, modcmp, pipeline
from mirsmt.pipeline import S
from mirsmt.values import *
from obligations import scen, pipecommon as pc, c06, gcref

SPACES = [('funcs', 'func'), ('types', 'type'), ('tables', 'table'), ('memories', 'memory'), ('globals', 'global'), ('elements', 'element'), ('data', 'data')]


def arena_items(module, field):
    a = module.get(field).get('arena')
    if a.ty == 'ArenaSet':
        a = a.get('arena')
    if a.ty == 'TombstoneArena':
        a = a.get('inner')
    return a.f[0].items


def describe_record(kind, rec, module):
    """a comparable fingerprint of an arena record"""
    if kind == 'memory':
        return ('memory', repr(rec.get('initial')), repr(rec.get('shared')))
    if kind == 'table':
        return ('table', repr(rec.get('initial')))
    if kind == 'global':
        return ('global', repr(rec.get('mutable')), repr(rec.get('ty')))
    if kind == 'type':
        return ('type', tuple(x.variant if not x.f else modcmp_vt(x) for x in rec.get('params').items) if isinstance(rec.get('params'), VecVal) else None)
    if kind == 'data':
        return ('data', modcmp.tok(rec.get('value')))
    if kind == 'element':
        return ('element', rec.get('kind').variant, rec.get('items').variant)
    if kind == 'func':
        k = rec.get('kind')
        if k.variant == 'Import':
            imp = arena_items(module, 'imports')[conc(k.f[0].get('import'))]
            return ('func', 'import', modcmp.tok(imp.get('module')), modcmp.tok(imp.get('name')))
        lf = k.f[0]
        seqs = lf.get('builder').get('arena').get('inner').f[0].items
        entry = conc(lf.get('builder').get('entry').f[0])
        first = seqs[entry].get('instrs').items[0].f[0]
        names = set()
        modcmp.leaves_names(first, names)
        return ('func', 'local', tuple(sorted(names)))
    return (kind,)


def modcmp_vt(x):
    return x.variant


def describe_spec(kind, i, spec, deref):
    imps = [x for x in spec.imports if x['kind'] == kind] if kind in ('func', 'table', 'memory', 'global') else []
    if kind == 'memory':
        m = imps[i] if i < len(imps) else spec.memories[i - len(imps)]
        return ('memory', repr(m['initial']), repr(m['shared']))
    if kind == 'table':
        t = imps[i] if i < len(imps) else spec.tables[i - len(imps)]
        return ('table', repr(t['initial']))
    if kind == 'global':
        g = imps[i] if i < len(imps) else spec.globals[i - len(imps)]
        return ('global', repr(g['mutable']), None)
    if kind == 'data':
        return ('data', modcmp.tok(spec.data[i]['data']))
    if kind == 'element':
        e = spec.elements[i]
        return ('element', {'active': 'Active', 'passive': 'Passive', 'declared': 'Declared'}[e['mode']], 'Functions' if e['items'][0] == 'funcs' else 'Expressions')
    if kind == 'func':
        if i < len(imps):
            return ('func', 'import', modcmp.tok(imps[i]['module']), modcmp.tok(imps[i]['name']))
        return ('func', 'local', (spec.func_tags[i - len(imps)],))
    return (kind,)


def same_fp(a, b):
    if a[0] == 'global':
        return a[:2] == b[:2]
    return a == b


def check_maps(name, spec, s_events, OUT, pi, module_after_parse, keep, vios, extra):
    ev_parse = [e for e in s_events if e[0] == 'on_parse']
    if len(ev_parse) != 1:
        vios.append(dict(key='on_parse.count', what='[%s] on_parse ran %d times on a successful parse' % (name, len(ev_parse)), **extra))
        return
    ids, m = ev_parse[0][1], ev_parse[0][2]
    counts = {'func': len([x for x in spec.imports if x['kind'] == 'func']) + len(spec.funcs), 'type': len(spec.types),
              'table': len([x for x in spec.imports if x['kind'] == 'table']) + len(spec.tables), 'memory': len([x for x in spec.imports if x['kind'] == 'memory']) + len(spec.memories),
              'global': len([x for x in spec.imports if x['kind'] == 'global']) + len(spec.globals), 'element': len(spec.elements), 'data': len(spec.data)}
    parse_ids = {}
    for field, kind in SPACES:
        lst = ids.get(field).items
        if len(lst) != counts[kind]:
            vios.append(dict(key='parse-map.%s.len' % kind, what='[%s] parse-time map has %d %s entries, the input defines %d' % (name, len(lst), field, counts[kind]), **extra))
        arena_field = {'funcs': 'funcs', 'types': 'types', 'tables': 'tables', 'memories': 'memories', 'globals': 'globals', 'elements': 'elements', 'data': 'data'}[field]
        items = arena_items(m, arena_field)
        for i, idv in enumerate(lst[:counts[kind]]):
            idn = conc(idv)
            parse_ids.setdefault(kind, {})[i] = idn
            if kind == 'type':
                rec = items[idn]
                sig = (tuple(modcmp.out_valtype(Enum('x', v.variant, v.f)) if False else vt_name(v) for v in rec.get('params').items if True) if isinstance(rec.get('params'), VecVal) else None)
                continue
            if idn >= len(items):
                vios.append(dict(key='parse-map.%s' % kind, what='[%s] parse-time %s index %d maps to id %d outside the arena' % (name, kind, i, idn), **extra))
                continue
            got = describe_record(kind, items[idn], m)
            want = describe_spec(kind, i, spec, None)
            if not same_fp(got, want):
                vios.append(dict(key='parse-map.%s' % kind, what='[%s] parse-time map: %s index %d resolves to %r, the input defines %r there' % (name, kind, i, got, want), **extra))
    # locals: parameters then declared locals, run lengths expanded
    loc_map = ids.get('locals')
    nimp = len([x for x in spec.imports if x['kind'] == 'func'])
    types = [(tuple(p), tuple(r)) for p, r in spec.types]
    locs_arena = m.get('locals').get('arena').f[0].items
    for k, f in enumerate(spec.funcs):
        fid = parse_ids.get('func', {}).get(nimp + k)
        ent = [v for kk, v in loc_map.items if conc(kk) == fid]
        want_tys = list(types[f['type']][0])
        for cnt, vt in f.get('locals', []):
            want_tys += [vt] * cnt
        got = ent[0].items if ent else ()
        if len(got) != len(want_tys):
            vios.append(dict(key='parse-map.local.len', what='[%s] function %d: parse-time local map has %d entries, the input defines %d' % (name, k, len(got), len(want_tys)), **extra))
            continue
        for li, lid in enumerate(got):
            rec = locs_arena[conc(lid)]
            ty = rec.get('ty')
            tyn = vt_name(ty)
            if tyn != want_tys[li]:
                vios.append(dict(key='parse-map.local', what='[%s] function %d local %d resolves to a local of type %s, the input declares %s' % (name, k, li, tyn, want_tys[li]), **extra))
    # emit-time map
    ev_probe = [e for e in s_events if e[0] == 'probe.data']
    if len(ev_probe) != 1:
        vios.append(dict(key='probe.count', what='[%s] the probe section was serialised %d times' % (name, len(ev_probe)), **extra))
        return
    eidx = ev_probe[0][1]
    for field, kind in SPACES:
        mp = {conc(k): conc(v) for k, v in eidx.get(field).items}
        for i, idn in parse_ids.get(kind, {}).items():
            if keep is not None and i not in keep.get(kind, ()):
                continue
            want = pi[kind].get(i)
            if want is None:
                continue
            if mp.get(idn) != want:
                vios.append(dict(key='emit-map.%s' % kind, what='[%s] emit-time map gives index %r for %s #%d, it is emitted at index %d' % (name, mp.get(idn), kind, i, want), **extra))


def vt_name(v):
    if isinstance(v, Enum):
        if v.variant == 'Ref':
            return {'Funcref': 'funcref', 'Externref': 'externref'}[v.f[0].variant]
        return v.variant.lower()
    return repr(v)


def run_scenario(ctx, report, name, spec, gc, timeout_ms):
    ob = common.Obligation('O19:' + name, 'parse-time map: every input index of every space (incl. locals) resolves to the entity defined there; emit-time map given to custom sections: every id resolves to the index at which the entity is emitted' + (' (after gc)' if gc else ''))
    try:
        I, P = pc.new_pipeline(ctx)
        st = engine.State()
        cfg = P.default_config(st)
        cfg = cfg.with_field(cfg.names.index('on_parse'), some(I.halloc(st, Struct('OnParseRecorder', ()))))
        oks, errs, panics = pc.parse_ok_paths(I, P, spec, config=cfg, st=st)
        vios = []
        for s in panics:
            vios.append({'key': 'parse.panic', 'what': '[%s] parse panics' % name, 'spec': spec, 'model': None, 'pc': list(s.pc)})
        for s, e in errs:
            vios.append({'key': 'parse.rejects', 'what': '[%s] parse rejects' % name, 'spec': spec, 'model': None, 'pc': list(s.pc)})
        IN = modcmp.in_module(spec)
        keep = None
        if gc:
            keep, residue = c06.keep_sets(spec)
        n = 0
        for s, module in oks:
            mref = I.halloc(s, module)
            pipeline.add_probe(P, s, mref)
            states = [s]
            if gc:
                states = [s1 for s1, v in pipeline.run_gc(P, s, mref) if v is not PANIC]
            for s1 in states:
                for s2, rec, _m in P.run_emit(s1, None, mref=mref):
                    if rec is PANIC:
                        vios.append({'key': 'emit.panic', 'what': '[%s] emit panics: %r' % (name, pc.pipeline_panic_events(s2)[:2]), 'spec': spec, 'model': None, 'pc': list(s2.pc), 'steps': ('gc', 'emit') if gc else ('emit',)})
                        continue
                    n += 1
                    OUT = modcmp.out_module(rec)
                    C, pi = modcmp.compare_structure(spec, IN, OUT, spec.func_tags, keep=keep)
                    extra = {'spec': spec, 'model': None, 'pc': list(s2.pc), 'steps': ('gc', 'emit') if gc else ('emit',), 'native_check': native_maps, 'config': {'on_parse': True, 'preserve_code_transform': True}}
                    check_maps(name, spec, s2.events, OUT, pi, module, keep, vios, extra)
        ob.detail = '%d emit paths' % n
        if n == 0 and not vios:
            ob.status, ob.detail = 'inconclusive', 'vacuous'
        elif vios:
            ob.status = 'violated'
            seen = set()
            for v in vios:
                if v['key'] not in seen:
                    seen.add(v['key'])
                    report.violations.append(v)
            ob.cex = [v['what'][:300] for v in vios[:4]]
        else:
            ob.status = 'discharged'
    except Inconclusive as ex:
        ob.status, ob.detail = 'inconclusive', str(ex)[:400]
    except modcmp.Mismatch as ex:
        ob.status, ob.detail = 'inconclusive', 'output record not understood: ' + str(ex)[:300]
    report.add(ob)


def native_maps(r):
    """native confirmation through vreplay's probe: every captured id's emit index must be the position at which an
    entity with the same name/arena position appears; here we only require the report to expose an inconsistency between
    `emit_indices` and the decoded output (data segments: payload order)"""
    info = {}
    try:
        ei = r.get('emit_indices') or []
        out = r['emits'][0]['dump']
        if ei:
            rec = ei[0]
            datas = rec.get('data') or rec.get('datas') or []
            idxs = [d.get('index') for d in datas if d.get('index') is not None]
            info['data_indices'] = idxs
            if sorted(idxs) != list(range(len(out['data']))):
                return True, info
    except Exception as ex:     # noqa
        info['error'] = str(ex)
    return None, info


def run(tier, seed, only=None):
    report = common.Report('C19', tier, seed)
    ctx = common.Ctx()
    timeout_ms = 60000 if tier == 'quick' else 600000

    from obligations import gen
    gl = gen.generated(tier, seed)
    items = [('full-module/variant0', scen.full_module(0), False, timeout_ms), ('gc/all-kinds', c06.gc_module_a(), True, timeout_ms)]
    if tier != 'quick':
        items += [('full-module/variant1', scen.full_module(1), False, timeout_ms), ('gc/mixed', c06.gc_module_c(), True, timeout_ms)]
    for k, (name, sp) in enumerate(gl):
        if k % 2:
            sp.customs = [dict(name=S('pre%d' % j), data=Opaque('bytes:pre%d' % j), place=('start', 'end')[j % 2]) for j in range(1 + k % 3)]      # the probe is then not the first custom section emitted
        items += [(name, sp, False, timeout_ms), (name + '+gc', sp, True, timeout_ms)]
    # an unknown custom section of the input precedes the probe (every custom section must see the complete map)
    pre = scen.full_module(0)
    pre.customs = [dict(name=S('pre0'), data=Opaque('bytes:pre0'), place='start'), dict(name=S('pre1'), data=Opaque('bytes:pre1'), place='end')]
    items.append(('full-module/variant0+customs', pre, False, timeout_ms))
    items = [i for i in items if not only or i[0] in only]
    pc.run_parallel(ctx, report, run_scenario, items)
    report.bounds = {'generated': gen.bounds_text(tier, len(gl)) + ' x {emit, gc+emit}', 'descriptions': 'full module (every entity kind, imported and local) and the all-kinds GC description; all eight parse-time spaces incl. locals, all seven emit-time spaces'}
    report.assumptions = ['extension code is modelled by two recorders: the on_parse callback and a probe custom section', 'entities are identified by fingerprints of symbolic attributes / tags / import names']
    report.samples = [o.as_json() for o in report.obligations[:3]]
    return report, ctx
