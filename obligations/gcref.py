"""Reference reachability for the GC pass, written from the property text only (roots and "everything it refers to"),
on the module description; independent of walrus."""
from mirsmt.values import *
from mirsmt import bodycmp

FIELD_KIND = dict(bodycmp.INDEX_FIELDS)
FIELD_KIND.pop('local_index', None)


def op_refs(op):
    """[(kind, index)] referenced by one operator"""
    out = []
    names = op.names or ()
    for n, x in zip(names, op.f):
        k = FIELD_KIND.get(n)
        if k and isinstance(x, BV):
            out.append((k, conc(x)))
        elif isinstance(x, Struct) and x.ty.endswith('MemArg'):
            out.append(('memory', conc(x.get('memory'))))
        elif isinstance(x, Enum) and x.ty.endswith('BlockType') and x.variant == 'FuncType':
            out.append(('type', conc(x.f[0])))
    return out


def cexpr_refs(op):
    if op.variant == 'GlobalGet':
        return [('global', conc(op.f[0]))]
    if op.variant == 'RefFunc':
        return [('func', conc(op.f[0]))]
    return []


def inline_type(sig):
    return sig[0] == () or False


def reachable(spec, declared_roots=True):
    """-> {kind: set(indices)} for kinds func, table, memory, global, type, element, data (index spaces incl. imports)"""
    imp = {'func': [], 'table': [], 'memory': [], 'global': []}
    for i in spec.imports:
        imp[i['kind']].append(i)
    nimp = {k: len(v) for k, v in imp.items()}
    used = {k: set() for k in ('func', 'table', 'memory', 'global', 'type', 'element', 'data')}
    work = []

    def push(kind, i):
        if i not in used[kind]:
            used[kind].add(i)
            work.append((kind, i))
    for e in spec.exports:
        push({'Func': 'func', 'Table': 'table', 'Memory': 'memory', 'Global': 'global'}[e['kind']], conc(e['index']))
    if spec.start is not None:
        push('func', conc(spec.start))
    for k, d in enumerate(spec.data):
        if d['mode'] == 'active':
            push('data', k)
    for k, e in enumerate(spec.elements):
        if e['mode'] == 'declared':
            if declared_roots:          # walrus roots declared segments conservatively; they have no run-time effect
                push('element', k)
        elif e['mode'] == 'active':
            t = 0 if e['table'] is None else conc(e['table'])
            if t < nimp['table']:
                push('element', k)
    types = [(tuple(p), tuple(r)) for p, r in spec.types]
    ref_funcs = []          # functions named by ref.func in live code of reachable bodies
    while True:
      _more = _drain(spec, work, used, push, imp, nimp, types, ref_funcs)
      if not _keep_declarations(spec, used, push, ref_funcs, nimp):
        break
    return used, nimp


def _mentions(e, f):
    if e['items'][0] == 'funcs':
        return any(conc(x) == f for x in e['items'][1])
    return any(c.variant == 'RefFunc' and conc(c.f[0]) == f for c in e['items'][2])


def _keep_declarations(spec, used, push, ref_funcs, nimp):
    """a function named by ref.func in live code must stay declared outside of function bodies (validity): if no export,
    kept element segment or kept global initialiser mentions it, the first element segment - else the first global - that
    does is kept"""
    pushed = False
    for f in ref_funcs:
        declared = any(e['kind'] == 'Func' and conc(e['index']) == f for e in spec.exports) \
            or any(_mentions(spec.elements[k], f) for k in used['element']) \
            or any(g >= nimp['global'] and spec.globals[g - nimp['global']]['init'].variant == 'RefFunc' and conc(spec.globals[g - nimp['global']]['init'].f[0]) == f for g in used['global'])
        if declared:
            continue
        ks = [k for k, e in enumerate(spec.elements) if _mentions(e, f)]
        if ks:
            push('element', ks[0])
            pushed = True
            continue
        gs = [k for k, g in enumerate(spec.globals) if g['init'].variant == 'RefFunc' and conc(g['init'].f[0]) == f]
        if gs:
            push('global', nimp['global'] + gs[0])
            pushed = True
    del ref_funcs[:]
    return pushed


def _drain(spec, work, used, push, imp, nimp, types, ref_funcs):
    while work:
        kind, i = work.pop()
        if kind == 'func':
            if i < nimp['func']:
                used['type'].add(conc(imp['func'][i]['type']) if not isinstance(imp['func'][i]['type'], int) else imp['func'][i]['type'])
                continue
            f = spec.funcs[i - nimp['func']]
            used['type'].add(f['type'])
            for op, live, _d, _o in bodycmp.liveness(f['ops']):
                if not live or op.variant == 'Nop':
                    continue
                if op.variant == 'RefFunc':
                    ref_funcs.append(conc(op.f[0]))
                for k2, j in op_refs(op):
                    if k2 == 'type':
                        # a block type index whose signature has an inline form need not keep the type alive
                        blk = any(isinstance(x, Enum) and x.ty.endswith('BlockType') for x in op.f)
                        sig = types[j]
                        if blk and (sig == ((), ()) or (sig[0] == () and len(sig[1]) == 1)):
                            continue
                        used['type'].add(j)
                    else:
                        push(k2, j)
        elif kind == 'table':
            for k, e in enumerate(spec.elements):
                if e['mode'] == 'active' and (0 if e['table'] is None else conc(e['table'])) == i:
                    push('element', k)
        elif kind == 'memory':
            for k, d in enumerate(spec.data):
                if d['mode'] == 'active' and conc(d['memory']) == i:
                    push('data', k)
        elif kind == 'global':
            if i >= nimp['global']:
                for k2, j in cexpr_refs(spec.globals[i - nimp['global']]['init']):
                    push(k2, j)
        elif kind == 'element':
            e = spec.elements[i]
            if e['items'][0] == 'funcs':
                for f in e['items'][1]:
                    push('func', conc(f))
            else:
                for c in e['items'][2]:
                    for k2, j in cexpr_refs(c):
                        push(k2, j)
            if e['mode'] == 'active':
                push('table', 0 if e['table'] is None else conc(e['table']))
                for k2, j in cexpr_refs(e['offset']):
                    push(k2, j)
        elif kind == 'data':
            d = spec.data[i]
            if d['mode'] == 'active':
                push('memory', conc(d['memory']))
                for k2, j in cexpr_refs(d['offset']):
                    push(k2, j)
    return None

