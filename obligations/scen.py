"""Scenario (module description) builders shared by the whole-pipeline checks."""
import itertools

import z3

from mirsmt.values import *
from mirsmt.pipeline import Spec, S, symstr


def OP(n, **kw):
    return Enum('wasmparser::Operator', n, tuple(kw.values()), tuple(kw.keys()))


def u32(n):
    return bv(n, 'u32')


def ieee32(t):
    return Struct('wasmparser::Ieee32', (t,))


def ieee64(t):
    return Struct('wasmparser::Ieee64', (t,))


def heap(ty):
    return Enum('wasmparser::HeapType', 'Abstract', (z3.BoolVal(False), Enum('wasmparser::AbstractHeapType', {'funcref': 'Func', 'externref': 'Extern'}[ty])), ('shared', 'ty'))


def memarg(name, mem=0, max_align=2):
    return Struct('wasmparser::MemArg', (sym(name + '_align', 'u8'), bv(max_align, 'u8'), sym(name + '_offset', 'u64'), u32(mem)), ('align', 'max_align', 'offset', 'memory'))


def tagged_body(tag, extra=0, more=()):
    """[i32.const <tag>; drop] + padding + more + end ; the symbolic tag identifies the function in the output"""
    ops = [OP('I32Const', value=sym(tag, 'i32')), OP('Drop')]
    for k in range(extra):
        ops += [OP('I32Const', value=bv(k, 'i32')), OP('Drop')]
    ops += list(more)
    ops.append(OP('End'))
    return ops


def mem(name, m64=None, maximum=True, psl=False, shared=None):
    return dict(memory64=z3.Bool(name + '_m64') if m64 is None else z3.BoolVal(m64), shared=z3.Bool(name + '_shared') if shared is None else z3.BoolVal(shared),
                initial=sym(name + '_init', 'u64'), maximum=sym(name + '_max', 'u64') if maximum else None,
                page_size_log2=sym(name + '_psl', 'u32') if psl else None)


def table(name, ety='funcref', t64=None, maximum=True):
    return dict(element_type=ety, table64=z3.Bool(name + '_t64') if t64 is None else z3.BoolVal(t64), initial=sym(name + '_init', 'u64'),
                maximum=sym(name + '_max', 'u64') if maximum else None)


def glob(name, ty='i32', init=None, mutable=None):
    # validator fact: shared globals need the shared-everything-threads proposal, which walrus never enables
    d = dict(ty=ty, mutable=z3.Bool(name + '_mut') if mutable is None else z3.BoolVal(mutable), shared=z3.BoolVal(False))
    if init is not None:
        d['init'] = init
    return d


def full_module(variant=0):
    """one module with an entity of every kind in every mode; `variant` flips the Option/kind choices so that every
    alternative of every Option-valued / enumerated attribute is covered across variants 0..2"""
    v = variant
    sp = Spec()
    sp.types = [([], []), (['i32'], ['i32']), (['i64', 'f32'], ['f64']), (['i32'], ['i32', 'i32'])]
    sp.imports = [
        dict(module=S('env'), name=S('ifunc'), kind='func', type=1),
        dict(module=S('env'), name=S('itable'), kind='table', **table('itab', 'funcref', t64=False, maximum=(v != 2))),
        dict(module=S('env2'), name=S('imem'), kind='memory', **mem('imem', maximum=(v != 1))),
        dict(module=S('env'), name=S('iglobal'), kind='global', **glob('iglob', 'i32' if v != 2 else 'i64', mutable=False)),
        dict(module=S('env'), name=S('ifunc2'), kind='func', type=0),
        dict(module=S('env'), name=S('imut'), kind='global', **glob('imut', 'i64')),          # mutability symbolic
    ]
    if v == 1:
        sp.imports.append(dict(module=S('env'), name=S('iext'), kind='global', **glob('iext', 'externref', mutable=False)))
    sp.funcs = [
        dict(type=0, ops=tagged_body('f0_tag', extra=0)),
        dict(type=1, locals=[(1, 'i64')], ops=tagged_body('f1_tag', extra=2, more=[OP('LocalGet', local_index=u32(0))])),
        dict(type=0, ops=tagged_body('f2_tag', extra=1)),
    ]
    sp.tables = [table('tab0', 'funcref', t64=False, maximum=(v == 0)), table('tab1', 'externref' if v == 2 else 'funcref', maximum=(v != 0))]
    m0_64 = (v == 2)
    sp.memories = [mem('mem0', m64=m0_64, maximum=(v != 0), psl=False, shared=False), mem('mem1', maximum=(v == 0))]
    off_ty = 'i64' if m0_64 else 'i32'
    sp.globals = [
        glob('g0', 'i32', OP('I32Const', value=sym('g0_init', 'i32'))),
        glob('g1', 'i64', OP('I64Const', value=sym('g1_init', 'i64'))),
        glob('g2', 'i32' if v != 2 else 'i64', OP('GlobalGet', global_index=u32(0))),
        glob('g3', 'f32', OP('F32Const', value=ieee32(sym('g3_bits', 'u32')))),
        glob('g4', 'funcref', OP('RefFunc', function_index=u32(3)) if v != 1 else OP('RefNull', hty=heap('funcref'))),
        glob('g5', 'v128', OP('V128Const', value=Struct('wasmparser::V128', (VecVal([sym('g5_b%d' % i, 'u8') for i in range(16)], 'array'),)))),
        glob('g6', 'f64', OP('F64Const', value=ieee64(sym('g6_bits', 'u64')))),
    ]
    sp.exports = [
        dict(name=S('ef'), kind='Func', index=u32(3)), dict(name=S('ef_imp'), kind='Func', index=u32(0)), dict(name=S('et'), kind='Table', index=u32(1)),
        dict(name=S('em'), kind='Memory', index=u32(2)), dict(name=S('eg'), kind='Global', index=u32(2)), dict(name=S('eg_imp'), kind='Global', index=u32(0)),
        dict(name=S('ef2'), kind='Func', index=u32(4)),
    ]
    sp.start = u32(2) if v != 1 else None
    sp.elements = [
        dict(mode='active', table=None, offset=OP('I32Const', value=sym('e0_off', 'i32')), items=('funcs', [u32(2), u32(0), u32(4)])),
        dict(mode='active', table=u32(1), offset=OP('I32Const', value=sym('e1_off', 'i32')) if v != 2 else OP('GlobalGet', global_index=u32(1 + 0)),
             items=('funcs', [u32(3)])),
        dict(mode='passive', items=('funcs', [u32(4), u32(1)])),
        dict(mode='declared', items=('funcs', [u32(3)])),
        dict(mode='passive', items=('exprs', 'funcref', [OP('RefFunc', function_index=u32(2)), OP('RefNull', hty=heap('funcref'))])),
    ]
    if v == 2:
        sp.elements[1]['offset'] = OP('I32Const', value=sym('e1_off', 'i32'))
    if v == 1:
        sp.elements.append(dict(mode='passive', items=('exprs', 'externref', [OP('RefNull', hty=heap('externref')), OP('GlobalGet', global_index=u32(2))])))
        sp.elements.append(dict(mode='declared', items=('exprs', 'funcref', [OP('RefFunc', function_index=u32(4))])))
    sp.data = [
        dict(mode='active', memory=u32(1), offset=OP(off_ty.upper() + 'Const' if False else ('I64Const' if m0_64 else 'I32Const'), value=sym('d0_off', off_ty)), data=Opaque('bytes:d0')),
        dict(mode='passive', data=Opaque('bytes:d1')),
        dict(mode='active', memory=u32(1), offset=OP('GlobalGet', global_index=u32(0)) if v == 0 else OP('I64Const' if m0_64 else 'I32Const', value=sym('d2_off', off_ty)), data=Opaque('bytes:d2')),
    ]
    if v == 0:
        # the global.get offset names the imported i32 global; memory 1 (= local mem0) is 32-bit in this variant
        pass
    sp.data_count = u32(len(sp.data)) if v != 2 else None
    sp.func_tags = ['f0_tag', 'f1_tag', 'f2_tag']
    return sp
