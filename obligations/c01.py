"""C01 - the parse->emit round trip preserves behaviour, claimed as bounded structural translation validation:
for every control skeleton within the bound the emitted body is the input body up to renumbering, nop removal,
removal of syntactically dead code, the empty `else` of an else-less `if`, and re-grouping of locals.

The REAL Module::parse (LocalFunction::parse, append_instruction, ValidationContext::*) and emit_wasm
(used_local_functions, emit_locals, emit::run, dfs_in_order, Emit::*) run symbolically on modules whose functions are
the enumerated skeletons; constants are symbolic tags."""
import itertools
import os
import random

import z3

from mirsmt import common, engine, modcmp, bodycmp, witness, pipeline
from mirsmt.pipeline import S, Spec
from mirsmt.values import *
from obligations import scen, pipecommon as pc
from obligations.scen import OP, u32

BT_EMPTY = Enum('wasmparser::BlockType', 'Empty')


def BT_TYPE(vt):
    return Enum('wasmparser::BlockType', 'Type', (pipeline.wp_valtype(vt),))


def BT_FUNC(i):
    return Enum('wasmparser::BlockType', 'FuncType', (u32(i),))


def brtable(targets, default):
    return Struct('BrTable', (tuple(u32(t) for t in targets), u32(default)))


# ---- statement grammar (all blocks stack-neutral unless a typed variant is chosen)
def gen_stmts(budget, depth, maxdepth):
    """yields lists of statements with total cost <= budget; a statement is a tuple"""
    yield []
    if budget <= 0:
        return
    for first, cost in gen_stmt(budget, depth, maxdepth):
        for rest in gen_stmts(budget - cost, depth, maxdepth):
            yield [first] + rest


def gen_stmt(budget, depth, maxdepth):
    yield ('op',), 1
    yield ('nop',), 1
    yield ('return',), 1
    yield ('unreachable',), 1
    for d in range(depth + 1):
        yield ('br', d), 1
        yield ('br_if', d), 1
    if depth >= 1:
        for d in range(depth + 1):
            yield ('br_table', ((d + 1) % (depth + 1), d), (d + 1) % (depth + 1)), 1
    if depth < maxdepth and budget >= 1:
        for kind in ('block', 'loop'):
            for inner in gen_stmts(budget - 1, depth + 1, maxdepth):
                yield (kind, inner), 1 + cost_of(inner)
        for a in gen_stmts(budget - 1, depth + 1, maxdepth):
            yield ('if', a, None), 1 + cost_of(a)
            for b in gen_stmts(budget - 1 - cost_of(a), depth + 1, maxdepth):
                yield ('if', a, b), 1 + cost_of(a) + cost_of(b)


def cost_of(stmts):
    c = 0
    for s in stmts:
        c += 1
        if s[0] in ('block', 'loop'):
            c += cost_of(s[1])
        elif s[0] == 'if':
            c += cost_of(s[1]) + (cost_of(s[2]) if s[2] is not None else 0)
    return c


class Lower:
    def __init__(self, tagbase):
        self.n = 0
        self.tagbase = tagbase

    def fresh(self):
        self.n += 1
        return sym('%s_c%d' % (self.tagbase, self.n), 'i32')

    def lower(self, stmts, bt=BT_EMPTY):
        ops = []
        for s in stmts:
            k = s[0]
            if k == 'op':
                ops += [OP('I32Const', value=self.fresh()), OP('Drop')]
            elif k == 'nop':
                ops.append(OP('Nop'))
            elif k == 'return':
                ops.append(OP('Return'))
            elif k == 'unreachable':
                ops.append(OP('Unreachable'))
            elif k == 'br':
                ops.append(OP('Br', relative_depth=u32(s[1])))
            elif k == 'br_if':
                ops += [OP('I32Const', value=self.fresh()), OP('BrIf', relative_depth=u32(s[1]))]
            elif k == 'br_table':
                ops += [OP('I32Const', value=self.fresh()), OP('BrTable', targets=brtable(s[1], s[2]))]
            elif k in ('block', 'loop'):
                ops.append(OP('Block' if k == 'block' else 'Loop', blockty=BT_EMPTY))
                ops += self.lower(s[1])
                ops.append(OP('End'))
            elif k == 'if':
                ops += [OP('I32Const', value=self.fresh()), OP('If', blockty=BT_EMPTY)]
                ops += self.lower(s[1])
                if s[2] is not None:
                    ops.append(OP('Else'))
                    ops += self.lower(s[2])
                ops.append(OP('End'))
            elif k == 'raw':
                ops += s[1](self)
        return ops


def typed_skeletons():
    """hand-picked typed shapes: result blocks, multi-value (type-index) blocks incl. EMPTY multi-value sequences,
    inline-able type indices, branches carrying values, locals"""
    out = []

    def T(name, f):
        out.append((name, f))
    T('block-result', lambda L: [OP('Block', blockty=BT_TYPE('i32')), OP('I32Const', value=L.fresh()), OP('End'), OP('Drop')])
    T('loop-result-br', lambda L: [OP('Block', blockty=BT_TYPE('i64')), OP('I64Const', value=sym(L.tagbase + '_k', 'i64')), OP('Br', relative_depth=u32(0)), OP('End'), OP('Drop')])
    T('if-result-else', lambda L: [OP('I32Const', value=L.fresh()), OP('If', blockty=BT_TYPE('f32')), OP('F32Const', value=scen.ieee32(sym(L.tagbase + '_f', 'u32'))), OP('Else'),
                                   OP('F32Const', value=scen.ieee32(sym(L.tagbase + '_g', 'u32'))), OP('End'), OP('Drop')])
    T('mv-block-params', lambda L: [OP('I32Const', value=L.fresh()), OP('I32Const', value=L.fresh()), OP('Block', blockty=BT_FUNC(3)), OP('End'), OP('Drop'), OP('Drop')])
    T('mv-loop-empty', lambda L: [OP('I32Const', value=L.fresh()), OP('I32Const', value=L.fresh()), OP('Loop', blockty=BT_FUNC(3)), OP('End'), OP('Drop'), OP('Drop')])
    T('mv-if-no-else', lambda L: [OP('I32Const', value=L.fresh()), OP('I32Const', value=L.fresh()), OP('I32Const', value=L.fresh()), OP('If', blockty=BT_FUNC(3)), OP('End'), OP('Drop'), OP('Drop')])
    T('mv-if-else-body', lambda L: [OP('I32Const', value=L.fresh()), OP('I32Const', value=L.fresh()), OP('I32Const', value=L.fresh()), OP('If', blockty=BT_FUNC(3)), OP('Drop'), OP('I32Const', value=L.fresh()),
                                    OP('Else'), OP('End'), OP('Drop'), OP('Drop')])
    T('functype-inline-empty', lambda L: [OP('Block', blockty=BT_FUNC(0)), OP('I32Const', value=L.fresh()), OP('Drop'), OP('End')])
    T('functype-inline-result', lambda L: [OP('Block', blockty=BT_FUNC(4)), OP('I32Const', value=L.fresh()), OP('End'), OP('Drop')])
    T('nested-mv-br', lambda L: [OP('I32Const', value=L.fresh()), OP('I32Const', value=L.fresh()), OP('Block', blockty=BT_FUNC(3)), OP('Block', blockty=BT_FUNC(3)), OP('Br', relative_depth=u32(1)), OP('End'), OP('End'),
                                 OP('Drop'), OP('Drop')])
    T('dead-block-after-br', lambda L: [OP('Block', blockty=BT_EMPTY), OP('Br', relative_depth=u32(0)), OP('Block', blockty=BT_EMPTY), OP('I32Const', value=L.fresh()), OP('Drop'), OP('End'), OP('End'),
                                        OP('I32Const', value=L.fresh()), OP('Drop')])
    T('dead-if-else-after-return', lambda L: [OP('Return'), OP('I32Const', value=L.fresh()), OP('If', blockty=BT_EMPTY), OP('Nop'), OP('Else'), OP('Unreachable'), OP('End'), OP('I32Const', value=L.fresh()), OP('Drop')])
    T('return-call-then-code', lambda L: [OP('ReturnCall', function_index=u32(0)), OP('I32Const', value=L.fresh()), OP('Drop')])
    T('if-else-both-arms-diverge-then-code', lambda L: [OP('Block', blockty=BT_EMPTY), OP('I32Const', value=L.fresh()), OP('If', blockty=BT_EMPTY), OP('Br', relative_depth=u32(1)), OP('Else'), OP('Return'), OP('End'),
                                                       OP('I32Const', value=L.fresh()), OP('Drop'), OP('End'), OP('I32Const', value=L.fresh()), OP('Drop')])
    T('if-else-result-both-diverge-consumer', lambda L: [OP('I32Const', value=L.fresh()), OP('If', blockty=BT_TYPE('i32')), OP('I32Const', value=L.fresh()), OP('I32Const', value=L.fresh()), OP('BrIf', relative_depth=u32(0)), OP('Unreachable'), OP('Else'),
                                                         OP('Return'), OP('End'), OP('Drop'), OP('I32Const', value=L.fresh()), OP('Drop')])
    T('dead-empty-block-after-return', lambda L: [OP('I32Const', value=L.fresh()), OP('Drop'), OP('Return'), OP('Nop'), OP('Block', blockty=BT_EMPTY), OP('Nop'), OP('End'), OP('I32Const', value=L.fresh()), OP('Drop')])
    T('dead-empty-block-after-br', lambda L: [OP('Block', blockty=BT_EMPTY), OP('Br', relative_depth=u32(0)), OP('Block', blockty=BT_EMPTY), OP('End'), OP('End'), OP('I32Const', value=L.fresh()), OP('Drop')])
    # block types with parameters and NO results (type 5 = [i32 i64] -> []): must stay type-index block types
    T('mv-block-params-only', lambda L: [OP('I32Const', value=L.fresh()), OP('I64Const', value=sym(L.tagbase + '_q', 'i64')), OP('Block', blockty=BT_FUNC(5)), OP('Drop'), OP('Drop'), OP('End')])
    T('mv-loop-params-only', lambda L: [OP('I32Const', value=L.fresh()), OP('I64Const', value=sym(L.tagbase + '_q', 'i64')), OP('Loop', blockty=BT_FUNC(5)), OP('Drop'), OP('Drop'), OP('End')])
    T('mv-if-params-only', lambda L: [OP('I32Const', value=L.fresh()), OP('I64Const', value=sym(L.tagbase + '_q', 'i64')), OP('I32Const', value=L.fresh()), OP('If', blockty=BT_FUNC(5)), OP('Drop'), OP('Drop'), OP('Else'), OP('Drop'), OP('Drop'), OP('End')])
    T('locals', lambda L: [OP('LocalGet', local_index=u32(2)), OP('Drop'), OP('LocalGet', local_index=u32(0)), OP('LocalSet', local_index=u32(5)), OP('LocalGet', local_index=u32(1)), OP('LocalTee', local_index=u32(1)),
                           OP('Drop'), OP('LocalGet', local_index=u32(4)), OP('Drop')])
    return out


TYPES = [([], []), (['i32'], ['i32']), (['i64', 'f32'], ['f64']), (['i32', 'i32'], ['i32', 'i32']), ([], ['i32']), (['i32', 'i64'], [])]


def build_module(batch):
    """batch: [(name, ops_builder)] -> Spec with one function per skeleton (+ one imported function)"""
    sp = Spec()
    sp.types = [(list(p), list(r)) for p, r in TYPES]
    sp.imports = [dict(module=S('env'), name=S('imp'), kind='func', type=0)]
    sp.funcs = []
    sp.func_tags = []
    sp.skel_names = []
    for k, (name, build) in enumerate(batch):
        L = Lower('f%d' % k)
        tag = 'f%d_tag' % k
        body = [OP('I32Const', value=sym(tag, 'i32')), OP('Drop')] + build(L) + [OP('End')]
        if name.startswith('typed:locals'):
            sp.funcs.append(dict(type=5, locals=[(1, 'i32'), (2, 'f64'), (1, 'i32')], ops=body))
        else:
            sp.funcs.append(dict(type=0, ops=body))
        sp.func_tags.append(tag)
        sp.skel_names.append(name)
    sp.exports = [dict(name=S('e%d' % k), kind='Func', index=u32(1 + k)) for k in range(len(batch))]
    return sp


def check_module(ctx, spec, table, timeout_ms, report_q):
    """returns list of (skeleton name, status, detail, violations)"""
    I, P = pc.new_pipeline(ctx)
    oks, errs, panics = pc.parse_ok_paths(I, P, spec)
    res = []
    vios = []
    names = spec.skel_names
    if panics or errs:
        for s in panics:
            vios.append({'key': 'parse.panic', 'what': 'parse panics on %s: %r' % (names, pc.pipeline_panic_events(s)[:2]), 'spec': spec, 'model': None, 'pc': list(s.pc)})
        for s, e in errs:
            vios.append({'key': 'parse.rejects', 'what': 'parse rejects %s' % (names,), 'spec': spec, 'model': None, 'pc': list(s.pc)})
    IN = modcmp.in_module(spec)
    types = [(tuple(p), tuple(r)) for p, r in spec.types]
    per = {n: [] for n in names}
    npaths = 0
    for s, module in oks:
        for s2, rec, mref in P.run_emit(s, module):
            if rec is PANIC:
                vios.append({'key': 'emit.panic', 'what': 'emit panics on %s: %r' % (names, pc.pipeline_panic_events(s2)[:2]), 'spec': spec, 'model': None, 'pc': list(s2.pc)})
                continue
            npaths += 1
            OUT = modcmp.out_module(rec)
            C, pi = modcmp.compare_structure(spec, IN, OUT, spec.func_tags)
            nimp = 1
            for k, f in enumerate(spec.funcs):
                j = pi['func'].get(nimp + k)
                if j is None:
                    continue
                body = OUT['code'][j - nimp]
                C2 = modcmp.Cmp()
                B = bodycmp.BodyCmp(table, pi, C2)
                B.compare(names[k], f['ops'], body['instrs'], types)
                # locals: parameters keep their positions; every used declared local has a slot of its own type
                nparams = len(types[f['type']][0])
                decl = []
                for cnt, vt in f.get('locals', []):
                    decl += [vt] * cnt
                out_decl = []
                for cnt, vt in body['locals']:
                    out_decl += [vt] * cnt
                for li, lo in B.local_map.items():
                    if li < nparams:
                        if lo != li:
                            C2.bad.append(('body.local', '%s: parameter %d moved to slot %d' % (names[k], li, lo)))
                    else:
                        if lo < nparams or lo - nparams >= len(out_decl):
                            C2.bad.append(('body.local', '%s: local %d mapped to slot %d outside the declared locals %r' % (names[k], li, lo, body['locals'])))
                        elif out_decl[lo - nparams] != decl[li - nparams]:
                            C2.bad.append(('body.local', '%s: local %d of type %s got a slot of type %s' % (names[k], li, decl[li - nparams], out_decl[lo - nparams])))
                vs = [{'key': key, 'what': '[%s] %s' % (names[k], what), 'spec': spec, 'model': None, 'pc': list(s2.pc)} for key, what in C2.bad]
                for key, what, cond in C2.todo:
                    sol = z3.Solver()
                    sol.set('timeout', timeout_ms)
                    sol.add(*s2.pc)
                    sol.add(cond)
                    report_q[0] += 1
                    r = sol.check()
                    if r == z3.unknown:
                        raise Inconclusive('solver timeout')
                    common.cross_check(sol, r)
                    if r == z3.sat:
                        vs.append({'key': key, 'what': '[%s] %s not preserved' % (names[k], what), 'spec': spec, 'model': sol.model()})
                per[names[k]] += vs
            vios += [{'key': key, 'what': '[module %s] %s' % (names[:2], what), 'spec': spec, 'model': None, 'pc': list(s2.pc)} for key, what in C.bad]
    for n in names:
        st = 'violated' if per[n] else ('discharged' if npaths else 'inconclusive')
        res.append((n, st, '%d emit paths' % npaths, per[n]))
    return res, vios


def check_generated(ctx, report, name, spec, table, timeout_ms):
    """body comparison on a drawn description (obligations/gen.py): bodies with call / call_indirect / global / table /
    memory / segment operands, locals, nested blocks, dead code"""
    ob = common.Obligation('O1.3:' + name, 'description %s: every emitted body equals its input body up to nop/dead-code removal, empty else, renumbering of every index operand (recovered from the output), local re-grouping' % name)
    try:
        I, P = pc.new_pipeline(ctx)
        oks, errs, panics = pc.parse_ok_paths(I, P, spec)
        vios = []
        for s in panics:
            vios.append({'key': 'parse.panic', 'what': '[%s] parse panics: %r' % (name, pc.pipeline_panic_events(s)[:2]), 'spec': spec, 'model': None, 'pc': list(s.pc)})
        for s, e in errs:
            vios.append({'key': 'parse.rejects', 'what': '[%s] parse rejects the description' % name, 'spec': spec, 'model': None, 'pc': list(s.pc)})
        IN = modcmp.in_module(spec)
        types = [(tuple(p), tuple(r)) for p, r in spec.types]
        nimp = sum(1 for i in spec.imports if i['kind'] == 'func')
        n = 0
        for s, module in oks:
            for s2, rec, mref in P.run_emit(s, module):
                if rec is PANIC:
                    vios.append({'key': 'emit.panic', 'what': '[%s] emit panics: %r' % (name, pc.pipeline_panic_events(s2)[:2]), 'spec': spec, 'model': None, 'pc': list(s2.pc)})
                    continue
                n += 1
                OUT = modcmp.out_module(rec)
                C, pi = modcmp.compare_structure(spec, IN, OUT, spec.func_tags)
                nimp_out = sum(1 for i in OUT['imports'] if i['kind'] == 'func')
                for k, f in enumerate(spec.funcs):
                    j = pi['func'].get(nimp + k)
                    if j is None or not (0 <= j - nimp_out < len(OUT['code'])):
                        vios.append({'key': 'body.missing', 'what': '[%s] function %d has no image in the output' % (name, k), 'spec': spec, 'model': None, 'pc': list(s2.pc)})
                        continue
                    body = OUT['code'][j - nimp_out]
                    C2 = modcmp.Cmp()
                    B = bodycmp.BodyCmp(table, pi, C2)
                    B.compare(spec.func_tags[k], f['ops'], body['instrs'], types)
                    nparams = len(types[f['type']][0])
                    decl = []
                    for cnt, vt in f.get('locals', []):
                        decl += [vt] * cnt
                    out_decl = []
                    for cnt, vt in body['locals']:
                        out_decl += [vt] * cnt
                    for li, lo in B.local_map.items():
                        if li < nparams:
                            if lo != li:
                                C2.bad.append(('body.local', '%s: parameter %d moved to slot %d' % (spec.func_tags[k], li, lo)))
                        elif lo < nparams or lo - nparams >= len(out_decl):
                            C2.bad.append(('body.local', '%s: local %d mapped to slot %d outside the declared locals %r' % (spec.func_tags[k], li, lo, body['locals'])))
                        elif out_decl[lo - nparams] != decl[li - nparams]:
                            C2.bad.append(('body.local', '%s: local %d of type %s got a slot of type %s' % (spec.func_tags[k], li, decl[li - nparams], out_decl[lo - nparams])))
                    vios += [{'key': key, 'what': '[%s] %s' % (name, what), 'spec': spec, 'model': None, 'pc': list(s2.pc)} for key, what in C2.bad]
                    for key, what, cond in C2.todo:
                        sol = z3.Solver()
                        sol.set('timeout', timeout_ms)
                        sol.add(*s2.pc)
                        sol.add(cond)
                        report.queries += 1
                        r = sol.check()
                        if r == z3.unknown:
                            raise Inconclusive('solver timeout')
                        common.cross_check(sol, r)
                        if r == z3.sat:
                            vios.append({'key': key, 'what': '[%s] %s not preserved' % (name, what), 'spec': spec, 'model': sol.model()})
        ob.detail = '%d emit paths, %d functions' % (n, len(spec.funcs))
        from obligations import c14
        c14.finish(ob, report, vios, n)
    except Inconclusive as ex:
        ob.status, ob.detail = 'inconclusive', str(ex)[:400]
    except modcmp.Mismatch as ex:
        ob.status, ob.detail = 'inconclusive', 'output record not understood: ' + str(ex)[:300]
    report.add(ob)


_G = {}


def _work(i):
    ctx, table, batches, timeout_ms = _G['ctx'], _G['table'], _G['batches'], _G['timeout']
    ctx.interps.clear()

    def go():
        q = [0]
        try:
            res, vios = check_module(ctx, build_module(batches[i]), table, timeout_ms, q)
            return {'res': res, 'vios': vios, 'q': q[0]}
        except Inconclusive as ex:
            return {'res': [(n, 'inconclusive', str(ex)[:300], []) for n, _ in batches[i]], 'vios': [], 'q': q[0]}
        except modcmp.Mismatch as ex:
            return {'res': [(n, 'inconclusive', 'output not understood: ' + str(ex)[:300], []) for n, _ in batches[i]], 'vios': [], 'q': q[0]}
    r = engine.run_in_big_stack(go)
    tot, used, enc = ctx.totals()
    ctx.interps.clear()
    # specs and models do not survive pickling of z3 objects: concretise witnesses here
    for lst in [r['vios']] + [x[3] for x in r['res']]:
        for v in lst:
            try:
                model = v.get('model')
                if model is None and v.get('pc') is not None:
                    s = z3.Solver()
                    s.add(*v['pc'])
                    model = s.model() if s.check() == z3.sat else None
                v['spec_json'] = witness.spec_json(v['spec'], model, table)
            except Exception as ex:      # noqa
                v['spec_json'] = None
                v['witness_error'] = str(ex)[:200]
            for k in ('spec', 'model', 'pc'):
                v.pop(k, None)
    r['_tot'], r['_used'], r['_enc'] = tot, used, enc
    return r


def run(tier, seed, only=None):
    import multiprocessing as mp
    report = common.Report('C01', tier, seed)
    ctx = common.Ctx()
    timeout_ms = 60000 if tier == 'quick' else 600000
    table = witness.load_table()
    budget, maxdepth = 3, 2
    skels = []
    for stmts in gen_stmts(budget, 0, maxdepth):
        if not stmts:
            continue
        skels.append(('skel:' + repr(stmts), (lambda st: (lambda L: L.lower(st)))(stmts)))
    total = len(skels)
    rnd = random.Random(seed)
    big_total = 0
    if tier == 'quick':
        cap = int(os.environ.get('VERIF_C01_CAP', '240'))
        if len(skels) > cap:
            # the enumeration is complete for the bound; the quick tier checks a seed-chosen subset of it and says so
            skels = rnd.sample(skels, cap)
    else:
        # thorough: the WHOLE enumeration at the small bound, plus a seed-chosen sample of the next bound (4 statements, nesting 3)
        big = []
        for stmts in gen_stmts(4, 0, 3):
            if stmts:
                big.append(stmts)
        big_total = len(big)
        for stmts in rnd.sample(big, min(len(big), int(os.environ.get('VERIF_C01_BIG', '1500')))):
            skels.append(('skel4:' + repr(stmts), (lambda st: (lambda L: L.lower(st)))(stmts)))
    typed = [('typed:' + n, f) for n, f in typed_skeletons()]
    if only:
        skels = [x for x in skels if x[0] in only]
        typed = [x for x in typed if x[0] in only]
    items = typed + skels
    per = 8
    batches = [items[i:i + per] for i in range(0, len(items), per)]
    _G.update(ctx=ctx, table=table, batches=batches, timeout=timeout_ms)
    nproc = int(os.environ.get('VERIF_JOBS', '14'))
    with mp.get_context('fork').Pool(nproc) as pool:
        results = pool.map(_work, range(len(batches)), chunksize=1)
    agg = {'steps': 0, 'queries': 0, 'qtime': 0.0, 'forks': 0, 'calls_interpreted': 0, 'calls_modelled': 0}
    used, enc = {}, {}
    for r in results:
        report.queries += r['q']
        for k in agg:
            agg[k] += r['_tot'][k]
        for k, v in r['_used'].items():
            used[k] = used.get(k, 0) + v
        enc.update(r['_enc'])
        for n, st, detail, vs in r['res']:
            ob = common.Obligation('O1.2:' + n[:150], 'skeleton %s: emitted body = input body up to nop/dead-code removal, empty else, renumbering; branch depths, block types, locals preserved' % n[:120])
            ob.status, ob.detail = st, detail
            if vs:
                ob.cex = [v['what'][:200] for v in vs[:3]]
            report.add(ob)
            for v in vs:
                report.violations.append(v)
        for v in r['vios']:
            report.violations.append(v)

    class _S:
        pass
    s = _S()
    s.stats, s.models_used, s.fns_encoded = agg, used, enc
    ctx.interps.append(s)
    # drawn descriptions with reference-carrying bodies
    from obligations import gen
    gl = [(n, sp) for n, sp in gen.generated(tier, seed, n_quick=12) if not only or n in only]
    if gl:
        pc.run_parallel(ctx, report, check_generated, [(n, sp, table, timeout_ms) for n, sp in gl])
    report.bounds = {'generated': gen.bounds_text(tier, len(gl)), 'skeletons': 'statement grammar {op, nop, return, unreachable, br d, br_if d, br_table, block, loop, if, if/else}, <= %d statements, nesting <= %d, all admissible branch depths: %d skeletons in the bound, %d checked in this run (%s; thorough: all of them plus a seed-chosen sample of the %d skeletons with <= 4 statements / nesting <= 3) + %d typed shapes (result/multi-value/type-index block types, empty multi-value sequences, dead blocks, return_call, locals)' % (
        budget, maxdepth, total, len(skels), 'all' if len(skels) >= total else 'subset chosen by VERIF_SEED', big_total, len(typed)),
        'per module': '8 functions + 1 imported function, 6 types; constants are symbolic tags'}
    report.assumptions = ['execution is not performed: behaviour preservation is reduced to structural equality modulo the five rewrites listed in DESIGN.md C01 (trusted wasm-semantics facts)',
                          'the description is valid (validator calls succeed)', 'walrus may keep or drop syntactically dead code']
    report.samples = [o.as_json() for o in report.obligations[:5]]
    return report, ctx
