"""C07 - GC is precise and idempotent (shares its scenarios and reference with C06)."""
from obligations import c06


def run(tier, seed, only=None):
    return c06.run(tier, seed, only=only, pid='C07')
