"""C17 - identifiers are stable, never reused, and deletion is isolated.

All operation histories up to a length bound (add / delete(id) / get(id) / iterate / len, ids ranging over every
identifier issued so far plus a never-issued one) are executed on the REAL collection wrappers (ModuleMemories,
ModuleGlobals, ModuleTables, ModuleData, ModuleExports, ModuleTypes incl. de-duplication and find; through them the real
TombstoneArena and ArenaSet code) with symbolic payloads; every observation is compared with a reference model
(a list of slots with an alive flag).  id_arena::Arena and the hash containers are the modelled parts (contracts)."""
import itertools

import z3

from mirsmt import common, engine, modcmp
from mirsmt.pipeline import S
from mirsmt.values import *
from mirsmt.models import vec_at
from obligations import pipecommon as pc, c14


class Coll:
    """adapter: how to add / observe on one collection"""

    def __init__(self, name, ty, add, payload_of, dedup=False):
        self.name, self.ty, self.add, self.payload_of, self.dedup = name, ty, add, payload_of, dedup


def colls(I):
    def add_mem(I, st, cref, k, cont):
        fn = I.method('add_local', 'ModuleMemories')
        I.run(fn, [cref, z3.BoolVal(False), z3.BoolVal(False), sym('pay%d' % k, 'u64'), none(), none()], st, cont)

    def add_glob(I, st, cref, k, cont):
        fn = I.method('add_local', 'ModuleGlobals')
        I.run(fn, [cref, Enum('ValType', 'I32'), z3.Bool('pay%d' % k), z3.BoolVal(False), Enum('ConstExpr', 'Value', (Enum('Value', 'I32', (sym('gv%d' % k, 'i32'),)),))], st, cont)

    def add_table(I, st, cref, k, cont):
        fn = I.method('add_local', 'ModuleTables')
        I.run(fn, [cref, z3.BoolVal(False), sym('pay%d' % k, 'u64'), none(), Enum('RefType', 'Funcref')], st, cont)

    def add_data(I, st, cref, k, cont):
        fn = I.method('add', 'ModuleData')
        I.run(fn, [cref, Enum('DataKind', 'Passive'), Opaque('bytes:pay%d' % k)], st, cont)

    def add_export(I, st, cref, k, cont):
        fn = I.method('add', 'ModuleExports')
        I.run(fn, [cref, S('name%d' % k), bv(100 + k, 'Id<Function>')], st, cont)

    def add_type(I, st, cref, k, cont, same_as=None):
        fn = I.method('add', 'ModuleTypes', nparams=3)
        j = k if same_as is None else same_as
        ps = I.halloc(st, VecVal([Enum('ValType', ['I32', 'I64', 'F32', 'F64', 'V128'][j % 5])] * (1 + j // 5)))
        rs = I.halloc(st, VecVal([]))
        I.run(fn, [cref, ps, rs], st, cont)
    def add_func(I, st, cref, k, cont):
        fn = I.method('add_import', 'ModuleFunctions')
        I.run(fn, [cref, bv(200 + k, 'Id<Type>'), bv(300 + k, 'Id<Import>')], st, cont)

    def add_elem(I, st, cref, k, cont):
        fn = I.method('add', 'ModuleElements')
        kind = Enum('ElementKind', 'Active', (bv(400 + k, 'Id<Table>'), Enum('ConstExpr', 'Value', (Enum('Value', 'I32', (sym('eo%d' % k, 'i32'),)),))), ('table', 'offset'))
        items = Enum('ElementItems', 'Functions', (I.halloc(st, VecVal([])),))
        I.run(fn, [cref, kind, items], st, cont)

    def pay_func(rec):
        k = rec.get('kind')
        return 'ty%d' % (conc(k.f[0].get('ty')) - 200)

    def pay_elem(rec):
        return 'tab%d' % (conc(rec.get('kind').f[0]) - 400)
    return [
        Coll('ModuleFunctions', 'ModuleFunctions', add_func, pay_func),
        Coll('ModuleElements', 'ModuleElements', add_elem, pay_elem),
        Coll('ModuleMemories', 'ModuleMemories', add_mem, lambda rec: repr(rec.get('initial'))),
        Coll('ModuleGlobals', 'ModuleGlobals', add_glob, lambda rec: repr(rec.get('mutable'))),
        Coll('ModuleTables', 'ModuleTables', add_table, lambda rec: repr(rec.get('initial'))),
        Coll('ModuleData', 'ModuleData', add_data, lambda rec: modcmp.tok(rec.get('value'))),
        Coll('ModuleExports', 'ModuleExports', add_export, lambda rec: modcmp.tok(rec.get('name'))),
        Coll('ModuleTypes', 'ModuleTypes', add_type, lambda rec: repr([x.variant for x in rec.get('params').items]) if isinstance(rec.get('params'), VecVal) else None, dedup=True),
    ]


def expected_payload(c, k, same_as=None):
    if c.name == 'ModuleMemories' or c.name == 'ModuleTables':
        return repr(sym('pay%d' % k, 'u64'))
    if c.name == 'ModuleGlobals':
        return repr(z3.Bool('pay%d' % k))
    if c.name == 'ModuleData':
        return 'bytes:pay%d' % k
    if c.name == 'ModuleExports':
        return 'str:"name%d"' % k
    if c.name == 'ModuleFunctions':
        return 'ty%d' % k
    if c.name == 'ModuleElements':
        return 'tab%d' % k
    j = k if same_as is None else same_as
    return repr([['I32', 'I64', 'F32', 'F64', 'V128'][j % 5]] * (1 + j // 5))


def histories(maxlen, dedup):
    """all op sequences; ops: ('add', same_as or None) ('del', id) ('get', id) ('iter',)"""
    def rec(prefix, nissued, n):
        yield prefix
        if n == 0:
            return
        adds = [('add', None)]
        if dedup:
            adds += [('add', j) for j in range(nissued)]       # add a signature equal to the one first added as #j
        for a in adds:
            yield from rec(prefix + [a], nissued + 1, n - 1)
        for i in range(nissued + 1):                           # +1: an identifier that was never issued
            yield from rec(prefix + [('del', i)], nissued, n - 1)
            yield from rec(prefix + [('get', i)], nissued, n - 1)
        if prefix and prefix[-1][0] not in ('iter', 'iter_mut'):
            yield from rec(prefix + [('iter',)], nissued, n - 1)
            yield from rec(prefix + [('iter_mut',)], nissued, n - 1)
    yield from rec([], 0, maxlen)
    # beyond the exhaustive bound: n additions, then deletions of every subset in every order, then an observation
    # (the shapes in which runs of tombstones precede / follow live items)
    import itertools
    for n in (2, 3, 4):
        for r in range(1, n + 1):
            for dels in itertools.permutations(range(n), r):
                if n == 4 and list(dels) != sorted(dels):
                    continue
                for obs in (('iter',), ('iter_mut',)):
                    h = [('add', None)] * n + [('del', i) for i in dels] + [obs]
                    if len(h) > maxlen:
                        yield h


def run_history(I, ctx, c, hist):
    """execute on the real collection; returns list of problems"""
    st = engine.State()
    dflt = [f for f in I.by_last.get('default', []) if not f.params and I.defs.tykey(f.ret) == c.ty]
    if len(dflt) != 1:
        raise Inconclusive('Default for ' + c.ty)
    out = []
    I.run(dflt[0], [], st, lambda s, v: out.append(v))
    cref = I.halloc(st, out[0])
    idkind = None
    # reference model
    slots = []          # (payload fingerprint, alive, sig key for dedup)
    handle = []         # per `add` event: the id it must denote (index into slots)
    problems = []
    get_fn = I.method('get', c.ty)
    try:
        get_mut_fn = I.method('get_mut', c.ty)
    except Exception:
        get_mut_fn = None
    del_fn = I.method('delete', c.ty)
    iter_fn = I.method('iter', c.ty)
    for step, op in enumerate(hist):
        kind = op[0]
        if kind == 'add':
            k = len(handle)
            res = []
            if c.dedup:
                c.add(I, st, cref, k, lambda s, v: res.append((s, v)), same_as=op[1])
            else:
                c.add(I, st, cref, k, lambda s, v: res.append((s, v)))
            if len(res) != 1 or res[0][1] is PANIC:
                problems.append('step %d add: %d outcomes / panic' % (step, len(res)))
                return problems
            st = res[0][0]
            idv = res[0][1]
            idn = conc(idv)
            idkind = idv.ty
            sig = expected_payload(c, k, op[1]) if c.dedup else None
            want = None
            if c.dedup:
                live_same = [i for i, (p, alive, sg) in enumerate(slots) if alive and sg == sig]
                if live_same:
                    want = live_same[0]
            if want is None:
                want = len(slots)
                slots.append((expected_payload(c, k, op[1] if c.dedup else None), True, sig))
            handle.append(want)
            if idn != want:
                problems.append('step %d add returned id %d, expected %d (ids are never reused; an equal live type returns its id)' % (step, idn, want))
                return problems
        elif kind in ('get', 'del'):
            i = op[1]
            if idkind is None:
                continue
            idv = bv(i, idkind)
            alive = i < len(slots) and slots[i][1]
            for fn_, kind_ in ([(get_fn, 'get')] + ([(get_mut_fn, 'get_mut')] if get_mut_fn is not None else []) if kind == 'get' else [(del_fn, 'del')]):
                problems_before = len(problems)
                res = []
                I.run(fn_, [cref, idv], st.fork(), lambda s, v: res.append((s, v)))
                if len(res) != 1:
                    problems.append('step %d %s(%d): %d outcomes' % (step, kind_, i, len(res)))
                    return problems
                s2, v = res[0]
                if alive:
                    if v is PANIC:
                        problems.append('step %d %s(%d) panics although the item is live' % (step, kind_, i))
                        return problems
                    if kind_ in ('get', 'get_mut'):
                        rec = I.deref(s2, v)
                        rec = Struct(rec.ty, [I.deref(s2, x) if isinstance(x, Ref) else x for x in rec.f], rec.names)
                        fp = c.payload_of(rec)
                        if fp != slots[i][0]:
                            problems.append('step %d %s(%d) returns an item with payload %s, expected %s' % (step, kind_, i, fp, slots[i][0]))
                        rid = rec.get('id')
                        if conc(rid) != i:
                            problems.append('step %d %s(%d) returns the record of id %d' % (step, kind_, i, conc(rid)))
                    else:
                        st = s2
                        slots[i] = (slots[i][0], False, slots[i][2])
                else:
                    if v is not PANIC:
                        problems.append('step %d %s(%d) on a deleted / never issued identifier does not report absence (returned %r)' % (step, kind_, i, v if kind_ == 'del' else 'an item'))
                        return problems
        elif kind in ('iter', 'iter_mut'):
            res = []
            fn_ = iter_fn
            if kind == 'iter_mut':
                cands = [f for f in I.by_last.get('iter_mut', []) if I.fninfo(f)['selfty'] == c.ty]
                if len(cands) != 1:
                    continue            # this collection has no mutable iterator
                fn_ = cands[0]
            I.run(fn_, [cref], st.fork(), lambda s, v: res.append((s, v)))
            s2, it = res[0]
            got = []
            from mirsmt.models import drain, to_iter
            done = []
            drain(I, s2, to_iter(I, s2, it), 0, lambda s3, x, acc, k_: k_(s3, acc + (conc(I.deref(s3, x).get('id')),)), lambda s3, p, acc: done.append(acc))
            want = [i for i, (p, alive, sg) in enumerate(slots) if alive]
            if list(done[0]) != want:
                problems.append('step %d %s yields ids %r, expected the live items in creation order %r' % (step, kind, list(done[0]), want))
    # finally: get(id) for an UNCONSTRAINED symbolic identifier (all 2^32 index values): the solver splits the range;
    # a live index must yield that very item, anything else must be reported absent
    if idkind is not None:
        x = sym('any_id', idkind)
        res = []
        I.run(get_fn, [cref, x], st.fork(), lambda s, v: res.append((s, v)))
        for s2, v in res:
            sol = z3.Solver()
            sol.add(*s2.pc)
            if sol.check() != z3.sat:
                continue
            val = sol.model().eval(x.t, True).as_long()
            # is the path's id unique? (then it denotes a concrete slot)
            sol.add(x.t != val)
            unique = sol.check() == z3.unsat
            alive = unique and val < len(slots) and slots[val][1]
            if v is PANIC:
                if alive:
                    problems.append('get(any id): id %d is live but the lookup panics' % val)
            else:
                rec = I.deref(s2, v)
                if not alive or conc(rec.get('id')) != val:
                    problems.append('get(any id): id %s (unique=%s) resolves to the record of id %d' % (val, unique, conc(rec.get('id'))))
    return problems


def run_coll(ctx, report, cname, maxlen, shard=0, nshards=1):
    c = [x for x in colls(ctx.interp()) if x.name == cname][0]
    ob = common.Obligation('O17:' + c.name + ('' if nshards == 1 else '[shard %d/%d]' % (shard + 1, nshards)), '%s: for every history of length <= %d over add/delete/get+get_mut/iter/iter_mut (ids over all issued identifiers and a never-issued one): fresh ids are never reused, get returns the item the id was created for, deleted or foreign ids are reported absent (panic), iteration yields exactly the live items in creation order%s' % (
        c.name, maxlen, '; adding an equal signature returns the existing live id, re-adding after delete gives a fresh one' if c.dedup else ''))
    try:
        n = 0
        bad = []
        for hi, hist in enumerate(histories(maxlen, c.dedup)):
            if not hist or hi % nshards != shard:
                continue
            I = ctx.interp()
            n += 1
            pr = run_history(I, ctx, c, hist)
            if pr:
                bad.append((hist, pr))
                if len(bad) >= 3:
                    break
        ob.detail = '%d histories' % n
        ob.queries = n
        report.queries += n
        if bad:
            ob.status = 'violated'
            ob.cex = [{'history': repr(h), 'problems': p[:2]} for h, p in bad]
            report.violations.append({'key': 'history.' + c.name, 'what': '%s: history %r: %s' % (c.name, bad[0][0], bad[0][1][0])})
        else:
            ob.status = 'discharged' if n else 'inconclusive'
    except Inconclusive as ex:
        ob.status, ob.detail = 'inconclusive', str(ex)[:400]
    report.add(ob)


def run(tier, seed, only=None):
    report = common.Report('C17', tier, seed)
    ctx = common.Ctx()
    maxlen = 4 if tier == 'quick' else 6

    names = [c.name for c in colls(ctx.interp())]
    ctx.interps.clear()
    nshards = 1 if tier == 'quick' else 8
    items = []
    for n in names:
        if only and n not in only:
            continue
        ml = maxlen if n != 'ModuleTypes' else (4 if tier == 'quick' else 5)
        for sh in range(nshards):
            items.append((n, ml, sh, nshards))
    pc.run_parallel(ctx, report, run_coll, items, nproc=16)
    report.bounds = {'histories': 'all operation sequences of length <= %d (types: incl. choice of adding a signature equal to any earlier one), exhaustively' % maxlen, 'payloads': 'symbolic (memory/table initial size, global mutability) or distinct tokens'}
    report.assumptions = ['id_arena::Arena: ids are consecutive indices of one arena, alloc appends, get/index by position (contract); HashSet/HashMap: association-list semantics with the key type\'s own PartialEq', 'foreign ids of other arenas are represented by a never-issued index of the same arena']
    report.samples = [o.as_json() for o in report.obligations[:3]]
    return report, ctx
