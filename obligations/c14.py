"""C14 - configuration switches do exactly what they document."""
import re
import z3

from mirsmt import common, engine, modcmp, pipeline
from mirsmt.pipeline import S, symstr, Spec
from mirsmt.values import *
from obligations import scen, pipecommon as pc
from obligations.scen import OP, u32


def walrus_version():
    m = re.search(r'^version\s*=\s*"([^"]+)"', open(common.REPO + '/Cargo.toml').read(), re.M)
    return m.group(1)


def base_spec(producers='older-walrus', debug=True):
    sp = Spec()
    sp.types = [([], [])]
    sp.funcs = [dict(type=0, ops=scen.tagged_body('f0_tag'))]
    sp.func_tags = ['f0_tag']
    sp.exports = [dict(name=S('f'), kind='Func', index=u32(0))]
    sp.names = {'module': S('modname'), 'functions': {0: S('n_f0')}}
    if producers == 'older-walrus':
        sp.producers = [(S('language'), [(S('Rust'), S('1.70'))]), (S('processed-by'), [(S('walrus'), S('0.1.0')), (S('other-tool'), S('2'))]), (S('sdk'), [(S('emsdk'), S('3'))])]
    elif producers == 'same-walrus':
        sp.producers = [(S('processed-by'), [(S('other-tool'), S('2')), (S('walrus'), S(walrus_version()))])]
    elif producers == 'foreign-only':
        sp.producers = [(S('language'), [(S('C'), S('11'))])]
    sp.customs = [dict(name=S('keepme'), data=Opaque('bytes:k0'), place='end')]
    if debug:
        sp.customs += [dict(name=S('.debug_info'), data=Opaque('bytes:dbg0'), place='end'), dict(name=S('.debug_line'), data=Opaque('bytes:dbg1'), place='end')]
    return sp


def expected_producers(inp):
    ver = 'str:"%s"' % walrus_version()
    fields = [(modcmp.tok(f), [(modcmp.tok(a), modcmp.tok(b)) for a, b in vals]) for f, vals in (inp or [])]
    for f, vals in fields:
        if f == 'str:"processed-by"':
            for i, (a, b) in enumerate(vals):
                if a == 'str:"walrus"':
                    vals[i] = (a, ver)
                    return fields
            vals.append(('str:"walrus"', ver))
            return fields
    fields.append(('str:"processed-by"', [('str:"walrus"', ver)]))
    return fields


def flag_value(pc_, b):
    """True/False if the path condition forces the flag, else None"""
    s = z3.Solver()
    s.add(*pc_)
    s.push()
    s.add(b)
    can_true = s.check() == z3.sat
    s.pop()
    s.push()
    s.add(z3.Not(b))
    can_false = s.check() == z3.sat
    s.pop()
    if can_true and not can_false:
        return True
    if can_false and not can_true:
        return False
    return None


class _GimliReached(Exception):
    pass


def install_debug_sink(I, ctx=None):
    def m_dbg(I, st, c, args, cont, depth, site):
        # probe: the REAL ModuleDebugData::emit is interpreted on a fork up to its first call into gimli; if it returns
        # before getting there, the DWARF conversion was skipped although it was requested
        if ctx is not None:
            real = ctx.fn(r'^debug::<impl at src/module/debug/mod\.rs:\d+:\d+: \d+:\d+>::emit$')

            def reached(I_, st_, c_, args_, cont_, depth_, site_):
                raise _GimliReached()
            ent = (re.compile(r'gimli::|::borrow::<|EndianSlice'), reached, 'first call into gimli = end of the probed prefix of ModuleDebugData::emit')
            I.models.insert(0, ent)
            returned = []
            try:
                I.run(real, list(args), st.fork(), lambda s_, v_: returned.append(v_))
            except _GimliReached:
                I.models_used[ent[2]] = I.models_used.get(ent[2], 0) + 1 if hasattr(I, 'models_used') else 1
            except Inconclusive:
                returned = ['?']
            finally:
                I.models.remove(ent)
            if returned and returned[0] != '?':
                I.event(st, 'debug.emit.returned-before-gimli')
        I.event(st, 'debug.emit', I.deref(st, args[0]))
        cont(st, unit())
    I.add_model(r'ModuleDebugData as (emit::)?Emit>::emit$', m_dbg, 'ModuleDebugData::emit = recorded (gimli is not encoded)', front=True)


def run_flags(ctx, report, name, spec, timeout_ms):
    ob = common.Obligation('O14.1:' + name, 'name section iff generate_name_section, producers section iff generate_producers_section, debug emission iff generate_dwarf, code transform handed to custom sections iff preserve_code_transform; .debug* sections never leave through the raw custom-section loop; nothing else changes across the 16 flag assignments')
    try:
        I, P = pc.new_pipeline(ctx)
        install_debug_sink(I, ctx)
        st = engine.State()
        f_name, f_prod, f_dwarf, f_pres = z3.Bool('skip_name_section'), z3.Bool('skip_producers_section'), z3.Bool('generate_dwarf'), z3.Bool('preserve_code_transform')
        cfg = P.default_config(st, skip_name_section=f_name, skip_producers_section=f_prod, generate_dwarf=f_dwarf, preserve_code_transform=f_pres)
        oks, errs, panics = pc.parse_ok_paths(I, P, spec, config=cfg, st=st)
        vios = []
        base = None
        combos = set()
        n = 0
        for s, module in oks:
            mref = I.halloc(s, module)
            pipeline.add_probe(P, s, mref)
            for s2, rec, _m in P.run_emit(s, None, mref=mref):
                if rec is PANIC:
                    vios.append({'key': 'emit.panic', 'what': '[%s] emit panics: %r' % (name, pc.pipeline_panic_events(s2)[:2]), 'spec': spec, 'model': None, 'pc': list(s2.pc)})
                    continue
                n += 1
                OUT = modcmp.out_module(rec)
                vals = {k: flag_value(s2.pc, b) for k, b in (('skip_name', f_name), ('skip_prod', f_prod), ('dwarf', f_dwarf), ('preserve', f_pres))}
                combos.add(tuple(sorted(vals.items())))
                cfgj = {'generate_name_section': not vals['skip_name'] if vals['skip_name'] is not None else True,
                        'generate_producers_section': not vals['skip_prod'] if vals['skip_prod'] is not None else True}
                extra = {'spec': spec, 'model': None, 'pc': list(s2.pc), 'config': cfgj, 'native_check': native_sections(cfgj)}
                has_names = OUT['names'] is not None
                has_prod = OUT['producers'] is not None
                if vals['skip_name'] is not None and has_names != (not vals['skip_name']):
                    vios.append(dict(key='flag.name', what='[%s] skip_name_section=%s but name section present=%s' % (name, vals['skip_name'], has_names), **extra))
                if vals['skip_prod'] is not None and has_prod != (not vals['skip_prod']):
                    vios.append(dict(key='flag.producers', what='[%s] skip_producers_section=%s but producers section present=%s' % (name, vals['skip_prod'], has_prod), **extra))
                dbg = [e for e in s2.events if e[0] == 'debug.emit']
                if any(e[0] == 'debug.emit.returned-before-gimli' for e in s2.events):
                    vios.append(dict(key='flag.dwarf.skipped', what='[%s] generate_dwarf is on and the module carries .debug sections, but ModuleDebugData::emit returns before converting anything' % name, **extra))
                if vals['dwarf'] is not None and bool(dbg) != vals['dwarf']:
                    vios.append(dict(key='flag.dwarf', what='[%s] generate_dwarf=%s but debug emission happened %d times' % (name, vals['dwarf'], len(dbg)), **extra))
                ct = [e for e in s2.events if e[0] == 'probe.code_transform']
                if vals['preserve'] is not None and bool(ct) != vals['preserve']:
                    vios.append(dict(key='flag.preserve', what='[%s] preserve_code_transform=%s but apply_code_transform ran %d times' % (name, vals['preserve'], len(ct)), **extra))
                leaked = [c for c in OUT['customs'] if c[0].startswith('str:".debug')]
                if leaked:
                    vios.append(dict(key='dwarf.leak', what='[%s] .debug sections emitted by the raw custom-section loop: %r' % (name, leaked), **extra))
                want_customs = [(modcmp.tok(c['name']), modcmp.tok(c['data'])) for c in spec.customs if not modcmp.tok(c['name']).startswith('str:".debug')] + [('str:"verif-probe"', 'bytes:probe')]
                if OUT['customs'] != want_customs:
                    vios.append(dict(key='customs', what='[%s] custom sections %r, expected %r' % (name, OUT['customs'], want_customs), **extra))
                if has_prod and OUT['producers'] != expected_producers(spec.producers):
                    vios.append(dict(key='producers.content', what='[%s] producers %r, expected %r' % (name, OUT['producers'], expected_producers(spec.producers)), **extra))
                rest = {k: v for k, v in OUT.items() if k not in ('names', 'producers', 'section_order', 'code', 'customs')}
                rest['order'] = [x for x in OUT['section_order'] if x not in ('NameSection', 'ProducersSection')]
                rest['ncode'] = [len(b['instrs']) for b in OUT['code']]
                if base is None:
                    base = rest
                elif repr(rest) != repr(base):
                    diff = [k for k in rest if repr(rest[k]) != repr(base.get(k))]
                    vios.append(dict(key='flag.other', what='[%s] sections other than name/producers differ between flag assignments: %r: %s vs %s' % (name, diff, repr(rest[diff[0]])[:200], repr(base.get(diff[0]))[:200]), **extra))
        ob.detail = '%d emit paths covering %d flag assignments' % (n, len(combos))
        finish(ob, report, vios, n)
    except Inconclusive as ex:
        ob.status, ob.detail = 'inconclusive', str(ex)[:400]
    except modcmp.Mismatch as ex:
        ob.status, ob.detail = 'inconclusive', 'output record not understood: ' + str(ex)[:300]
    report.add(ob)


def finish(ob, report, vios, n):
    if n == 0 and not vios:
        ob.status, ob.detail = 'inconclusive', 'vacuous'
    elif vios:
        ob.status = 'violated'
        seen = set()
        for v in vios:
            if v['key'] not in seen:
                seen.add(v['key'])
                report.violations.append(v)
        ob.cex = [v['what'][:300] for v in vios[:4]]
    else:
        ob.status = 'discharged'


def native_sections(cfgj):
    def check(r):
        secs = r['emits'][0]['dump']['sections']
        info = {'sections': secs, 'config': cfgj}
        bad = (('custom:name' in secs) != cfgj['generate_name_section']) or (('custom:producers' in secs) != cfgj['generate_producers_section'])
        # producers content: walrus exactly once
        for c in r['emits'][0]['dump']['custom_sections']:
            if c['name'] == 'producers':
                data = bytes.fromhex(c['data'])
                info['walrus_count'] = data.count(b'walrus')
                bad = bad or data.count(b'walrus') != 1
        return bad, info
    return check


def run_producers(ctx, report, kind, timeout_ms):
    spec = base_spec(kind, debug=False)
    ob = common.Obligation('O14.3:' + kind, 'producers: input fields preserved in order, walrus recorded as processing tool exactly once (replaced in place when already listed) [%s]' % kind)
    try:
        I, P = pc.new_pipeline(ctx)
        oks, errs, panics = pc.parse_ok_paths(I, P, spec)
        vios = []
        n = 0
        for s, module in oks:
            for s2, rec, _m in P.run_emit(s, module):
                if rec is PANIC:
                    continue
                n += 1
                OUT = modcmp.out_module(rec)
                exp = expected_producers(spec.producers)
                cfgj = {'generate_name_section': True, 'generate_producers_section': True}
                if OUT['producers'] != exp:
                    vios.append({'key': 'producers.content', 'what': '[%s] producers %r, expected %r' % (kind, OUT['producers'], exp), 'spec': spec, 'model': None, 'pc': list(s2.pc), 'native_check': native_sections(cfgj)})
        ob.detail = '%d emit paths' % n
        finish(ob, report, vios, n)
    except Inconclusive as ex:
        ob.status, ob.detail = 'inconclusive', str(ex)[:400]
    report.add(ob)


def run_on_parse(ctx, report, timeout_ms):
    """callback exactly once on success, never on failure: the validator is made to reject at every call position in turn"""
    spec = scen.full_module(0)
    ob = common.Obligation('O14.5', 'on_parse runs exactly once on a successful parse and never when any validator call rejects (fault enumeration over every validator call position of the full-module description); a rejection surfaces as Err, never as a panic')
    try:
        vios = []
        k = -1
        total_calls = None
        checked = 0
        while True:
            I, P = pc.new_pipeline(ctx)
            st = engine.State()
            cfg = P.default_config(st)
            cfg = cfg.with_field(cfg.names.index('on_parse'), some(I.halloc(st, Struct('OnParseRecorder', ()))))
            if k >= 0:
                st.meta['validator_fail_at'] = k
            outs = P.run_parse(spec, config=cfg, st=st)
            for s, v in outs:
                cnt = len([e for e in s.events if e[0] == 'on_parse'])
                rejected = any(e[0] == 'validator-rejects' for e in s.events)
                if v is PANIC:
                    vios.append({'key': 'parse.panic', 'what': 'parse panics when validator call #%d rejects: %r' % (k, pc.pipeline_panic_events(s)[:2]), 'replay': None})
                elif v.variant == 'Ok':
                    if rejected:
                        vios.append({'key': 'gate.ignored', 'what': 'parse returns Ok although validator call #%d (%s) rejected' % (k, [e for e in s.events if e[0] == 'validator-rejects'])})
                    if cnt != 1:
                        vios.append({'key': 'on_parse.count', 'what': 'on_parse ran %d times on a successful parse' % cnt})
                    if k < 0:
                        total_calls = s.meta.get('validator_calls', 0)
                else:
                    if cnt != 0:
                        vios.append({'key': 'on_parse.on_error', 'what': 'on_parse ran %d times although parse failed (validator call #%d rejected)' % (cnt, k)})
                    # nothing may be interpreted after the rejection: no parse event follows it
                checked += 1
            k += 1
            if total_calls is None or k >= total_calls:
                break
            if k > 80:
                break
        ob.detail = '%d validator call positions, %d paths' % (total_calls or 0, checked)
        ob.queries = checked
        finish(ob, report, vios, checked)
    except Inconclusive as ex:
        ob.status, ob.detail = 'inconclusive', str(ex)[:400]
    report.add(ob)


def run_setters(ctx, report):
    """each public setter writes exactly the documented field(s)"""
    DOC = {'generate_dwarf': {'generate_dwarf': 'x', 'preserve_code_transform': 'x|old'}, 'generate_name_section': {'skip_name_section': '!x'},
           'generate_synthetic_names_for_anonymous_items': {'generate_synthetic_names_for_anonymous_items': 'x'}, 'strict_validate': {'skip_strict_validate': '!x'},
           'generate_producers_section': {'skip_producers_section': '!x'}, 'only_stable_features': {'only_stable_features': 'x'}, 'preserve_code_transform': {'preserve_code_transform': 'x'}}
    for setter, doc in DOC.items():
        ob = common.Obligation('O14.2:' + setter, 'ModuleConfig::%s(x) writes exactly %r and leaves every other switch unchanged (all old values and x symbolic)' % (setter, doc))
        try:
            I, P = pc.new_pipeline(ctx)
            st = engine.State()
            cfg0 = P.default_config(st)
            bools = [n for n in cfg0.names if isinstance(cfg0.get(n), z3.BoolRef)]
            cfg = cfg0
            for n in bools:
                cfg = cfg.with_field(cfg.names.index(n), z3.Bool('old_' + n))
            ref = I.halloc(st, cfg)
            x = z3.Bool('x')
            fn = ctx.fn(r'config::<impl at [^>]*>::%s$' % setter)
            outs = []
            I.run(fn, [ref, x], st, lambda s, v: outs.append((s, v)))
            bad = []
            nq = 0
            for s, v in outs:
                new = I.read_ref(s, ref)
                for n in bools:
                    old = z3.Bool('old_' + n)
                    want = old
                    if n in doc:
                        want = {'x': x, '!x': z3.Not(x), 'x|old': z3.Or(x, old)}[doc[n]]
                    sol = z3.Solver()
                    sol.add(*s.pc)
                    sol.add(new.get(n) != want)
                    nq += 1
                    if sol.check() == z3.sat:
                        bad.append('%s: field %s becomes %s, documented %s (model %s)' % (setter, n, z3.simplify(new.get(n)), want, sol.model()))
            report.queries += nq
            if bad:
                ob.status = 'violated'
                ob.cex = bad[:3]
                report.violations.append({'key': 'setter.' + setter, 'what': bad[0]})
            else:
                ob.status = 'discharged' if outs else 'inconclusive'
                ob.detail = '%d paths, %d field queries' % (len(outs), nq)
        except Inconclusive as ex:
            ob.status, ob.detail = 'inconclusive', str(ex)[:300]
        report.add(ob)


def run(tier, seed, only=None):
    report = common.Report('C14', tier, seed)
    ctx = common.Ctx()
    timeout_ms = 60000 if tier == 'quick' else 600000

    from obligations import gen
    gl = gen.generated(tier, seed, n_quick=3, n_thorough=18)

    def decorate(sp, k):
        gen.with_names(sp, k)
        shapes = ['older-walrus', 'same-walrus', 'foreign-only', 'none']
        sp.producers = base_spec(shapes[k % 4]).producers
        sp.customs = [dict(name=S('keepme'), data=Opaque('bytes:k0'), place='end'), dict(name=S('.debug_info'), data=Opaque('bytes:dbg0'), place='end'), dict(name=S('.debug_line'), data=Opaque('bytes:dbg1'), place='end')]
        return sp

    def job(ctx, report, kind, name, sp):
        if kind == 'flags':
            run_flags(ctx, report, name, sp, timeout_ms)
        elif kind == 'producers':
            run_producers(ctx, report, name, timeout_ms)
        elif kind == 'on_parse':
            run_on_parse(ctx, report, timeout_ms)
        else:
            run_setters(ctx, report)
    def no_code_spec():
        sp = Spec()
        sp.types = [([], [])]
        sp.imports = [dict(module=S('e'), name=S('f'), kind='func', type=0)]
        sp.memories = [scen.mem('m', m64=False, shared=False)]
        sp.exports = [dict(name=S('f'), kind='Func', index=u32(0)), dict(name=S('m'), kind='Memory', index=u32(0))]
        sp.func_tags = []
        sp.names = {'module': S('modname'), 'functions': {0: S('n_imp')}}
        sp.producers = base_spec('older-walrus').producers
        sp.customs = [dict(name=S('keepme'), data=Opaque('bytes:k0'), place='end'), dict(name=S('.debug_info'), data=Opaque('bytes:dbg0'), place='end'), dict(name=S('.debug_abbrev'), data=Opaque('bytes:dbg1'), place='end')]
        return sp
    items = [('flags', 'flags', base_spec('older-walrus')), ('flags', 'flags@no-local-functions', no_code_spec())]
    items += [('flags', 'flags@' + n, decorate(sp, k)) for k, (n, sp) in enumerate(gl)]
    items += [('producers', kind, None) for kind in ('older-walrus', 'same-walrus', 'foreign-only', 'none')]
    items += [('on_parse', 'on_parse', None), ('setters', 'setters', None)]
    items = [i for i in items if not only or i[1] in only]
    pc.run_parallel(ctx, report, job, items)
    report.bounds = {'generated': gen.bounds_text(tier, len(gl)) + ', each with a name section, one of four producers shapes, a custom section and two .debug sections (flags obligation)', 'flags': 'the four emit-time switches symbolic (16 assignments, explored as path forks of the real emit_wasm)', 'producers': 'four input shapes: walrus listed with an older version, with the current version, only foreign fields, no section',
                     'on_parse': 'one validator rejection injected at every call position of the full-module description', 'setters': 'all seven boolean setters, old state and argument symbolic'}
    report.assumptions = ['ModuleDebugData::emit is a recorder (gimli not encoded): only the gating and the carriage of the .debug* sections are claimed', 'only_stable_features gating is decided in C05']
    report.samples = [o.as_json() for o in report.obligations[:4]]
    return report, ctx
