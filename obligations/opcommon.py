"""Shared set-up for the per-operator obligations (C03, C05, C20): symbolic operator -> real append_instruction ->
IR instruction -> real Emit::visit_instr -> wasm_encoder::Instruction term."""
import re

import z3

from mirsmt.values import *
from mirsmt import wmodels
from mirsmt.models import new_arena

WALRUS_PROPOSALS = {'mvp', 'sign_extension', 'saturating_float_to_int', 'bulk_memory', 'reference_types', 'simd',
                    'relaxed_simd', 'tail_call', 'threads'}
CONTROL = {'Block', 'Loop', 'If', 'Else', 'End', 'Br', 'BrIf', 'BrTable', 'Return', 'Unreachable', 'Nop'}


def mk_struct(I, tyname, **kw):
    sd = I.defs.struct_of(tyname)
    if sd is None:
        raise Inconclusive('no struct definition for ' + tyname)
    vals = []
    for n in sd.names():
        vals.append(kw[n] if n in kw else Opaque('%s.%s' % (tyname, n)))
    extra = set(kw) - set(sd.names())
    if extra:
        raise Inconclusive('struct %s has no field(s) %s (source changed?)' % (tyname, sorted(extra)))
    return Struct(tyname, vals, sd.names())


def mk_instr_seq(I, idn, instrs=(), ty=None):
    return mk_struct(I, 'InstrSeq', id=bv(idn, 'Id<InstrSeq>'), ty=ty or Enum('InstrSeqType', 'Simple', (none(),)),
                     instrs=VecVal(instrs), end=bv(0xffffffff, 'u32') if False else Struct('InstrLocId', (bv(0xffffffff, 'u32'),)))


def mk_tombstone(I, items):
    return mk_struct(I, 'TombstoneArena', inner=new_arena(items), dead=MapVal((), 'map'))


def mk_local_function(I, st, seqs):
    builder = mk_struct(I, 'FunctionBuilder', arena=mk_tombstone(I, seqs), entry=some(bv(0, 'Id<InstrSeq>')))
    lf = mk_struct(I, 'LocalFunction', builder=builder, args=VecVal(), instruction_mapping=VecVal())
    return I.halloc(st, lf)


def mk_parse_ctx(I, st, unreachable=False, module=None):
    """a ValidationContext with one (function-entry) control frame over an empty entry sequence"""
    func = mk_local_function(I, st, [mk_instr_seq(I, 0)])
    frame = mk_struct(I, 'ControlFrame', start_types=VecVal(), end_types=VecVal(), unreachable=z3.BoolVal(unreachable),
                      block=bv(0, 'Id<InstrSeq>'), kind=Enum('BlockKind', 'FunctionEntry'))
    controls = I.halloc(st, VecVal([frame]))
    ctx = mk_struct(I, 'ValidationContext', module=module if module is not None else I.halloc(st, Opaque('Module')),
                    indices=I.halloc(st, Opaque('IndicesToIds')), func_id=sym('this_func', 'Id<func>'), func=func, controls=controls,
                    if_else=VecVal())
    return I.halloc(st, ctx), func


def entry_instrs(I, st, func_ref, seq=0):
    lf = I.read_ref(st, func_ref)
    arena = lf.get('builder').get('arena').get('inner')
    s = arena.f[0].items[seq]
    return s.get('instrs').items


def mk_emit(I, st, blocks=(), kinds=(), with_map=False):
    m = some(I.halloc(st, VecVal())) if with_map else none()
    e = mk_struct(I, 'Emit', indices=I.halloc(st, Opaque('IdsToIndices')), local_indices=I.halloc(st, Opaque('local_indices')),
                  blocks=VecVal(blocks), block_kinds=VecVal(kinds), encoder=I.halloc(st, Opaque('encoder')), map=m)
    return I.halloc(st, e)


def install_local_indices(I):
    def m_idx(I, st, c, args, cont, depth, site):
        k = I.deref(st, args[1])
        if not isinstance(k, BV):
            raise Inconclusive('local index key %r' % (k,))
        I.event(st, 'lookup_emit', 'local', k)
        cont(st, I.halloc(st, BV(I.ufapp('emit_local', k.t), 'u32')))
    I.add_model(r'^<(std::collections::)?HashMap<id_arena::Id<ir::Local>, u32(, .*)?> as (std::ops::)?Index<&id_arena::Id<ir::Local>>>::index$', m_idx,
                'local_indices[&id] = emit_local(id) [uninterpreted]')


def setup_interp(ctx):
    I = ctx.interp()
    wmodels.install_index_maps(I)
    wmodels.install_encoder_sinks(I)
    install_local_indices(I)
    wmodels.install_wasmparser_accessors(I)
    I.dispatch_hint['V'] = 'Emit'
    return I


def in_feature_ops(defs):
    return [(p, n, fl) for (p, n, fl) in defs.ops if p in WALRUS_PROPOSALS]
