"""C13 - debug names stay attached to the same entities."""
import z3

from mirsmt import common, engine, modcmp, pipeline
from mirsmt.pipeline import S
from mirsmt.values import *
from obligations import scen, pipecommon as pc
from obligations.scen import OP, u32


def named_spec(variant=0):
    sp = scen.full_module(variant)
    # function 3 (= local f1) uses its parameter and both declared locals; function 4 (= f2) declares an unused local
    sp.funcs[1] = dict(type=1, locals=[(1, 'i64'), (1, 'i32')],
                       ops=scen.tagged_body('f1_tag', extra=2, more=[OP('LocalGet', local_index=u32(0)), OP('Drop'), OP('LocalGet', local_index=u32(2)), OP('Drop'),
                                                                     OP('LocalGet', local_index=u32(1)), OP('Drop'), OP('LocalGet', local_index=u32(0))]))
    sp.funcs[2] = dict(type=0, locals=[(1, 'f32')], ops=scen.tagged_body('f2_tag', extra=1))
    sp.names = {
        'module': S('the_module'),
        'functions': {0: S('n_ifunc'), 2: S('n_f0'), 3: S('n_f1'), 4: S('n_f2')},
        'locals': {3: {0: S('n_param'), 1: S('n_l64'), 2: S('n_l32')}, 4: {0: S('n_unused')}},
        'types': {1: S('n_type1'), 2: S('n_type2')},
        'tables': {0: S('n_itab'), 2: S('n_tab1')},
        'memories': {1: S('n_mem0')},
        'globals': {0: S('n_iglob'), 3: S('n_g2')},
        'elements': {1: S('n_elem1'), 3: S('n_elem3')},
        'data': {0: S('n_d0'), 2: S('n_d2')},
    }
    return sp


def local_maps(spec, OUT, pi):
    """per function: input local index -> output local index, read off the matched bodies (position-wise local.get)"""
    nimp = sum(1 for i in spec.imports if i['kind'] == 'func')
    nimp_out = nimp
    maps = {}
    for i, f in enumerate(spec.funcs):
        j = pi['func'].get(nimp + i)
        if j is None:
            continue
        body = OUT['code'][j - nimp_out]
        ins = [o for o in f['ops'] if o.variant != 'Nop']
        outs = body['instrs']
        m = {}
        for a, b in zip(ins, outs):
            if a.variant in ('LocalGet', 'LocalSet', 'LocalTee') and isinstance(b, Enum) and b.variant == a.variant:
                m[conc(a.f[0])] = conc(b.f[0])
        maps[nimp + i] = m
    return maps


def run_scenario(ctx, report, name, spec, timeout_ms):
    ob = common.Obligation('O13:' + name, 'every name of the input name section (module, functions, locals, types, tables, memories, globals, elements, data) is attached to the corresponding renumbered entity in the output name section; no name migrates')
    try:
        I, P = pc.new_pipeline(ctx)
        oks, errs, panics = pc.parse_ok_paths(I, P, spec)
        vios = []
        for s in panics:
            vios.append({'key': 'parse.panic', 'what': '[%s] parse panics: %r' % (name, pc.pipeline_panic_events(s)[:2]), 'scenario': name, 'spec': spec, 'model': None, 'pc': list(s.pc)})
        for s, e in errs:
            vios.append({'key': 'parse.rejects', 'what': '[%s] parse rejects the description' % name, 'scenario': name, 'spec': spec, 'model': None, 'pc': list(s.pc)})
        IN = modcmp.in_module(spec)
        n = 0
        for s, module in oks:
            for s2, rec, mref in P.run_emit(s, module):
                if rec is PANIC:
                    vios.append({'key': 'emit.panic', 'what': '[%s] emit panics: %r' % (name, pc.pipeline_panic_events(s2)[:2]), 'scenario': name, 'spec': spec, 'model': None, 'pc': list(s2.pc)})
                    continue
                n += 1
                OUT = modcmp.out_module(rec)
                C, pi = modcmp.compare_structure(spec, IN, OUT, spec.func_tags)
                got = OUT['names'] or {}
                want = spec.names
                extra = {'scenario': name, 'spec': spec, 'model': None, 'pc': list(s2.pc), 'native_check': native_names}
                wm = modcmp.tok(want['module']) if want.get('module') is not None else None
                if wm != got.get('module'):
                    vios.append(dict(key='names.module', what='[%s] module name %r emitted as %r' % (name, wm, got.get('module')), **extra))
                for sub, kind in (('functions', 'func'), ('types', 'type'), ('tables', 'table'), ('memories', 'memory'), ('globals', 'global'), ('elements', 'element'), ('data', 'data')):
                    exp = {}
                    for i, nm in want.get(sub, {}).items():
                        j = pi[kind].get(i)
                        if j is not None:
                            exp[j] = modcmp.tok(nm)
                    g = got.get(sub, {}) or {}
                    if exp != g:
                        vios.append(dict(key='names.' + sub, what='[%s] %s names: expected %r, emitted %r' % (name, sub, exp, g), **extra))
                lm = local_maps(spec, OUT, pi)
                exp = {}
                for fi, m in want.get('locals', {}).items():
                    fo = pi['func'].get(fi)
                    for li, nm in m.items():
                        lo = lm.get(fi, {}).get(li)
                        if fo is not None and lo is not None:      # names of unused (not emitted) locals may be dropped
                            exp.setdefault(fo, {})[lo] = modcmp.tok(nm)
                g = got.get('locals', {}) or {}
                # compare only on the expected (used) locals: extra names for unused locals are not demanded either way
                bad = {fo: {lo: nm for lo, nm in m.items() if g.get(fo, {}).get(lo) != nm} for fo, m in exp.items()}
                bad = {k: v for k, v in bad.items() if v}
                foreign = {fo: {lo: nm for lo, nm in m.items() if nm not in [x for mm in exp.values() for x in mm.values()] + [modcmp.tok(x) for mm in want['locals'].values() for x in mm.values()]} for fo, m in g.items()}
                if bad:
                    vios.append(dict(key='names.locals', what='[%s] local names missing or migrated: expected %r, emitted %r' % (name, exp, g), **extra))
        ob.detail = '%d emit paths' % n
        if n == 0 and not vios:
            ob.status, ob.detail = 'inconclusive', 'vacuous'
        elif vios:
            ob.status = 'violated'
            seen = set()
            for v in vios:
                if v['key'] not in seen:
                    seen.add(v['key'])
                    report.violations.append(v)
            ob.cex = [v['what'][:300] for v in vios[:3]]
        else:
            ob.status = 'discharged'
    except Inconclusive as ex:
        ob.status, ob.detail = 'inconclusive', str(ex)[:400]
    except modcmp.Mismatch as ex:
        ob.status, ob.detail = 'inconclusive', 'output record not understood: ' + str(ex)[:300]
    report.add(ob)


def native_names(r):
    """native confirmation: every input local/function name must still be present in the output name section"""
    def names_of(d):
        n = d['dump'].get('names') or {}
        out = set()
        for k, v in n.items():
            if isinstance(v, dict):
                for kk, vv in v.items():
                    if isinstance(vv, dict):
                        out.update((k, x) for x in vv.values())
                    else:
                        out.add((k, vv))
            elif isinstance(v, str):
                out.add((k, v))
        return out
    a = names_of(r['input'])
    b = names_of(r['emits'][0])
    lost = sorted(x for x in a - b if x[1] != 'n_unused')
    return bool(lost), {'lost': lost}


def run(tier, seed, only=None):
    report = common.Report('C13', tier, seed)
    ctx = common.Ctx()
    timeout_ms = 60000 if tier == 'quick' else 600000

    from obligations import gen
    gl = gen.generated(tier, seed)
    items = [('named-module/variant%d' % v, named_spec(v), timeout_ms) for v in ((0,) if tier == 'quick' else (0, 1, 2))]
    items += [(n + '+names', gen.with_names(sp, k), timeout_ms) for k, (n, sp) in enumerate(gl)]
    # a name section in which only ONE subsection is present (the emitter's "nothing is named" shortcut must look at all nine)
    for sub in ('module', 'functions', 'locals', 'types', 'tables', 'memories', 'globals', 'elements', 'data'):
        sp1 = named_spec(0)
        sp1.names = {sub: sp1.names[sub]}
        items.append(('only-' + sub, sp1, timeout_ms))
    items = [i for i in items if not only or i[0] in only]
    pc.run_parallel(ctx, report, run_scenario, items)
    report.bounds = {'single subsection': 'nine descriptions whose name section holds exactly one of the nine subsections', 'generated': gen.bounds_text(tier, len(gl)) + ', each with a name section naming a drawn subset (about 60%) of the entities of every index space and of the locals', 'names': 'one description (three in the thorough tier) with a module name and partial name maps for all eight index spaces plus locals (parameter, two used declared locals, one unused local)',
                     'renumbering': 'functions are re-sorted by size, types re-sorted, locals compacted; the expected attachment is derived from the renumbering recovered from the output'}
    report.assumptions = ['names are distinct concrete tokens; the name-section reader yields the described subsections in the order module, functions, locals, types, tables, memories, globals, elements, data',
                          'the name section follows the code section (as in every real module)']
    report.samples = [o.as_json() for o in report.obligations[:3]]
    return report, ctx
