"""C03 - every instruction survives the round trip with exact opcode and immediates.

O3.1  per-operator fidelity: symbolic wasmparser::Operator -> real append_instruction -> ir::Instr -> real
      Emit::visit_instr -> wasm_encoder::Instruction term; the term must be the Instruction that the pinned codecs put
      in correspondence with the operator (codec table computed natively at setup), immediates equal as bit-vectors,
      index operands equal to emit_K(parse_K(i)).
O3.2  memarg kernels in isolation (parse-side shift/cast, emit-side while loop).
"""
import json
import os
import re
import sys
import time

import z3

from mirsmt import common, engine, wmodels
from mirsmt.values import *
from obligations import opcommon as oc

# which index space an operator field denotes (from the WebAssembly spec / wasmparser field names; independent of walrus)
INDEX_FIELDS = {
    'function_index': 'func', 'type_index': 'type', 'table_index': 'table', 'table': 'table', 'dst_table': 'table', 'src_table': 'table',
    'global_index': 'global', 'local_index': 'local', 'data_index': 'data', 'elem_index': 'element', 'mem': 'memory', 'src_mem': 'memory',
    'dst_mem': 'memory', 'memory': 'memory',
}
MAX_ALIGN_LOG2 = 4        # validator fact: alignment <= natural alignment <= 16 bytes


def load_codec_table():
    p = os.path.join(common.BUILD, 'codec_table.json')
    if not os.path.exists(p):
        raise Inconclusive('codec table missing: run setup (vreplay codec-table)')
    t = json.load(open(p))
    byop = {}
    for e in t['entries']:
        if e.get('ok'):
            byop.setdefault(e['operator'], []).append(e)
    return byop


def flatten_op(v, prefix=''):
    """Operator / Instruction term -> {flat field name: leaf value}"""
    out = {}
    if isinstance(v, Enum) or isinstance(v, Struct):
        names = v.names or [str(i) for i in range(len(v.f))]
        for n, x in zip(names, v.f):
            key = prefix + n
            if isinstance(x, Struct) and x.ty.endswith('MemArg'):
                for fn, fx in zip(x.names, x.f):
                    out[key + '.' + fn] = fx
            elif isinstance(x, Struct) and x.ty.endswith(('Ieee32', 'Ieee64')):
                out[key] = x.f[0]
            elif isinstance(x, Struct) and x.ty.endswith('V128'):
                out[key] = x.f[0]
            else:
                out[key] = x
    return out


def choices_for(fty):
    fty = fty.strip()
    if fty == 'ValType':
        return [('i32', Enum('wasmparser::ValType', 'I32')), ('i64', Enum('wasmparser::ValType', 'I64')), ('f32', Enum('wasmparser::ValType', 'F32')),
                ('f64', Enum('wasmparser::ValType', 'F64')), ('v128', Enum('wasmparser::ValType', 'V128')),
                ('funcref', Enum('wasmparser::ValType', 'Ref', (common.native_consts()['wasmparser::RefType::FUNCREF'],))),
                ('externref', Enum('wasmparser::ValType', 'Ref', (common.native_consts()['wasmparser::RefType::EXTERNREF'],)))]
    if fty == 'HeapType':
        return [('funcref', Enum('wasmparser::HeapType', 'Abstract', (z3.BoolVal(False), Enum('wasmparser::AbstractHeapType', 'Func')), ('shared', 'ty'))),
                ('externref', Enum('wasmparser::HeapType', 'Abstract', (z3.BoolVal(False), Enum('wasmparser::AbstractHeapType', 'Extern')), ('shared', 'ty')))]
    return None


def render_type(v):
    """canonical string of a value/heap/ref type term on either side"""
    if isinstance(v, Opaque):
        m = re.search(r'RefType::(\w+)', v.name)
        if m:
            return m.group(1).lower()
        return v.name
    if isinstance(v, Enum):
        if v.variant == 'Ref':
            return render_type(v.f[0])
        if v.variant == 'Abstract':
            return {'Func': 'funcref', 'Extern': 'externref'}.get(v.f[-1].variant, v.f[-1].variant)
        if v.variant in ('Func', 'FUNC'):
            return 'funcref'
        if v.variant in ('Extern', 'EXTERN'):
            return 'externref'
        return v.variant.lower()
    if isinstance(v, Struct) and v.ty == 'wasmparser::RefType':
        return common.reftype_name(v) or repr(v)
    if isinstance(v, Struct) and len(v.f) == 2:          # wasm_encoder::RefType { nullable, heap_type }
        return render_type(v.f[1])
    return repr(v)


def bv_eq_ext(a, b):
    """equality of two bit-vector leaves, zero-extending the narrower (u8 align exponent vs u32, lane wrappers...)"""
    wa, wb = a.t.size(), b.t.size()
    if wa == wb:
        return a.t == b.t
    if wa < wb:
        return z3.ZeroExt(wb - wa, a.t) == b.t
    return a.t == z3.ZeroExt(wa - wb, b.t)


def leaf_bytes(v):
    """[u8;16]-like vector -> list of byte terms; i128/u128 -> little-endian bytes"""
    if isinstance(v, VecVal):
        out = []
        for x in v.items:
            if isinstance(x, Struct) and len(x.f) == 1:
                x = x.f[0]
            out.append(x.t)
        return out
    if isinstance(v, BV) and v.t.size() == 128:
        return [z3.Extract(8 * i + 7, 8 * i, v.t) for i in range(16)]
    raise Inconclusive('byte view of %r' % (v,))


def check_operator(ctx, table, prop, opname, fields, append, visit, timeout_ms):
    """returns dict(status, detail, queries, violations=[...], sample)"""
    res = {'op': opname, 'status': 'discharged', 'violations': [], 'queries': 0, 'paths': 0, 'detail': None}
    # enumerated (non-bit-vector) immediates
    variants = [({}, None)]
    for fname, fty in fields:
        ch = choices_for(fty)
        if ch:
            variants = [(dict(d, **{fname: val}), (lab if l0 is None else l0 + ',' + lab)) for d, l0 in variants for lab, val in ch]
    entries = table.get(opname)
    if not entries:
        res['status'] = 'inconclusive'
        res['detail'] = 'no codec-table entry for operator ' + opname
        return res
    for fixed, label in variants:
        I = oc.setup_interp(ctx)
        st = engine.State()

        def choose(ty, name, fixed=fixed):
            return fixed.get(name)
        op = wmodels.build_operator(I, opname, fields, choose)
        flat_in = flatten_op(op)
        facts = []
        mem64 = z3.Bool('memory_is_64bit')
        for k, v in flat_in.items():
            if k.endswith('.align'):
                facts.append(z3.ULE(v.t, z3.BitVecVal(MAX_ALIGN_LOG2, 8)))
                mx = flat_in.get(k[:-6] + '.max_align')
                if mx is not None:
                    facts.append(z3.ULE(v.t, mx.t))
                    facts.append(z3.ULE(mx.t, z3.BitVecVal(MAX_ALIGN_LOG2, 8)))
        st.pc.extend(facts)
        cref, fref = oc.mk_parse_ctx(I, st)
        outs = []
        I.run(append, [cref, op, Struct('InstrLocId', (bv(7, 'u32'),))], st, lambda s, v: outs.append((s, v)))
        good = 0
        for s, v in outs:
            if v is PANIC:
                # a panic of the parse side under validator facts is C05's subject (O5.3); recorded here as information
                res.setdefault('parse_panics', []).append([e[1] for e in s.events if e[0] == 'PANIC'][:1])
                continue
            ins = oc.entry_instrs(I, s, fref)
            if len(ins) != 1:
                res['violations'].append({'key': 'count:%s' % opname, 'what': '%s: %d IR instructions allocated for one operator' % (opname, len(ins))})
                continue
            instr, loc = ins[0].f[0], ins[0].f[1]
            eref = oc.mk_emit(I, s)
            outs2 = []
            I.run(visit, [eref, I.halloc(s, instr), I.halloc(s, loc)], s, lambda s3, v3: outs2.append((s3, v3)))
            for s3, v3 in outs2:
                if v3 is PANIC:
                    res['violations'].append({'key': 'emit-panic:%s' % opname, 'what': '%s: emit side panics: %r' % (opname, [e[1] for e in s3.events if e[0] == 'PANIC'])})
                    continue
                evs = [e for e in s3.events if e[0] == 'instruction']
                if len(evs) != 1:
                    res['violations'].append({'key': 'emit-count:%s' % opname, 'what': '%s: %d instructions emitted for one IR instruction' % (opname, len(evs))})
                    continue
                good += 1
                res['paths'] += 1
                compare(I, ctx, res, opname, label, entries, flat_in, op, evs[0][1], s3, mem64, timeout_ms)
        if good == 0 and not res['violations']:
            res['status'] = 'inconclusive'
            res['detail'] = 'vacuous: no non-panicking path for %s (%s)' % (opname, label)
            return res
    if res['violations']:
        res['status'] = 'violated'
    return res


def pick_entry(entries, label, out):
    """codec-table entry whose instruction variant/type marker matches this case"""
    cands = entries
    if label:
        lab = [e for e in entries if e['instruction'].endswith('#' + label.split(',')[0])]
        if lab:
            cands = lab
    return cands[0]


def compare(I, ctx, res, opname, label, entries, flat_in, op, out, s3, mem64, timeout_ms):
    entry = pick_entry(entries, label, out)
    want_variant = entry['instruction'].split('#')[0]
    if not isinstance(out, Enum):
        # unit variants may be printed as constants
        m = re.search(r'Instruction(?:::<.*?>)?::(\w+)', repr(out))
        got = m.group(1) if m else repr(out)
        out = Enum('wasm_encoder::Instruction', got)
    got_variant = out.variant
    instr_fields = entry['instr_fields']
    op_fields = entry['op_fields']
    if got_variant != want_variant:
        def fik(marker, opkey):
            hits = [k for k, m in instr_fields.items() if m == marker]
            return hits[0] if hits else None
        model = solve(res, list(s3.pc), timeout_ms)
        wit = witness_from_model(model, want_variant, flat_in, op_fields, instr_fields, fik, label) if model is not None else None
        res['violations'].append({'key': 'variant:%s->%s' % (opname, got_variant),
                                  'what': 'operator %s is emitted as instruction %s (codecs pair it with %s)' % (opname, got_variant, want_variant),
                                  'witness': wit})
        return
    flat_out = flatten_op(out)
    # positional correspondence by marker value
    def find_instr_key(marker, opkey):
        hits = [k for k, m in instr_fields.items() if m == marker]
        if len(hits) == 1:
            return hits[0]
        # same suffix (memarg.offset <-> memarg.offset / 0.offset)
        suf = opkey.split('.')[-1]
        hits2 = [k for k in hits if k.split('.')[-1].startswith(suf[:5])]
        return hits2[0] if len(hits2) == 1 else None
    for okey, marker in op_fields.items():
        if okey.endswith('.max_align'):
            continue
        ikey = find_instr_key(marker, okey)
        vin = flat_in.get(okey)
        if vin is None:
            res['violations'].append({'key': 'table:%s' % opname, 'what': 'codec table field %s not found on operator %s' % (okey, opname)})
            continue
        if ikey is None:
            raise Inconclusive('codec table: no unique Instruction field for %s.%s (marker %s)' % (opname, okey, marker))
        vout = flat_out.get(ikey)
        if vout is None:
            # tuple variants: the table may name the single MemArg field "memarg" where the term has "0"
            alt = re.sub(r'^\w+\.', '0.', ikey) if '.' in ikey else None
            vout = flat_out.get(alt) if alt else None
            if vout is None and len(flat_out) == 1:
                vout = list(flat_out.values())[0]
        if vout is None:
            raise Inconclusive('emitted %s has no field %s (has %s)' % (got_variant, ikey, sorted(flat_out)))
        base = okey.split('.')[-1]
        kind = INDEX_FIELDS.get(base)
        conds = list(s3.pc)
        # ---- the assertion, negated
        if isinstance(vin, (Enum, Opaque)) or isinstance(vout, Opaque) or (isinstance(vout, (Enum, Struct)) and not isinstance(vin, (BV, VecVal))):
            a, b = render_type(vin), render_type(vout)
            res['queries'] += 1
            if a != b:
                res['violations'].append({'key': 'imm:%s.%s' % (opname, okey), 'what': '%s.%s: type immediate %s emitted as %s' % (opname, okey, a, b)})
            continue
        if isinstance(vin, VecVal) or (isinstance(vin, BV) and vin.t.size() == 128) or isinstance(vout, VecVal):
            ib, ob = leaf_bytes(vin), leaf_bytes(vout)
            if len(ib) != len(ob):
                res['violations'].append({'key': 'imm:%s.%s' % (opname, okey), 'what': '%s.%s: %d bytes in, %d bytes out' % (opname, okey, len(ib), len(ob))})
                continue
            neg = z3.Or(*[x != y for x, y in zip(ib, ob)])
        elif kind is not None:
            if not isinstance(vout, BV):
                raise Inconclusive('index operand %s.%s emitted as %r' % (opname, okey, vout))
            expect = I.ufapp('emit_' + kind, I.ufapp('parse_' + kind, vin.t))
            neg = vout.t != expect
        else:
            if isinstance(vout, Struct) and len(vout.f) == 1:
                vout = vout.f[0]
            if not (isinstance(vin, BV) and isinstance(vout, BV)):
                raise Inconclusive('cannot compare %s.%s: %r vs %r' % (opname, okey, vin, vout))
            neg = z3.Not(bv_eq_ext(vin, vout))
        is_offset = okey.endswith('.offset')
        pre = []
        if is_offset:
            # validator fact: offsets >= 2^32 are only accepted for 64-bit memories
            pre = [z3.Or(mem64, z3.ULT(vin.t, z3.BitVecVal(1 << 32, 64)))]
        model = solve(res, conds + pre + [neg], timeout_ms)
        if model is not None:
            # prefer a witness that a small native module can host: index operands small and pairwise distinct
            idx_terms = [v.t for k_, v in flat_in.items() if isinstance(v, BV) and INDEX_FIELDS.get(k_.split('.')[-1]) and v.t.size() == 32]
            nice = [z3.And(z3.ULT(t, z3.BitVecVal(3 if 'mem' in str(t) else 10, 32)), z3.UGE(t, z3.BitVecVal(1, 32))) for t in idx_terms]
            if len(idx_terms) > 1:
                nice.append(z3.Distinct(*idx_terms))
            m2 = solve(res, conds + pre + [neg] + nice, timeout_ms) if nice else None
            if m2 is not None:
                model = m2
            key = 'imm:%s.%s' % (opname, okey)
            wit = witness_from_model(model, want_variant, flat_in, op_fields, instr_fields, find_instr_key, label)
            if is_offset:
                # is the defect confined to the 64-bit-memory region?
                m32 = solve(res, conds + [z3.ULT(vin.t, z3.BitVecVal(1 << 32, 64)), neg], timeout_ms)
                if m32 is None:
                    key = 'memarg.offset>=2^32'
                    wit['memory64'] = True
                else:
                    wit = witness_from_model(m32, want_variant, flat_in, op_fields, instr_fields, find_instr_key, label)
            res['violations'].append({'key': key, 'what': '%s.%s is not preserved: in=%s out=%s' % (opname, okey, model.eval(vin.t if isinstance(vin, BV) else z3.Concat(*reversed(leaf_bytes(vin))), True), model.eval(vout.t if isinstance(vout, BV) else z3.Concat(*reversed(leaf_bytes(vout))), True)),
                                      'witness': wit})
    # nothing invented: every Instruction field must correspond to some operator field
    used = set()
    for okey, marker in op_fields.items():
        k = find_instr_key(marker, okey)
        if k:
            used.add(k)
    extra = [k for k in instr_fields if k not in used]
    if extra:
        raise Inconclusive('codec table: instruction fields %s of %s have no operator counterpart' % (extra, opname))


def solve(res, conds, timeout_ms):
    s = z3.Solver()
    s.set('timeout', timeout_ms)
    s.add(*conds)
    res['queries'] += 1
    t = time.time()
    r = s.check()
    res['solver_s'] = res.get('solver_s', 0.0) + time.time() - t
    if r == z3.unknown:
        raise Inconclusive('solver timeout/unknown')
    b = dict(common.CROSS)
    try:
        common.cross_check(s, r)
    finally:
        cr = res.setdefault('cross', {})
        for k_ in b:
            cr[k_] = cr.get(k_, 0) + common.CROSS[k_] - b[k_]
    if r == z3.sat:
        return s.model()
    return None


def witness_from_model(model, instr_variant, flat_in, op_fields, instr_fields, find_instr_key, label):
    f = {}
    for okey, marker in op_fields.items():
        ik = find_instr_key(marker, okey)
        v = flat_in.get(okey)
        if ik is None or v is None:
            continue
        if isinstance(v, BV):
            val = model.eval(v.t, True).as_long()
            if v.ty in SIGNED and val >= 1 << (v.t.size() - 1):
                val -= 1 << v.t.size()
            f[ik] = str(val)
        elif isinstance(v, VecVal):
            f[ik] = '[' + ', '.join(str(model.eval(x.t if isinstance(x, BV) else x.f[0].t, True).as_long()) for x in v.items) + ']'
        else:
            f[ik] = render_type(v)
    return {'instruction': instr_variant, 'fields': f}


# ------------------------------------------------------------------ O3.2 kernels
def check_memarg_kernels(ctx, report, timeout_ms):
    obs = []
    # emit side: Emit::memarg(&self, id, &ir::MemArg{align = 2^e, offset}) -> wasm_encoder::MemArg{offset, align = e, memory_index = emit_memory(id)}
    ob = common.Obligation('O3.2-emit', 'Emit::memarg: for align = 2^e (e in 0..=31) and every u32 offset the result is {offset: offset, align: e, memory_index: emit_memory(id)} and the loop terminates within 32 iterations')
    try:
        I = oc.setup_interp(ctx)
        memarg = ctx.fn(r'local_function::emit::<impl at [^>]*>::memarg$')
        st = engine.State()
        e = z3.BitVec('e', 32)
        align = z3.BitVec('align', 32)
        off = z3.BitVec('offset', 32)
        mid = sym('mem', 'Id<memory>')
        st.pc += [z3.ULT(e, 32), align == (z3.BitVecVal(1, 32) << e)]
        arg = I.halloc(st, Struct('MemArg', (BV(align, 'u32'), BV(off, 'u32')), ('align', 'offset')))
        eref = oc.mk_emit(I, st)
        outs = []
        I.fuel_limit = 400
        I.run(memarg, [eref, mid, arg], st, lambda s, v: outs.append((s, v)))
        bad = None
        n = 0
        for s, v in outs:
            if v is PANIC:
                bad = 'panic path: %r' % ([x for x in s.events if x[0] == 'PANIC'],)
                break
            n += 1
            neg = z3.Or(v.get('align').t != e, v.get('offset').t != z3.ZeroExt(32, off), v.get('memory_index').t != I.ufapp('emit_memory', mid.t))
            sol = z3.Solver()
            sol.set('timeout', timeout_ms)
            sol.add(*s.pc)
            sol.add(neg)
            report.queries += 1
            r = sol.check()
            if r == z3.unknown:
                raise Inconclusive('solver timeout')
            common.cross_check(sol, r)
            if r == z3.sat:
                bad = 'counterexample %s' % sol.model()
                break
        if bad:
            ob.status = 'violated'
            ob.detail = bad
            report.violations.append({'key': 'kernel:emit-memarg', 'what': 'Emit::memarg: ' + bad, 'replay': 'none'})
        elif n == 0:
            ob.status = 'inconclusive'
            ob.detail = 'vacuous'
        else:
            ob.status = 'discharged'
            ob.detail = '%d paths' % n
    except Inconclusive as ex:
        ob.status = 'inconclusive'
        ob.detail = str(ex)
    report.add(ob)
    return obs


# ------------------------------------------------------------------ driver
def _work(args):
    ctx, table, append, visit, timeout_ms, item = args
    prop, opname, fields = item

    def go():
        try:
            return check_operator(ctx, table, prop, opname, fields, append, visit, timeout_ms)
        except Inconclusive as ex:
            return {'op': opname, 'status': 'inconclusive', 'detail': str(ex)[:300], 'violations': [], 'queries': 0, 'paths': 0}
        except Exception as ex:   # interpreter bug = inconclusive, never a verdict
            import traceback
            return {'op': opname, 'status': 'inconclusive', 'detail': 'internal: %s %s' % (type(ex).__name__, str(ex)[:200]) + traceback.format_exc()[-400:],
                    'violations': [], 'queries': 0, 'paths': 0}
    r = engine.run_in_big_stack(go)
    tot, used, enc = ctx.totals()
    ctx.interps.clear()
    r['_tot'] = tot
    r['_used'] = used
    r['_enc'] = enc
    return r


_G = {}


def _work_idx(i):
    return _work((_G['ctx'], _G['table'], _G['append'], _G['visit'], _G['timeout'], _G['items'][i]))


def run(tier, seed, only=None):
    import os as _os
    _os.environ.setdefault('VERIF_CROSS', '1')        # every obligation-level query of this check is re-decided by cvc5
    import multiprocessing as mp
    import random
    report = common.Report('C03', tier, seed)
    ctx = common.Ctx()
    timeout_ms = 60000 if tier == 'quick' else 600000
    table = load_codec_table()
    append = ctx.fn(r'^append_instruction$')
    visit = ctx.fn(r'local_function::emit::<impl at [^>]*>::visit_instr$')
    items = [(p, n, fl) for (p, n, fl) in oc.in_feature_ops(ctx.defs) if n not in oc.CONTROL]
    if only:
        items = [x for x in items if x[1] in only]
    random.Random(seed).shuffle(items)
    _G.update(ctx=ctx, table=table, append=append, visit=visit, timeout=timeout_ms, items=items)
    nproc = int(os.environ.get('VERIF_JOBS', '14'))
    with mp.get_context('fork').Pool(nproc) as pool:
        results = pool.map(_work_idx, range(len(items)), chunksize=4)
    agg = {'steps': 0, 'queries': 0, 'qtime': 0.0, 'forks': 0, 'calls_interpreted': 0, 'calls_modelled': 0}
    used = {}
    enc = {}
    for r in results:
        ob = common.Obligation('O3.1:' + r['op'], 'operator %s: emitted instruction variant and every immediate equal to the input (all values of all immediates)' % r['op'])
        ob.status = r['status']
        ob.detail = r.get('detail') or ('%d paths, %d queries' % (r.get('paths', 0), r.get('queries', 0)))
        report.queries += r.get('queries', 0)
        report.solver_s += r.get('solver_s', 0.0)
        for k_, v_ in (r.get('cross') or {}).items():
            common.CROSS[k_] += v_
        for k in agg:
            agg[k] += r['_tot'][k]
        for k, v in r['_used'].items():
            used[k] = used.get(k, 0) + v
        enc.update(r['_enc'])
        for v in r['violations']:
            report.violations.append(dict(v, op=r['op']))
        if r['violations']:
            ob.cex = r['violations'][:3]
        report.add(ob)
    # kernels run in the parent (after the pool: z3 is first touched here)
    engine.run_in_big_stack(lambda: check_memarg_kernels(ctx, report, timeout_ms))
    # fold worker statistics into a synthetic interpreter record
    class _S:
        pass
    s = _S()
    s.stats = agg
    s.models_used = used
    s.fns_encoded = enc
    ctx.interps.append(s)
    report.bounds = {'operators': '%d non-control operators of walrus\'s feature set (the control operators are covered by the skeleton obligations of C01)' % len(items),
                     'immediates': 'full bit-width of every immediate (u8/u32/u64/i32/i64, f32/f64 bit patterns, 128-bit vectors, 16 lane bytes)',
                     'memarg.align': 'exponent <= %d (validator fact)' % MAX_ALIGN_LOG2,
                     'memarg loop': 'unwound to completion (<= 32 iterations), unwinding bound checked by the interpreter',
                     'value/heap types': 'enumerated: i32,i64,f32,f64,v128,funcref,externref / func,extern'}
    report.assumptions = [
        'A-idx: the validator has accepted every index operand, so IndicesToIds::get_K succeeds; parse_K / emit_K are uninterpreted functions (their agreement with the binaries is C19)',
        'A-align: memarg.align <= max_align <= 4 (validator checks alignment against the natural alignment)',
        'A-offset: memarg.offset >= 2^32 only for 64-bit memories (validator)',
        'A-log: log::max_level() == Off',
        'codec table: Operator<->Instruction pairing and field correspondence computed by encoding with wasm-encoder 0.214.0 and decoding with wasmparser 0.214.0 (vreplay codec-table)',
        'field -> index-space table taken from the WebAssembly spec (INDEX_FIELDS)',
    ]
    report.samples = [o.as_json() for o in report.obligations[:6]]
    return report, ctx
