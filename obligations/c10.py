"""C10 - DWARF addresses follow their instructions and functions (walrus-owned address arithmetic).

gimli's reader and writer are not encoded.  What is decided: the composition of the REAL address pipeline that every
DWARF address goes through - CodeAddressGenerator::new / find_address (tables built by the real parse),
CodeAddressConverter::find_address (on the CodeTransform produced by the real emit) and the rebasing closure of
ModuleDebugData::emit - for the addresses the property names: the start of every instruction (line rows), the first
byte after the size LEB of every function (low_pc / sequence base) and the end of every function entry (high_pc /
end of sequence), with all output byte lengths symbolic.  Also: LocalFunction::parse's size-LEB-length expression."""
import z3

from mirsmt import common, engine, modcmp, pipeline, bodycmp, witness, lin
from mirsmt.pipeline import S, Spec, leblen, leblen_exact
from mirsmt.values import *
from obligations import scen, pipecommon as pc, c14, c11, c06
from obligations.scen import OP, u32


def leb_len_int(n):
    k = 1
    while n >= 128:
        n >>= 7
        k += 1
    return k


def input_layout(spec, k):
    """(entry_start, body_start, entry_end) of function k relative to the code-section body start, for the description"""
    f = spec.funcs[k]
    cs = conc(spec.code_start)
    start = conc(f['start'])
    pos = 1 + 2 * len(f.get('locals', []))
    end = conc(f['end']) if 'end' in f else start + pos + len(f['ops'])
    size = end - start
    return start - cs - leb_len_int(size), start - cs, end - cs


def run_scenario(ctx, report, name, spec, timeout_ms, gc=False, fuel=None):
    ob = common.Obligation('O10:' + name, 'for every instruction start, every function body start (low_pc) and every entry end (high_pc) of the input, the real address pipeline yields the corresponding address of the output (relative to the output code-section body); addresses of removed functions yield None; all output lengths symbolic' + (' [after gc]' if gc else ''))
    try:
        I, P = pc.new_pipeline(ctx)
        if fuel:
            I.fuel_limit = fuel
        I.add_model(r'^Constant$', lambda I, st, c, args, cont, depth, site: cont(st, Enum('gimli::write::Address', 'Constant', (args[0],))), 'gimli::write::Address::Constant (constructor)', front=True)
        captured = []

        def m_dbg(I, st, c, args, cont, depth, site):
            captured.append((st, args[1]))
            st.meta['dbg_captures'] = st.meta.get('dbg_captures', ()) + ((st.fork(), args[1]),)
            # run the REAL pipeline for the addresses of interest on forks of the current state
            cont(st, unit())
        I.add_model(r'ModuleDebugData as (emit::)?Emit>::emit$', m_dbg, 'ModuleDebugData::emit intercepted: the address pipeline is driven from here, gimli is not encoded', front=True)
        st = engine.State()
        cfg = P.default_config(st, generate_dwarf=z3.BoolVal(True), preserve_code_transform=z3.BoolVal(True))
        oks, errs, panics = pc.parse_ok_paths(I, P, spec, config=cfg, st=st)
        vios = []
        n = 0
        for s, module in oks:
            mref = I.halloc(s, module)
            sts = [s]
            if gc:
                sts = [s1 for s1, v in pipeline.run_gc(P, s, mref) if v is not PANIC]
            for s1 in sts:
                del captured[:]
                for s2, rec, _m in P.run_emit(s1, None, mref=mref):
                    if pc.should_stop(I, vios):
                        break
                    if rec is PANIC:
                        vios.append({'key': 'emit.panic', 'what': 'emit panics: %r' % (pc.pipeline_panic_events(s2)[:2],)})
                        continue
                    caps = s2.meta.get('dbg_captures', ())
                    if len(caps) != 1:
                        raise Inconclusive('debug emission not reached exactly once on this path (%d)' % len(caps))
                    sd, cxref = caps[0]
                    # the interception state precedes the rest of the emission: conjoin what the path learnt afterwards
                    sd = sd.fork()
                    sd.pc = list(s2.pc)
                    OUT = modcmp.out_module(rec)
                    IN = modcmp.in_module(spec)
                    keep = None
                    if gc:
                        keep, _r = c06.keep_sets(spec)
                    C, pi = modcmp.compare_structure(spec, IN, OUT, spec.func_tags, keep=keep)
                    CS, ents = c11.expected_layout(OUT)
                    nimp = sum(1 for i in spec.imports if i['kind'] == 'func')
                    # the real generator / converter / closure
                    sd = sd.fork()
                    cx = I.read_ref(sd, cxref)
                    mod_ref = cx.get('module')
                    mval = I.deref(sd, mod_ref)
                    mod_base = mod_ref
                    while isinstance(I.read_ref(sd, mod_base), Ref):
                        mod_base = I.read_ref(sd, mod_base)
                    funcs_ref = Ref(mod_base.key, mod_base.path + (('field', mval.names.index('funcs')),))
                    gen = []
                    I.run(I.method('new', impl_ty='CodeAddressGenerator'), [funcs_ref], sd, lambda s_, v: gen.append(v))
                    gen_ref = I.halloc(sd, gen[0])
                    ct_ref = Ref(cxref.key, cxref.path + (('field', cx.names.index('code_transform')),))
                    conv_ref = I.halloc(sd, Struct('CodeAddressConverter', (ct_ref,), ('code_transform',)))
                    clo_fn = ctx.fn(r'^debug::<impl at src/module/debug/mod\.rs:\d+:\d+: \d+:\d+>::emit::\{closure#0\}$')
                    cty = clo_fn.params[0][1].lstrip('&').strip()
                    cxrefref = I.halloc(sd, cxref)
                    env = I.halloc(sd, Struct(cty, (gen_ref, conv_ref, cxrefref)))

                    def convert(addr, pref):
                        outs = []
                        I.run(clo_fn, [env, bv(addr, 'u64'), Enum('AddressSearchPreference', pref)], sd.fork(), lambda s_, v: outs.append((s_, v)))
                        return outs

                    def expect(kind, what, addr, pref, want, info):
                        nonlocal n
                        for s_, v in convert(addr, pref):
                            n += 1
                            if v is PANIC:
                                vios.append({'key': 'dwarf.panic', 'what': '[%s] address conversion of %s panics: %r' % (name, what, pc.pipeline_panic_events(s_)[:1])})
                                continue
                            if want is None:
                                if v.variant != 'None':
                                    vios.append({'key': 'dwarf.dead-maps', 'what': '[%s] %s (address %d) belongs to removed code but is mapped to %r' % (name, what, addr, v), 'spec': spec, 'model': None, 'pc': list(s2.pc), 'dwarf_script': {'gc': bool(gc)}})
                                continue
                            if v.variant == 'None':
                                vios.append({'key': 'dwarf.%s.lost' % kind, 'what': '[%s] %s (address %d) is not mapped (tombstoned) although its function is emitted' % (name, what, addr), 'pad': None, 'spec': spec, 'model': None, 'pc': list(s2.pc), 'dwarf_script': {'gc': bool(gc)}})
                                continue
                            got = v.f[0].f[0].t
                            m = c11.equal_terms(report, s_.pc, got, want, timeout_ms)
                            if m is not None:
                                vios.append(dict({'key': 'dwarf.%s' % kind, 'what': '[%s] %s (input address %d) is mapped %s bytes away from where it is in the output (%s)' % (
                                    name, what, addr, m.eval(got - want, True).as_signed_long(), info(m))}, spec=spec, model=None, pc=list(s2.pc), dwarf_script={'gc': bool(gc)}, pad_brtable=getattr(spec, 'pad_brtable', None)))
                    def expect_within(kind, what, addr, pref, lo, hi, info):
                        """the mapped address lies in [lo, hi]: at or after the first byte of the function's own entry and at
                        or before its first emitted instruction (so the range / sequence covers every instruction of the
                        function and nothing of another function)"""
                        nonlocal n
                        for s_, v in convert(addr, pref):
                            n += 1
                            if v is PANIC:
                                vios.append({'key': 'dwarf.panic', 'what': '[%s] address conversion of %s panics: %r' % (name, what, pc.pipeline_panic_events(s_)[:1])})
                                continue
                            if v.variant == 'None':
                                vios.append({'key': 'dwarf.%s.lost' % kind, 'what': '[%s] %s (address %d) is not mapped (tombstoned) although its function is emitted' % (name, what, addr), 'pad': None, 'spec': spec, 'model': None, 'pc': list(s2.pc), 'dwarf_script': {'gc': bool(gc)}})
                                continue
                            got = v.f[0].f[0].t
                            if c11.within_by_intervals(I, got, lo, hi):
                                continue
                            m = c11.find_model(report, s_.pc, z3.ULT(got, lo), timeout_ms) or c11.find_model(report, s_.pc, z3.UGT(got, hi), timeout_ms)
                            if m is not None:
                                vios.append(dict({'key': 'dwarf.%s%s' % (kind, getattr(spec, 'key_suffix', '')), 'what': '[%s] %s (input address %d) is mapped %s bytes past the first instruction of the function in the output (%s)' % (
                                    name, what, addr, m.eval(got - hi, True).as_signed_long(), info(m))}, spec=spec, model=None, pc=list(s2.pc), dwarf_script={'gc': bool(gc)}, pad_brtable=getattr(spec, 'pad_brtable', None)))
                    for k, f in enumerate(spec.funcs):
                        e_start, b_start, e_end = input_layout(spec, k)
                        j = pi['func'].get(nimp + k)
                        alive = j is not None and (keep is None or (nimp + k) in keep['func'])
                        pos = [p - conc(spec.code_start) for p in c11.input_positions(spec, k)]
                        if not alive:
                            for what, a, pref in (('low_pc of removed function %d' % k, b_start, 'InclusiveFunctionEnd'), ('row at first instruction of removed function %d' % k, pos[0], 'InclusiveFunctionEnd')):
                                expect('dead', what, a, pref, None, None)
                            continue
                        j -= sum(1 for i_ in OUT['imports'] if i_['kind'] == 'func')          # imports may have been removed by gc
                        E, lb, L = ents[j]
                        body = OUT['code'][j]
                        old_lb = b_start - e_start
                        info = lambda m, L=L, old_lb=old_lb: 'old size LEB %d byte(s), new entry size %s' % (old_lb, m.eval(L, True))
                        # subprogram / sequence addresses
                        first = E + lb + c11.flen_term(I, body['k'], 0) - CS
                        expect_within('low_pc', 'low_pc of function %d' % k, b_start, 'InclusiveFunctionEnd', E - CS, first, info)
                        expect_within('seq_base', 'line-sequence base of function %d' % k, b_start, 'ExclusiveFunctionEnd', E - CS, first, info)
                        expect('high_pc', 'end of function %d' % k, e_end, 'InclusiveFunctionEnd', E + lb + L - CS, info)
                        # rows: one per live instruction
                        lv = bodycmp.liveness(f['ops'])
                        has_else = set(o for (op, live, d, o) in lv if op.variant == 'Else')
                        oi = 0
                        for i, (op, live, d, opener) in enumerate(lv):
                            if op.variant == 'Nop' or not live:
                                # an instruction that is not emitted (nop / dead code): its row must be dropped, not re-attached
                                expect('dead', 'row at elided instruction #%d (%s) of function %d' % (i, op.variant, k), pos[i], 'InclusiveFunctionEnd', None, None)
                                continue
                            want = E + lb + c11.flen_term(I, body['k'], oi) - CS
                            if op.variant == 'End' and opener is not None and f['ops'][opener].variant == 'If' and opener not in has_else:
                                oi += 2
                            else:
                                oi += 1
                            expect('row', 'row at instruction #%d (%s) of function %d' % (i, op.variant, k), pos[i], 'InclusiveFunctionEnd', want, info)
        ob.detail = '%d address conversions' % n
        c14.finish(ob, report, vios, n)
    except Inconclusive as ex:
        ob.status, ob.detail = 'inconclusive', str(ex)[:400]
    except modcmp.Mismatch as ex:
        ob.status, ob.detail = 'inconclusive', 'output record not understood: ' + str(ex)[:300]
    report.add(ob)


def run_leb_kernel(ctx, report, timeout_ms):
    """LocalFunction::parse: original_range.start = body start - code offset - LEB128 length of the body size, for all sizes"""
    ob = common.Obligation('O10.4', 'LocalFunction::parse: the expression (64 - leading_zeros(size) - 1) / 7 + 1 equals the LEB128 length of the body size for every size >= 1 (64-bit), so original_range starts at the size LEB; size 0 is reported')
    try:
        size = z3.BitVec('size', 64)
        # leading_zeros as in the interpreter's model
        lz = z3.BitVecVal(64, 64)
        for i in range(64):
            lz = z3.If(z3.Extract(i, i, size) == 1, z3.BitVecVal(63 - i, 64), lz)
        # read the arithmetic from the MIR of LocalFunction::parse rather than re-stating it: interpret the prefix of parse
        I, P = pc.new_pipeline(ctx)
        sp = c11.spec_for(1)
        sp.funcs[0]['start'] = sym('fstart', 'usize')
        sp.funcs[0]['end'] = sym('fend', 'usize')
        st = engine.State()
        a, b = sp.funcs[0]['start'].t, sp.funcs[0]['end'].t
        cs = conc(sp.code_start)
        st.pc += [z3.UGT(b, a), z3.UGE(a, z3.BitVecVal(cs + 16, 64)), z3.ULT(b, z3.BitVecVal(1 << 31, 64))]
        sp.funcs[0]['positions'] = [BV(a + 1 + j, 'usize') for j in range(len(sp.funcs[0]['ops']))]
        oks, errs, panics = pc.parse_ok_paths(I, P, sp, st=st)
        bad = []
        small = []
        nq = 0
        for s, module in oks:
            funcs = module.get('funcs').get('arena').get('inner').f[0].items
            lf = funcs[1].get('kind').f[0]
            rng_ = lf.get('original_range').f[0]
            got_start, got_end = rng_.get('start').t, rng_.get('end').t
            sz = b - a
            want_start = a - cs - leblen_exact(sz)
            want_end = b - cs
            for what, g, w in (('start', got_start, want_start), ('end', got_end, want_end)):
                sol = z3.Solver()
                sol.set('timeout', timeout_ms)
                sol.add(*s.pc)
                sol.add(g != w)
                nq += 1
                r = sol.check()
                if r == z3.unknown:
                    raise Inconclusive('solver timeout on the LEB-length kernel')
                if r == z3.sat:
                    # prefer a witness that can be built natively (a body padded with nops to that size)
                    sol.push()
                    sol.add(z3.ULT(sz, z3.BitVecVal(20000, 64)), z3.UGE(sz, z3.BitVecVal(5, 64)))
                    if sol.check() == z3.sat:
                        small.append(sol.model().eval(sz, True).as_long())
                    else:
                        sol.pop()
                        sol.check()
                    m = sol.model()
                    bad.append('original_range.%s is %s, expected %s for body size %s' % (what, m.eval(g, True), m.eval(w, True), m.eval(sz, True)))
        for s in panics:
            # an arithmetic panic for some size is a finding of its own
            sol = z3.Solver()
            sol.add(*s.pc)
            if sol.check() == z3.sat:
                bad.append('LocalFunction::parse panics for body range %s..%s: %r' % (sol.model().eval(a, True), sol.model().eval(b, True), pc.pipeline_panic_events(s)[:1]))
        report.queries += nq
        if bad:
            ob.status = 'violated'
            ob.cex = bad[:3]
            vio = {'key': 'dwarf.original_range', 'what': bad[0]}
            if small:
                # native witness: three functions, the middle one padded with nops to exactly that body size
                # (1 byte locals count + i32.const 0 (2) + drop (1) + n nops + end (1))
                wsp = c11.spec_for(3)
                wsp.funcs[1] = dict(type=0, ops=[OP('I32Const', value=bv(0, 'i32')), OP('Drop')] + [OP('Nop')] * (small[0] - 5) + [OP('End')], start=usize(1400))
                vio.update(spec=wsp, model=None, pc=[], dwarf_script={'gc': False})
            report.violations.append(vio)
        else:
            ob.status = 'discharged' if oks else 'inconclusive'
            ob.detail = '%d paths, %d queries over all 64-bit body sizes >= 1' % (len(oks), nq)
    except Inconclusive as ex:
        ob.status, ob.detail = 'inconclusive', str(ex)[:400]
    report.add(ob)


def run_file_index_kernel(ctx, report):
    """convert_line_program: the row's file lookup `files[(file - 1)]` behind its two guards, as a slice of the real MIR"""
    ob = common.Obligation('O10.5', 'convert_line_program: for every row file index (u64), DWARF version and number of converted files (0..3): the lookup of the row\'s file neither underflows nor indexes out of bounds for an index that the two guards let through (DWARF 5 allows file index 0)')
    try:
        fn = ctx.fn(r'dwarf::<impl at [^>]*>::convert_line_program$')
        start = None
        for bb in fn.blocks:
            stt, tm = __import__('mirsmt.mir', fromlist=['parsed_block']).parsed_block(fn, bb)
            if tm[0] == 'call' and tm[2].endswith('LineRow::file_index'):
                start = bb
        if start is None:
            raise Inconclusive('file_index call not found in convert_line_program')
        files_local = fn.debug.get('files')
        bad = []
        npaths = 0
        for nfiles in range(0, 4):
            I = ctx.interp()
            file_idx = sym('row_file_index', 'u64')
            version = sym('dwarf_version', 'u16')
            I.add_model(r'^gimli::LineRow::file_index$', lambda I, st, c, args, cont, depth, site: cont(st, file_idx), 'gimli::LineRow::file_index = symbolic u64', front=True)
            I.add_model(r'^gimli::write::LineProgram::version$', lambda I, st, c, args, cont, depth, site: cont(st, version), 'gimli::write::LineProgram::version = symbolic (4 or 5)', front=True)
            ends = []
            I.add_model(r'^gimli::(write::LineProgram::row|LineRow::(line|column|discriminator|is_stmt|basic_block|prologue_end|epilogue_begin|isa|op_index))$',
                        lambda I, st, c, args, cont, depth, site: ends.append(st), 'end of the slice', front=True)
            st = engine.State()
            st.pc += [z3.Or(version.t == 4, version.t == 5)]
            files = VecVal([Opaque('FileId#%d' % k) for k in range(nfiles)])
            outs = []
            I.run_from(fn, start, {files_local: files}, st, lambda s, v: outs.append((s, v)))
            for s, v in outs:
                npaths += 1
                if v is PANIC:
                    sol = z3.Solver()
                    sol.add(*s.pc)
                    if sol.check() == z3.sat:
                        m = sol.model()
                        bad.append({'files': nfiles, 'file_index': m.eval(file_idx.t, True).as_long(), 'version': m.eval(version.t, True).as_long(), 'panic': repr(pc.pipeline_panic_events(s)[:1])})
            npaths += len(ends)
        report.queries += npaths
        if bad:
            ob.status = 'violated'
            ob.cex = bad[:3]
            b = bad[0]
            report.violations.append({'key': 'dwarf.row.file-index-0', 'what': 'convert_line_program panics for a row with file index %d under DWARF %d with %d converted files: %s' % (b['file_index'], b['version'], b['files'], b['panic']),
                                      'dwarf_script': {'version': b['version'], 'file0': b['file_index'] == 0}})
        else:
            ob.status = 'discharged' if npaths else 'inconclusive'
            ob.detail = '%d paths' % npaths
    except Inconclusive as ex:
        ob.status, ob.detail = 'inconclusive', str(ex)[:400]
    report.add(ob)


def shrink_spec():
    """a function with a used declared local whose body is > 127 bytes only because of nops: re-emitted smaller, so the
    size LEB of its entry shrinks from two bytes to one (resized function)"""
    sp = c11.spec_for(2)
    body = [OP('I32Const', value=sym('s_tag', 'i32')), OP('Drop'), OP('LocalGet', local_index=u32(0)), OP('Drop')] + [OP('Nop')] * 130 + [OP('I32Const', value=sym('s_k', 'i32')), OP('Drop'), OP('End')]
    sp.funcs[1] = dict(type=0, locals=[(1, 'i32')], ops=body, start=usize(1400))
    sp.func_tags[1] = 's_tag'
    return sp


def shrink2_spec():
    """a function without declared locals whose input entry is > 16383 bytes (three-byte size LEB) only because of a dead
    br_table with 16400 targets after `return`; walrus drops the dead code, so the size LEB shrinks by two bytes.
    The input POSITIONS are those of the 16400-target module; the interpreter is handed a two-target table for the dead
    operator (interpreting the 16400-iteration target loop does not finish in an hour); the native witness is the real
    16400-target module (PAD_BRTABLE)."""
    from obligations.c01 import brtable
    sp = c11.spec_for(2)
    body = [OP('I32Const', value=sym('s_tag', 'i32')), OP('Drop'), OP('Return'), OP('BrTable', targets=brtable([0, 0], 0)), OP('End')]
    base = 1400
    # one declared, never used local (2 bytes of declaration): walrus does not re-declare it
    positions = [usize(base + 3), usize(base + 5), usize(base + 6), usize(base + 7), usize(base + 7 + 16405)]
    sp.funcs[1] = dict(type=0, locals=[(1, 'i32')], ops=body, start=usize(base), positions=positions, end=usize(base + 7 + 16406))
    sp.func_tags[1] = 's_tag'
    sp.pad_brtable = {'func': 1, 'op': 3, 'targets': 16400}
    sp.key_suffix = '[size-leb-shrinks-by-2,unused-declared-local]'
    return sp


def gc_spec():
    sp = c11.spec_for(3)
    # function 2 is not exported any more -> removed by gc
    sp.exports = sp.exports[:2]
    return sp


def run(tier, seed, only=None):
    import os as _os
    _os.environ.setdefault('VERIF_CROSS', '1')        # every obligation-level query of this check is re-decided by cvc5
    report = common.Report('C10', tier, seed)
    ctx = common.Ctx()
    timeout_ms = 120000 if tier == 'quick' else 600000

    def job(ctx, report, kind, name, mk, gc):
        if kind == 'scen':
            run_scenario(ctx, report, name, mk(), timeout_ms, gc=gc, fuel=400000 if 'leb3' in name else None)
        elif kind == 'leb':
            run_leb_kernel(ctx, report, timeout_ms)
        else:
            run_file_index_kernel(ctx, report)
    items = [('scen', 'three-functions', lambda: c11.spec_for(3), False), ('scen', 'three-functions+gc', gc_spec, True), ('scen', 'resized-function', shrink_spec, False),
             ('scen', 'resized-function/leb3-to-1', shrink2_spec, False), ('leb', 'O10.4', None, False), ('file', 'O10.5', None, False)]
    from obligations import gen
    gl = gen.generated(tier, seed, n_quick=4, n_thorough=18, prefer_small=True)
    for name, sp in gl:
        items.append(('scen', name, (lambda sp=sp: sp), False))
        items.append(('scen', name + '+gc', (lambda sp=sp: sp), True))
    items = [i for i in items if not only or i[1] in only]
    pc.run_parallel(ctx, report, job, items)
    report.bounds = {'generated': gen.bounds_text(tier, len(gl)) + ' x {emit, gc+emit}', 'addresses': 'every instruction start, body start and entry end of 3 functions (if/else, else-less if, block, loop, nop); with and without GC removing a function', 'output sizes': 'symbolic (as in C11), so both size-LEB lengths of every resized function are covered',
                     'LEB kernel': 'all 64-bit body sizes >= 1'}
    report.assumptions = ['address convention (LLVM): addresses are relative to the first byte of the code-section body; rows on opcode bytes; high_pc / end of sequence = end of the entry; low_pc / sequence base of the INPUT = first byte after the size LEB, and its image must lie inside the function\'s own output entry at or before its first emitted instruction (the range / sequence covers every instruction of that function and nothing of another one)',
                          'gimli parsing/writing, the row loop of convert_line_program and attribute walking are NOT encoded; native confirmation uses DWARF synthesised with gimli::write (vreplay dwarf)']
    report.samples = [o.as_json() for o in report.obligations[:3]]
    return report, ctx
