"""C12 - unknown custom sections survive untouched (emit, GC+emit, emit twice)."""
import z3

from mirsmt import common, engine, modcmp, pipeline
from mirsmt.pipeline import S, symstr, Spec
from mirsmt.values import *
from obligations import scen, pipecommon as pc


def customs_spec(kind):
    sp = scen.full_module(0) if kind == 'full' else Spec()
    if kind != 'full':
        sp.types = [([], [])]
        sp.funcs = [dict(type=0, ops=scen.tagged_body('f0_tag'))]
        sp.exports = [dict(name=S('f'), kind='Func', index=scen.u32(0))]
        sp.func_tags = ['f0_tag']
    sp.customs = [
        dict(name=symstr('c0_name'), data=Opaque('bytes:c0'), place='start'),
        dict(name=S('hello'), data=Opaque('bytes:c1'), place='before-code'),
        dict(name=symstr('c2_name'), data=Opaque('bytes:c2'), place='end'),
        dict(name=S('hello'), data=Opaque('bytes:c3'), place='end'),          # same name twice is legal
        dict(name=S('debug_not_dot'), data=Opaque('bytes:c4'), place='end'),
    ]
    return sp


def name_preconditions(sp):
    """the quantified names are those walrus does not interpret: not `producers`, not `name`, no `.debug` prefix"""
    pre = []
    for c in sp.customs:
        n = c['name'].name
        if n.startswith('str:sym:'):
            for other in ('str:"producers"', 'str:"name"'):
                pre.append(z3.Not(z3.Bool('eq[%s|%s]' % tuple(sorted((n, other))))))
            pre.append(z3.Not(z3.Bool('starts_with[%s|str:".debug"]' % n)))
    return pre


def check_customs(what, IN_customs, OUT, vios, name, spec, extra=None):
    got = [c for c in OUT['customs']]
    if got != IN_customs:
        vios.append(dict({'key': 'customs.' + what, 'what': '[%s] custom sections after %s: expected %r, emitted %r' % (name, what, IN_customs, got), 'scenario': name, 'spec': spec, 'model': None}, **(extra or {})))


def run_scenario(ctx, report, name, spec, mode, timeout_ms):
    ob = common.Obligation('O12:%s/%s' % (name, mode), 'every uninterpreted custom section (symbolic and concrete names, any placement) is re-emitted once, in order, with the same name and payload token after ' + mode)
    try:
        I, P = pc.new_pipeline(ctx)
        st = engine.State()
        st.pc.extend(name_preconditions(spec))
        oks, errs, panics = pc.parse_ok_paths(I, P, spec, st=st)
        vios = []
        for s in panics:
            vios.append({'key': 'parse.panic', 'what': '[%s] Module::parse panics: %r' % (name, pc.pipeline_panic_events(s)[:2]), 'scenario': name, 'spec': spec, 'model': None, 'pc': list(s.pc)})
        for s, e in errs:
            vios.append({'key': 'parse.rejects', 'what': '[%s] Module::parse rejects the description' % name, 'scenario': name, 'spec': spec, 'model': None, 'pc': list(s.pc)})
        # (.debug* sections are DWARF, not unknown sections: with the default configuration they are dropped)
        want = [(modcmp.tok(c['name']), modcmp.tok(c['data'])) for c in spec.customs if not modcmp.tok(c['name']).startswith('str:".debug')]
        n = 0
        for s, module in oks:
            mref = I.halloc(s, module)
            states = [(s, None)]
            if mode == 'gc+emit':
                states = [(s2, None) for s2, v in pipeline.run_gc(P, s, mref) if v is not PANIC]
            for s1, _ in states:
                for s2, rec, _m in P.run_emit(s1, None, mref=mref):
                    if rec is PANIC:
                        vios.append({'key': 'emit.panic', 'what': '[%s] emit panics: %r' % (name, pc.pipeline_panic_events(s2)[:2]), 'scenario': name, 'spec': spec, 'model': None, 'pc': list(s2.pc), 'steps': ('gc', 'emit') if mode == 'gc+emit' else ('emit',)})
                        continue
                    n += 1
                    OUT = modcmp.out_module(rec)
                    steps = ('gc', 'emit') if mode == 'gc+emit' else ('emit',)
                    check_customs(mode.split('+')[0] if mode != 'emit-twice' else 'first emit', want, OUT, vios, name, spec, {'pc': list(s2.pc), 'steps': steps, 'native_check': native_customs(0)})
                    if mode == 'emit-twice':
                        for s3, rec2, _m2 in P.run_emit(s2, None, mref=mref):
                            if rec2 is PANIC:
                                vios.append({'key': 'emit2.panic', 'what': '[%s] second emit panics' % name, 'scenario': name, 'spec': spec, 'model': None, 'pc': list(s3.pc), 'steps': ('emit', 'emit')})
                                continue
                            OUT2 = modcmp.out_module(rec2)
                            check_customs('second emit', want, OUT2, vios, name, spec, {'pc': list(s3.pc), 'steps': ('emit', 'emit'), 'native_check': native_customs(1), 'emit_index': 1})
        ob.detail = '%d emit paths' % n
        if n == 0 and not vios:
            ob.status = 'inconclusive'
            ob.detail = 'vacuous'
        elif vios:
            ob.status = 'violated'
            seen = set()
            for v in vios:
                if v['key'] not in seen:
                    seen.add(v['key'])
                    report.violations.append(v)
            ob.cex = [v['what'][:300] for v in vios[:3]]
        else:
            ob.status = 'discharged'
    except Inconclusive as ex:
        ob.status = 'inconclusive'
        ob.detail = str(ex)[:400]
    except modcmp.Mismatch as ex:
        ob.status = 'inconclusive'
        ob.detail = 'output record not understood: ' + str(ex)[:300]
    report.add(ob)


def native_customs(emit_index):
    def check(r):
        inp = [(c['name'], c['data']) for c in r['input']['dump']['custom_sections'] if not c['name'].startswith('.debug')]
        if emit_index >= len(r['emits']):
            return False, 'no emit %d' % emit_index
        out = [(c['name'], c['data']) for c in r['emits'][emit_index]['dump']['custom_sections'] if c['name'] not in ('producers', 'name')]
        return inp != out, {'input': inp, 'output': out}
    return check


def run(tier, seed, only=None):
    report = common.Report('C12', tier, seed)
    ctx = common.Ctx()
    timeout_ms = 60000 if tier == 'quick' else 600000

    from obligations import gen
    gl = gen.generated(tier, seed)
    items = []
    for kind in ('small', 'full'):
        for mode in ('emit', 'gc+emit', 'emit-twice'):
            if tier == 'quick' and kind == 'full' and mode != 'emit':
                continue
            items.append((kind, customs_spec(kind), mode, timeout_ms))
    # unknown sections interleaved with DWARF sections (which are routed elsewhere): order and content of the unknown ones
    for mode in ('emit', 'gc+emit', 'emit-twice'):
        dsp = customs_spec('small')
        dsp.customs = [dict(name=S('first'), data=Opaque('bytes:c0'), place='end'), dict(name=S('.debug_str'), data=Opaque('bytes:d0'), place='end'),
                       dict(name=symstr('c2_name'), data=Opaque('bytes:c2'), place='end'), dict(name=S('.debug_line'), data=Opaque('bytes:d1'), place='end'),
                       dict(name=S('third'), data=Opaque('bytes:c3'), place='end'), dict(name=S('fourth'), data=Opaque('bytes:c4'), place='end')]
        items.append(('with-debug-sections', dsp, mode, timeout_ms))
    for k, (n, sp) in enumerate(gl):
        items.append((n + '+customs', gen.with_customs(sp, k), ('emit', 'gc+emit', 'emit-twice')[k % 3], timeout_ms))
    items = [i for i in items if not only or i[0] in only]
    pc.run_parallel(ctx, report, run_scenario, items)
    report.bounds = {'generated': gen.bounds_text(tier, len(gl)) + ', each with 1-5 custom sections (symbolic or repeated concrete names, three placements), modes rotated', 'custom sections': '5 per module: two with symbolic names (constrained only to be uninterpreted), two with equal concrete names, placed before the type section, before the code section and at the end',
                     'modes': 'emit; gc then emit; emit twice on the same Module value'}
    report.assumptions = ['payload bytes are opaque tokens (walrus never inspects them; `to_vec` is the identity on the token)', 'symbolic names: not "producers", not "name", no ".debug" prefix']
    report.samples = [o.as_json() for o in report.obligations[:3]]
    return report, ctx
