"""Common driver for the whole-pipeline checks: run the real parse (+passes) (+emit) on a description and
discharge the structural comparison with the solver."""
import time

import z3

from mirsmt import common, engine, pipeline, modcmp, witness, wmodels
from mirsmt.values import *


def new_pipeline(ctx):
    I = ctx.interp()
    wmodels.install_wasmparser_accessors(I)
    P = pipeline.Pipeline(ctx, I)
    return I, P


def parse_ok_paths(I, P, spec, config=None, st=None):
    """[(state, Module value)] for the Ok paths; panics and Err paths are returned separately"""
    outs = P.run_parse(spec, config=config, st=st)
    oks, errs, panics = [], [], []
    for s, v in outs:
        if v is PANIC:
            panics.append(s)
        elif isinstance(v, Enum) and v.variant == 'Ok':
            oks.append((s, v.f[0]))
        else:
            errs.append((s, v))
    return oks, errs, panics


def discharge(report, C, pc, pid, scen_name, spec, timeout_ms, extra_witness=None):
    """solver-decides every collected equality; returns list of violation dicts"""
    vios = []
    for key, what in C.bad:
        vios.append({'key': key, 'what': '[%s] %s' % (scen_name, what), 'scenario': scen_name, 'spec': spec, 'model': None})
    for key, what, cond in C.todo:
        s = z3.Solver()
        s.set('timeout', timeout_ms)
        s.add(*pc)
        s.add(cond)
        t = time.time()
        r = s.check()
        report.solver_s += time.time() - t
        report.queries += 1
        if r == z3.unknown:
            raise Inconclusive('solver timeout on ' + what)
        if r == z3.sat:
            m = s.model()
            vios.append({'key': key, 'what': '[%s] %s is not preserved (solver model: %s)' % (scen_name, what, str(m)[:160].replace('\n', ' ')),
                         'scenario': scen_name, 'spec': spec, 'model': m})
    return vios


def pipeline_panic_events(s):
    return [e for e in s.events if e[0] == 'PANIC']
