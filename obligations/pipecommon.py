"""Common driver for the whole-pipeline checks: run the real parse (+passes) (+emit) on a description and
discharge the structural comparison with the solver."""
import time

import z3

from mirsmt import common, engine, pipeline, modcmp, witness, wmodels
from mirsmt.values import *


def new_pipeline(ctx):
    import os
    I = ctx.interp()
    engine.TRUNCATED[0] = False
    budget = float(os.environ.get('VERIF_SCENARIO_BUDGET', '600' if os.environ.get('VERIF_TIER_EFFECTIVE', 'quick') == 'quick' else '2400'))
    I.deadline = time.time() + budget
    wmodels.install_wasmparser_accessors(I)
    P = pipeline.Pipeline(ctx, I)
    return I, P


def should_stop(I, vios):
    """past the scenario's budget and a violation is already in hand: examining more paths adds nothing"""
    return bool(vios) and I.deadline is not None and time.time() > I.deadline


def parse_ok_paths(I, P, spec, config=None, st=None):
    """[(state, Module value)] for the Ok paths; panics and Err paths are returned separately"""
    outs = P.run_parse(spec, config=config, st=st)
    oks, errs, panics = [], [], []
    for s, v in outs:
        if v is PANIC:
            panics.append(s)
        elif isinstance(v, Enum) and v.variant == 'Ok':
            oks.append((s, v.f[0]))
        else:
            errs.append((s, v))
    return oks, errs, panics


def discharge(report, C, pc, pid, scen_name, spec, timeout_ms, extra_witness=None):
    """solver-decides every collected equality; returns list of violation dicts"""
    vios = []
    for key, what in C.bad:
        vios.append({'key': key, 'what': '[%s] %s' % (scen_name, what), 'scenario': scen_name, 'spec': spec, 'model': None})
    for key, what, cond in C.todo:
        s = z3.Solver()
        s.set('timeout', timeout_ms)
        s.add(*pc)
        s.add(cond)
        t = time.time()
        r = s.check()
        report.solver_s += time.time() - t
        report.queries += 1
        if r == z3.unknown:
            raise Inconclusive('solver timeout on ' + what)
        common.cross_check(s, r)
        if r == z3.sat:
            m = s.model()
            vios.append({'key': key, 'what': '[%s] %s is not preserved (solver model: %s)' % (scen_name, what, str(m)[:160].replace('\n', ' ')),
                         'scenario': scen_name, 'spec': spec, 'model': m})
    return vios


def pipeline_panic_events(s):
    return [e for e in s.events if e[0] == 'PANIC']


# ------------------------------------------------------------------ process-parallel scenario runner
_PG = {}


def _par_work(i):
    import z3 as _z3
    from mirsmt import witness as _w
    ctx, fn, items = _PG['ctx'], _PG['fn'], _PG['items']
    ctx.interps.clear()            # (forked copy) statistics of earlier phases belong to the parent
    import os as _os
    if _os.environ.get('VERIF_DEBUG_HANG'):
        import faulthandler
        faulthandler.dump_traceback_later(int(_os.environ['VERIF_DEBUG_HANG']), repeat=False, file=open('/tmp/hang-w%d.txt' % _os.getpid(), 'w'))
    rep = common.Report(_PG['pid'], 'quick', 0)

    def go():
        try:
            fn(ctx, rep, *items[i])
        except Exception as ex:      # noqa  - a crash of the machinery is never a verdict: inconclusive, exit 2
            import traceback
            ob = common.Obligation('crash:%s' % (items[i][1] if len(items[i]) > 1 and isinstance(items[i][1], str) else (items[i][0] if isinstance(items[i][0], str) else i)), 'the check itself failed on this item')
            ob.status = 'inconclusive'
            ob.detail = 'internal error: %s: %s | %s' % (type(ex).__name__, str(ex)[:200], traceback.format_exc()[-600:].replace('\n', ' / '))
            rep.add(ob)
    engine.run_in_big_stack(go)
    tot, used, enc = ctx.totals()
    ctx.interps.clear()
    # confirm natively here, where the violation still carries its native-check closure and solver model
    if rep.violations:
        from mirsmt import replay as _replay
        try:
            _replay.confirm(rep, tag='w%d' % i)
        except Exception as ex:      # noqa
            for v in rep.violations:
                v.setdefault('replay_note', 'native confirmation failed: ' + str(ex)[:200])
    table = None
    for v in rep.violations:
        try:
            if v.get('spec') is not None:
                model = v.get('model')
                if model is None and v.get('pc') is not None:
                    s = _z3.Solver()
                    s.add(*v['pc'])
                    model = s.model() if s.check() == _z3.sat else None
                table = table or _w.load_table()
                v['spec_json'] = _w.spec_json(v['spec'], model, table)
        except Exception as ex:      # noqa
            v['witness_error'] = str(ex)[:200]
        for k in ('spec', 'model', 'pc'):
            v.pop(k, None)
        nc = v.get('native_check')
        if nc is not None:
            v['native_check_name'] = getattr(nc, '__qualname__', None)
    obs = [(o.oid, o.text, o.status, o.detail, o.cex) for o in rep.obligations]
    vs = [{k: x for k, x in v.items() if k != 'native_check'} for v in rep.violations]
    return {'obs': obs, 'vios': vs, 'q': rep.queries, 'solver_s': rep.solver_s, '_tot': tot, '_used': used, '_enc': enc, 'cross': dict(common.CROSS)}


def run_parallel(ctx, report, fn, items, nproc=None):
    """fn(ctx, report, *item) appends obligations / violations to the report it is given; items are run in forked workers"""
    import multiprocessing as mp
    import os
    _PG.update(ctx=ctx, fn=fn, items=items, pid=report.pid)
    nproc = nproc or int(os.environ.get('VERIF_JOBS', '14'))
    from mirsmt import replay as _replay
    for prof in ('debug', 'release'):
        try:
            _replay.vreplay_bin(prof)            # build once, before forking
        except common.Inconclusive:
            pass
    with mp.get_context('fork').Pool(min(nproc, max(1, len(items)))) as pool:
        results = pool.map(_par_work, range(len(items)), chunksize=1)
    agg = {'steps': 0, 'queries': 0, 'qtime': 0.0, 'forks': 0, 'calls_interpreted': 0, 'calls_modelled': 0}
    used, enc = {}, {}
    for r in results:
        for k_, v_ in (r.get('cross') or {}).items():
            common.CROSS[k_] += v_
        report.queries += r['q']
        report.solver_s += r['solver_s']
        for k in agg:
            agg[k] += r['_tot'][k]
        for k, v in r['_used'].items():
            used[k] = used.get(k, 0) + v
        enc.update(r['_enc'])
        for oid, text, status, detail, cex in r['obs']:
            ob = common.Obligation(oid, text)
            ob.status, ob.detail, ob.cex = status, detail, cex
            report.add(ob)
        for v in r['vios']:
            report.violations.append(v)

    class _S:
        pass
    s = _S()
    s.stats, s.models_used, s.fns_encoded = agg, used, enc
    ctx.interps.append(s)
