"""C08 - emission is deterministic, repeatable and a fixpoint of the round trip."""
import z3

from mirsmt import common, engine, modcmp, pipeline, outspec, witness
from mirsmt.pipeline import S
from mirsmt.values import *
from obligations import scen, pipecommon as pc, c13, c14
from obligations.scen import OP, u32


def rich_spec():
    sp = c13.named_spec(0)
    # a function with several used locals of two types (exercise the local compaction / grouping and its iteration order)
    sp.funcs[2] = dict(type=0, locals=[(2, 'i32'), (1, 'f64'), (2, 'i32'), (1, 'f64')],
                       ops=scen.tagged_body('f2_tag', extra=1, more=[OP('LocalGet', local_index=u32(4)), OP('Drop'), OP('LocalGet', local_index=u32(2)), OP('Drop'), OP('LocalGet', local_index=u32(0)), OP('Drop'),
                                                                     OP('LocalGet', local_index=u32(5)), OP('Drop'), OP('LocalGet', local_index=u32(3)), OP('Drop')]))
    sp.names['locals'][4] = {0: S('n_a'), 2: S('n_b'), 3: S('n_c'), 4: S('n_d'), 5: S('n_e')}
    sp.customs = [dict(name=S('c_first'), data=Opaque('bytes:c0'), place='start'), dict(name=S('c_last'), data=Opaque('bytes:c1'), place='end')]
    sp.producers = [(S('language'), [(S('Rust'), S('1.70'))])]
    return sp


def emit_paths(I, P, spec, vios, name):
    oks, errs, panics = pc.parse_ok_paths(I, P, spec)
    for s in panics:
        vios.append({'key': 'parse.panic', 'what': '[%s] parse panics: %r' % (name, pc.pipeline_panic_events(s)[:2]), 'spec': spec, 'model': None, 'pc': list(s.pc)})
    for s, e in errs:
        vios.append({'key': 'parse.rejects', 'what': '[%s] parse rejects the description' % name, 'spec': spec, 'model': None, 'pc': list(s.pc)})
    return oks


def run_repeat(ctx, report, timeout_ms, name='rich', spec=None):
    spec = spec or rich_spec()
    ob = common.Obligation('O8.1' + ('' if name == 'rich' else ':' + name), 'emit_wasm twice on the same Module: identical output (custom sections included) and the Module value is unchanged by emitting')
    try:
        I, P = pc.new_pipeline(ctx)
        vios = []
        n = 0
        for s, module in emit_paths(I, P, spec, vios, name):
            mref = I.halloc(s, module)
            before = outspec.canon(P.snap(s, module))
            for s2, rec, _m in P.run_emit(s, None, mref=mref):
                if rec is PANIC:
                    vios.append({'key': 'emit.panic', 'what': 'emit panics', 'spec': spec, 'model': None, 'pc': list(s2.pc)})
                    continue
                OUT1 = modcmp.out_module(rec)
                after = outspec.canon(P.snap(s2, I.read_ref(s2, mref)))
                if after != before:
                    diff = [i for i, (a, b) in enumerate(zip(before[2], after[2])) if a != b]
                    names = module.names
                    vios.append({'key': 'emit.mutates', 'what': 'emit_wasm altered the Module: fields %r differ' % [names[i] for i in diff], 'spec': spec, 'model': None, 'pc': list(s2.pc), 'steps': ('emit', 'emit'),
                                 'native_check': native_twice})
                for s3, rec2, _m2 in P.run_emit(s2, None, mref=mref):
                    if rec2 is PANIC:
                        vios.append({'key': 'emit2.panic', 'what': 'second emit panics', 'spec': spec, 'model': None, 'pc': list(s3.pc), 'steps': ('emit', 'emit')})
                        continue
                    n += 1
                    OUT2 = modcmp.out_module(rec2)
                    c1, c2 = outspec.canon(OUT1), outspec.canon(OUT2)
                    if c1 != c2:
                        d = [a[0] for a, b in zip(c1, c2) if a != b]
                        vios.append({'key': 'emit.twice', 'what': 'second emit differs from the first in %r' % d, 'spec': spec, 'model': None, 'pc': list(s3.pc), 'steps': ('emit', 'emit'), 'native_check': native_twice})
        ob.detail = '%d double-emit paths' % n
        c14.finish(ob, report, vios, n)
    except Inconclusive as ex:
        ob.status, ob.detail = 'inconclusive', str(ex)[:400]
    except modcmp.Mismatch as ex:
        ob.status, ob.detail = 'inconclusive', 'output record not understood: ' + str(ex)[:300]
    report.add(ob)


def native_twice(r):
    a, b = r['emits'][0].get('hex'), r['emits'][1].get('hex') if len(r['emits']) > 1 else None
    return a != b, {'first_size': len(a or '') // 2, 'second_size': len(b or '') // 2}


def run_order(ctx, report, timeout_ms, name='rich', spec=None):
    spec = spec or rich_spec()
    ob = common.Obligation('O8.2' + ('' if name == 'rich' else ':' + name), 'output independent of hash-container iteration order: the run is repeated with every hash map/set iterating in insertion, reversed and rotated order (B-tree containers in key order); all outputs must be identical')
    try:
        outs = {}
        vios = []
        for order in ('id', 'rev', 'rot'):
            I, P = pc.new_pipeline(ctx)
            I.map_order = order
            for s, module in emit_paths(I, P, spec, vios, name + '/' + order):
                for s2, rec, _m in P.run_emit(s, module):
                    if rec is PANIC:
                        vios.append({'key': 'emit.panic', 'what': 'emit panics under iteration order ' + order, 'spec': spec, 'model': None, 'pc': list(s2.pc)})
                        continue
                    outs.setdefault(order, []).append(outspec.canon(modcmp.out_module(rec)))
        base = outs.get('id')
        for order in ('rev', 'rot'):
            if outs.get(order) != base:
                which = []
                if base and outs.get(order):
                    which = [a[0] for a, b in zip(base[0], outs[order][0]) if a != b]
                vios.append({'key': 'order.' + order, 'what': 'output depends on hash iteration order (%s vs insertion order): %r' % (order, which)})
        ob.detail = 'orders explored: %r' % sorted(outs)
        c14.finish(ob, report, vios, len(outs))
    except Inconclusive as ex:
        ob.status, ob.detail = 'inconclusive', str(ex)[:400]
    except modcmp.Mismatch as ex:
        ob.status, ob.detail = 'inconclusive', 'output record not understood: ' + str(ex)[:300]
    report.add(ob)


def partly_readable_producers_spec():
    sp = c14.base_spec('none', debug=False)
    sp.producers = [(S('language'), [(S('Rust'), S('1.70'))]), 'ERR']       # one complete field, then something the reader rejects
    return sp


def run_fixpoint(ctx, report, timeout_ms, variant, spec=None):
    if spec is None:
        spec = rich_spec() if variant == 'rich' else (partly_readable_producers_spec() if variant == 'partly-readable-producers' else scen.full_module(variant))
    ob = common.Obligation('O8.5:%s' % variant, 're-parsing walrus\'s own output (the recorded module turned back into a description) and emitting again reproduces it exactly (same sections, order, indices, immediates)')
    try:
        table = witness.load_table()
        I, P = pc.new_pipeline(ctx)
        vios = []
        n = 0
        for s, module in emit_paths(I, P, spec, vios, str(variant)):
            for s2, rec, _m in P.run_emit(s, module):
                if rec is PANIC:
                    continue
                OUT1 = modcmp.out_module(rec)
                spec2 = outspec.spec_from_out(OUT1, table)
                I2, P2 = pc.new_pipeline(ctx)
                st2 = engine.State()
                st2.pc.extend(s2.pc)
                for s3, module2 in emit_paths(I2, P2, spec2, vios, str(variant) + '/second'):
                    for s4, rec2, _m2 in P2.run_emit(s3, module2):
                        if rec2 is PANIC:
                            vios.append({'key': 'emit2.panic', 'what': 'emit of the re-parsed output panics', 'spec': spec, 'model': None, 'pc': list(s4.pc), 'steps': ('emit', 'reparse', 'emit')})
                            continue
                        n += 1
                        OUT2 = modcmp.out_module(rec2)
                        c1, c2 = outspec.canon(OUT1), outspec.canon(OUT2)
                        if c1 != c2:
                            d = [a[0] for a, b in zip(c1, c2) if a != b]
                            first = [(a, b) for a, b in zip(c1, c2) if a != b][0]
                            vios.append({'key': 'fixpoint', 'what': '[%s] second round trip differs in %r: %s  vs  %s' % (variant, d, str(first[0])[:300], str(first[1])[:300]), 'spec': spec, 'model': None, 'pc': list(s2.pc),
                                         'steps': ('emit', 'reparse', 'emit'), 'native_check': native_fix})
        ob.detail = '%d second-round-trip paths' % n
        c14.finish(ob, report, vios, n)
    except Inconclusive as ex:
        ob.status, ob.detail = 'inconclusive', str(ex)[:400]
    except modcmp.Mismatch as ex:
        ob.status, ob.detail = 'inconclusive', 'output record not understood: ' + str(ex)[:300]
    report.add(ob)


def native_fix(r):
    if len(r['emits']) < 2:
        return None, {}
    a, b = r['emits'][0].get('hex'), r['emits'][1].get('hex')
    return a != b, {'first_size': len(a or '') // 2, 'second_size': len(b or '') // 2}


def run(tier, seed, only=None):
    report = common.Report('C08', tier, seed)
    ctx = common.Ctx()
    timeout_ms = 60000 if tier == 'quick' else 600000

    from obligations import gen
    gl = gen.generated(tier, seed, n_quick=6, n_thorough=48)

    def job(ctx, report, kind, name, sp):
        if kind == 'repeat':
            run_repeat(ctx, report, timeout_ms, name, sp)
        elif kind == 'order':
            run_order(ctx, report, timeout_ms, name, sp)
        else:
            run_fixpoint(ctx, report, timeout_ms, name, sp)
    from obligations import c06
    items = [('repeat', 'rich', None), ('order', 'rich', None), ('fix', 'rich', None), ('fix', 'partly-readable-producers', None),
             ('fix', 'dead-nested-blocks', c06.gc_module_e())]          # blocks nested in dead code leave orphan sequences in the IR
    if tier != 'quick':
        items += [('fix', v, None) for v in (0, 1, 2)]
    for name, sp in gl:
        items += [('repeat', name, sp), ('order', name, sp), ('fix', name, sp)]
    items = [i for i in items if not only or str(i[1]) in only]
    pc.run_parallel(ctx, report, job, items)
    report.bounds = {'generated': gen.bounds_text(tier, len(gl)) + ' x {emit twice, three hash orders, second round trip}', 'description': 'the full module with names, producers, custom sections and a function with five used locals of two types', 'iteration orders': 'insertion, reversed, rotated by one (applied to every hash container at once)'}
    report.assumptions = ['"same bytes" is claimed as "same recorded wasm-encoder calls with identical argument terms" (the byte encoding is wasm-encoder\'s, a deterministic function of those)',
                          'process-to-process determinism is reduced to independence of hash iteration order (the only source of run-to-run variation in a single-threaded build)']
    report.samples = [o.as_json() for o in report.obligations[:3]]
    return report, ctx
