"""C16 - IR traversals visit everything exactly once, in order, without recursion.

O16.2  per Instr variant (51): the REAL generated `Instr::visit` / `Instr::visit_mut` (and the trait's default hooks) are
       interpreted on an instance with distinct operands; a recording visitor must see the variant hook once and every
       entity operand that is not marked skip_visit exactly once, in declaration order.
O16.1  the REAL dfs_in_order / dfs_pre_order_mut on trees built through the real builder API: the event sequence equals
       the reference recursive walk (incl. the type operand of multi-value sequences, also when they are empty).
O16.3  no recursion: the MIR call graph reachable from the two drivers has no cycle."""
import re

import z3

from mirsmt import common, engine, modcmp, pipeline, mir
from mirsmt.pipeline import S
from mirsmt.values import *
from obligations import pipecommon as pc, c14, c15

ID_KINDS = {'FunctionId': 'Function', 'TypeId': 'Type', 'TableId': 'Table', 'MemoryId': 'Memory', 'GlobalId': 'Global', 'LocalId': 'Local', 'DataId': 'Data',
            'ElementId': 'Element', 'InstrSeqId': 'InstrSeq'}


def snake(s):
    return re.sub(r'(?<!^)(?=[A-Z])', '_', s).lower()


def install_recorder(I, ctx):
    def m_visitor(I, st, c, args, cont, depth, site):
        try:
            v = I.deref(st, args[0])
        except Inconclusive:
            return NotImplemented
        if not (isinstance(v, Struct) and v.ty == 'VerifVisitor'):
            return NotImplemented
        meth = c.rsplit('::', 1)[1]
        mode = v.f[0]
        arg = None
        if len(args) > 1:
            a = I.deref(st, args[1])
            if isinstance(a, BV):
                arg = conc(a)
            elif isinstance(a, Enum) and a.ty == 'Instr':
                arg = a.variant
            elif isinstance(a, Struct) and a.ty == 'InstrSeq':
                arg = ('seq', conc(a.get('id')))
            elif isinstance(a, Struct):
                arg = a.ty
            else:
                arg = type(a).__name__
        I.event(st, 'visit', meth, arg)
        if mode == 'defaults' and not re.match(r'visit_\w+_id(_mut)?$', meth) and meth not in ('start_instr_seq', 'end_instr_seq', 'start_instr_seq_mut', 'end_instr_seq_mut', 'visit_instr', 'visit_instr_mut'):
            trait = 'VisitorMut' if 'VisitorMut' in c else 'Visitor'
            cands = [f for f in I.by_last.get(meth, []) if re.search(r'(^|::)%s::%s$' % (trait, meth), f.name)]
            if len(cands) == 1:
                return I.run(cands[0], args, st, cont, depth + 1)
            raise Inconclusive('default hook %s::%s not found' % (trait, meth))
        cont(st, unit())
    I.add_model(r'^<.* as (ir::)?Visitor(Mut)?(<.*>)?>::\w+$', m_visitor, 'recording visitor (hooks recorded; per-instruction hooks additionally run the trait\'s default body in `defaults` mode)', front=True)


def instance(I, st, variant, fields):
    """an Instr::<variant> with distinct operands"""
    vals = []
    names = []
    nid = [100]
    expect = []
    for fname, fty, skip in fields:
        names.append(fname)
        t = fty.strip()
        m = re.match(r'Box<\[(\w+)\]>', t)
        base = m.group(1) if m else t.split('::')[-1]
        if base in ID_KINDS:
            if m:
                ids = []
                for _ in range(2):
                    nid[0] += 1
                    ids.append(bv(nid[0], 'Id<%s>' % ID_KINDS[base]))
                vals.append(I.halloc(st, VecVal(ids, 'boxed')))
                if not skip:
                    expect += [('visit_' + snake(base), conc(x)) for x in ids]
            else:
                nid[0] += 1
                vals.append(bv(nid[0], 'Id<%s>' % ID_KINDS[base]))
                if not skip:
                    expect.append(('visit_' + snake(base), nid[0]))
        else:
            if base == 'Value':
                vals.append(Enum('Value', 'I32', (sym('v', 'i32'),)))
            elif base == 'MemArg':
                vals.append(Struct('MemArg', (bv(1, 'u32'), bv(0, 'u32')), ('align', 'offset')))
            else:
                vals.append(Opaque('field:' + t))
            if not skip:
                expect.append(('visit_' + snake(base), base if base not in ('Value',) else 'Enum'))
    return Enum('Instr', variant, (Struct(variant, vals, names),)), expect


def run_variants(ctx, report):
    I0 = ctx.interp()
    for variant, fields in I0.defs.instr_fields.items():
        for trait in ('Visit', 'VisitMut'):
            mut = trait == 'VisitMut'
            ob = common.Obligation('O16.2:%s/%s' % (variant, trait), 'Instr::%s through the generated %s impl with the default hooks: the variant hook fires once, every operand not marked skip_visit is reported exactly once, in declaration order' % (variant, trait))
            try:
                I = ctx.interp()
                install_recorder(I, ctx)
                st = engine.State()
                ins, expect = instance(I, st, variant, fields)
                iref = I.halloc(st, ins)
                vref = I.halloc(st, Struct('VerifVisitor', ('defaults',)))
                meth = 'visit_mut' if mut else 'visit'
                fn = [f for f in I.by_last.get(meth, []) if f.params and I.defs.tykey(re.sub(r"^&('\w+ )?(mut )?", '', f.params[0][1])) == 'Instr' and len(f.params) == 2]
                if len(fn) != 1:
                    raise Inconclusive('generated %s for Instr: %d candidates' % (meth, len(fn)))
                outs = []
                I.run(fn[0], [iref, vref], st, lambda s, v: outs.append((s, v)))
                bad = None
                for s, v in outs:
                    if v is PANIC:
                        bad = 'panic'
                        break
                    evs = [(e[1], e[2]) for e in s.events if e[0] == 'visit']
                    suf = '_mut' if mut else ''
                    want = [('visit_' + snake(variant) + suf, variant)] + [(h + suf, a) for h, a in expect]
                    got = [(h, a) for h, a in evs]
                    # compare hook names and id operands; non-id operands by hook name only
                    norm = lambda lst: [(h, a if isinstance(a, int) else None) for h, a in lst]
                    if norm(got) != norm(want):
                        bad = 'hooks fired: %r ; expected: %r' % (norm(got), norm(want))
                        break
                if bad:
                    ob.status = 'violated'
                    ob.cex = [bad[:400]]
                    key = 'visitmut.double' if mut and 'expected' in bad and len(bad) and bad.count('visit_') > 0 and _is_double(bad) else 'visit.%s.%s' % (trait, variant)
                    report.violations.append({'key': key, 'what': 'Instr::%s via %s: %s' % (variant, trait, bad[:300])})
                else:
                    ob.status = 'discharged' if outs else 'inconclusive'
                    ob.detail = '%d paths, %d operands' % (len(outs), len(expect))
            except Inconclusive as ex:
                ob.status, ob.detail = 'inconclusive', str(ex)[:300]
            report.add(ob)


def _is_double(bad):
    m = re.search(r"hooks fired: (\[.*\]) ; expected: (\[.*\])", bad)
    if not m:
        return False
    try:
        got, want = eval(m.group(1)), eval(m.group(2))
    except Exception:      # noqa
        return False
    ids_w = [x for x in want[1:]]
    return got == [want[0]] + ids_w + ids_w or got[:1] == want[:1] and sorted(got[1:], key=str) == sorted(ids_w + ids_w, key=str)


SKIP = {}


# ---- O16.1
def walk_ref(nodes, name, env, mv, mut):
    """reference recursive walk -> events; dfs_in_order: start, [type], per instr (instr, ids..., children), end"""
    ev = [('start', name)]
    if name in mv:
        ev.append(('type', mv[name]))
    for nd in nodes:
        k = nd[0]
        if k == 'orphan':
            continue        # a filled sequence that is never attached is not reachable from the entry: no event may name it
        ev.append(('instr', {'const': 'Const', 'drop': 'Drop', 'lget': 'LocalGet', 'lset': 'LocalSet', 'br': 'Br', 'br_if': 'BrIf', 'block': 'Block', 'loop': 'Loop', 'if': 'IfElse',
                             'unreachable': 'Unreachable', 'return': 'Return'}[k]))
        if k in ('lget', 'lset'):
            ev.append(('local', nd[1]))
        elif k in ('br', 'br_if'):
            if not SKIP.get(('Br' if k == 'br' else 'BrIf', 'block'), False):
                ev.append(('seqid', nd[1]))
        elif k in ('block', 'loop'):
            ev.append(('seqid', nd[1]))
            ev += walk_ref(nd[3], nd[1], env, mv, mut)
        elif k == 'if':
            ev.append(('seqid', nd[1]))
            ev.append(('seqid', nd[2]))
            ev += walk_ref(nd[4], nd[1], env, mv, mut)
            ev += walk_ref(nd[5], nd[2], env, mv, mut)
        elif k == 'const':
            ev.append(('value',))
    ev.append(('end', name))
    return ev


def walk_ref_preorder_mut(nodes, name, mv):
    """dfs_pre_order_mut: a sequence is processed completely (its instructions in order) before its children; children
    are taken from a stack: the LAST pushed first; for if/else consequent before alternative; later siblings' children
    are pushed later hence visited EARLIER than earlier siblings' children"""
    out = []
    stack = [(name, nodes)]
    while stack:
        nm, nds = stack.pop()
        out.append(('start', nm))
        if nm in mv:
            out.append(('type', mv[nm]))
        for nd in nds:
            k = nd[0]
            if k == 'orphan':
                continue    # never attached: unreachable from the entry, reported by neither driver
            out.append(('instr', {'const': 'Const', 'drop': 'Drop', 'lget': 'LocalGet', 'lset': 'LocalSet', 'br': 'Br', 'br_if': 'BrIf', 'block': 'Block', 'loop': 'Loop', 'if': 'IfElse',
                                  'unreachable': 'Unreachable', 'return': 'Return'}[k]))
            if k in ('lget', 'lset'):
                out.append(('local', nd[1]))
            elif k in ('br', 'br_if'):
                if not SKIP.get(('Br' if k == 'br' else 'BrIf', 'block'), False):
                    out.append(('seqid', nd[1]))
            elif k in ('block', 'loop'):
                out.append(('seqid', nd[1]))
                stack.append((nd[1], nd[3]))
            elif k == 'if':
                out.append(('seqid', nd[1]))
                out.append(('seqid', nd[2]))
                stack.append((nd[2], nd[5]))
                stack.append((nd[1], nd[4]))
            elif k == 'const':
                out.append(('value',))
        out.append(('end', nm))
    return out


def run_dfs(ctx, report, tname, nodes, mv_names, mut):
    drv = 'dfs_pre_order_mut' if mut else 'dfs_in_order'
    ob = common.Obligation('O16.1:%s/%s' % (tname, drv), '%s on tree `%s` (built through the real builder): every instruction once, in %s, start/end events properly nested, every entity operand and the type operand of multi-value sequences reported exactly once' % (drv, tname, 'the documented pre-order' if mut else 'program order'))
    try:
        I, P = pc.new_pipeline(ctx)
        install_recorder(I, ctx)
        st = engine.State()
        mdef = ctx.fn(r'^module::<impl at [^>]*>::default$', lambda f: f.ret.endswith('Module'))
        out = []
        I.run(mdef, [], st, lambda s, v: out.append(v))
        mref = I.halloc(st, out[0])
        m = I.read_ref(st, mref)
        ladd = I.method('add', 'ModuleLocals')
        lids = []
        for ty in c15.LOCALS:
            r = []
            I.run(ladd, [c15.pipeline_field(mref, m, 'locals'), Enum('ValType', ty.upper())], st, lambda s, v: r.append(v))
            lids.append(r[0])
        types_ref = c15.pipeline_field(mref, m, 'types')
        # a two-value type for multi-value sequences
        tadd = I.method('add', 'ModuleTypes', nparams=3)
        pr = I.halloc(st, VecVal([Enum('ValType', 'I32'), Enum('ValType', 'I32')]))
        tid = []
        I.run(tadd, [types_ref, pr, pr], st, lambda s, v: tid.append(v))
        fbnew = I.method('new', impl_ty='FunctionBuilder', nparams=3)
        r = []
        I.run(fbnew, [types_ref, I.halloc(st, VecVal([Enum('ValType', 'I32')])), I.halloc(st, VecVal([]))], st, lambda s, v: r.append(v))
        fbref = I.halloc(st, r[0])
        body = []
        I.run(I.method('func_body', 'FunctionBuilder'), [fbref], st, lambda s, v: body.append(v))
        bref = I.halloc(st, body[0])
        B = c15.Build(I, st, 'append', lids)
        mvty = Enum('InstrSeqType', 'MultiValue', (tid[0],))
        B.seqty = lambda ty: mvty if ty == 'MV' else c15.Build.seqty(B, ty)
        done = []
        B.fill(st, bref, 'entry', nodes, lambda s: done.append(s), 0)
        st = done[0]
        lf = []
        I.run(I.method('local_func', impl_ty='FunctionBuilder'), [I.read_ref(st, fbref), VecVal([lids[0]])], st, lambda s, v: lf.append(v))
        lfref = I.halloc(st, lf[0])
        vref = I.halloc(st, Struct('VerifVisitor', ('defaults',)))
        fn = ctx.fn(r'(^|::)%s$' % drv)
        outs = []
        I.run(fn, [vref, lfref, B.env['entry']], st, lambda s, v: outs.append((s, v)))
        seqname = {conc(v): k for k, v in B.env.items()}
        lname = {conc(v): i for i, v in enumerate(lids)}
        mv = {n: conc(tid[0]) for n in mv_names}
        mv['entry'] = '*'        # the function-entry sequence carries the implicit entry type (a TypeId), reported like any other
        want = walk_ref_preorder_mut(nodes, 'entry', mv) if mut else walk_ref(nodes, 'entry', B.env, mv, mut)
        vios = []
        for s, v in outs:
            if v is PANIC:
                vios.append({'key': 'dfs.panic', 'what': '%s panics' % drv})
                continue
            got = []
            suf = '_mut' if mut else ''
            for e in s.events:
                if e[0] != 'visit':
                    continue
                h, a = e[1], e[2]
                h = h[:-4] if mut and h.endswith('_mut') else h
                if h == 'start_instr_seq':
                    got.append(('start', seqname.get(a[1])))
                elif h == 'end_instr_seq':
                    got.append(('end', seqname.get(a[1])))
                elif h == 'visit_instr':
                    got.append(('instr', a))
                elif h == 'visit_local_id':
                    got.append(('local', lname.get(a)))
                elif h == 'visit_instr_seq_id':
                    got.append(('seqid', seqname.get(a)))
                elif h == 'visit_type_id':
                    got.append(('type', a))
                elif h == 'visit_value':
                    got.append(('value',))
            got = [(g[0], '*') if (g[0] == 'type' and i < len(want) and want[i] == ('type', '*')) else g for i, g in enumerate(got)]
            if got != want:
                k = next((i for i, (a, b) in enumerate(zip(got, want)) if a != b), min(len(got), len(want)))
                double = mut and len(got) > len(want)
                vios.append({'key': 'visitmut.double' if double else 'dfs.order.%s' % drv, 'what': '%s on %s: event #%d is %r, expected %r (%d events, expected %d)' % (drv, tname, k, got[k] if k < len(got) else None, want[k] if k < len(want) else None, len(got), len(want))})
        ob.detail = '%d paths, %d expected events' % (len(outs), len(want))
        c14.finish(ob, report, vios, len(outs))
    except Inconclusive as ex:
        ob.status, ob.detail = 'inconclusive', str(ex)[:400]
    report.add(ob)


def run_norecursion(ctx, report):
    ob = common.Obligation('O16.3', 'no recursion: the call graph (crate functions, closures, generated Visit impls and default Visitor hooks) reachable from dfs_in_order and dfs_pre_order_mut contains no cycle, so call-stack depth does not grow with nesting depth (work lists live in explicit Vec stacks)')
    try:
        I = ctx.interp()
        roots = [ctx.fn(r'(^|::)dfs_in_order$'), ctx.fn(r'(^|::)dfs_pre_order_mut$')]
        graph = {}
        work = list(roots)
        seen = {}
        while work:
            f = work.pop()
            if id(f) in seen:
                continue
            seen[id(f)] = f
            outs = []
            for bb in f.blocks:
                stt, tm = mir.parsed_block(f, bb)
                if tm[0] != 'call':
                    continue
                callee = tm[2]
                nargs = len(tm[3])
                m = re.match(r'^<&?(mut )?(\{closure@[^}]*\}) as', callee)
                g = None
                if m:
                    g = I.closures.get(m.group(2))
                else:
                    mm = re.match(r'^<(V|impl Visitor(Mut)?(<.*>)?) as (ir::)?(Visitor(Mut)?)(<.*>)?>::(\w+)$', callee)
                    if mm:
                        cands = [x for x in I.by_last.get(mm.group(8), []) if re.search(r'(^|::)%s::%s$' % (mm.group(5), mm.group(8)), x.name)]
                        g = cands[0] if len(cands) == 1 else None
                    else:
                        try:
                            g = I.resolve_local(callee, [None] * nargs, engine.State())
                        except Exception:      # noqa
                            g = None
                        if g is None and re.search(r' as (ir::)?Visit(Mut)?(<.*>)?>::visit(_mut)?::<', callee):
                            # generated impl for a concrete operand struct: match on the receiver type
                            ty = I.defs.tykey(re.match(r'^<(.*?) as ', callee).group(1))
                            meth = 'visit_mut' if 'visit_mut' in callee else 'visit'
                            cands = [x for x in I.by_last.get(meth, []) if x.params and I.defs.tykey(re.sub(r"^&('\w+ )?(mut )?", '', x.params[0][1])) == ty]
                            g = cands[0] if len(cands) == 1 else None
                if g is not None:
                    outs.append(g)
                    work.append(g)
            graph[id(f)] = outs
        # cycle detection
        color = {}
        cyc = []

        def dfs(f, path):
            color[id(f)] = 1
            for g in graph.get(id(f), []):
                if color.get(id(g)) == 1:
                    cyc.append([x.name[-60:] for x in path + [g]])
                elif id(g) not in color:
                    dfs(g, path + [g])
            color[id(f)] = 2
        for r in roots:
            if id(r) not in color:
                dfs(r, [r])
        ob.detail = '%d functions reachable' % len(seen)
        if cyc:
            ob.status = 'violated'
            ob.cex = cyc[:2]
            report.violations.append({'key': 'recursion', 'what': 'call cycle reachable from the traversal drivers: %r' % cyc[0]})
        else:
            ob.status = 'discharged' if len(seen) > 50 else 'inconclusive'
    except Inconclusive as ex:
        ob.status, ob.detail = 'inconclusive', str(ex)[:300]
    report.add(ob)


def dfs_trees():
    T = dict(c15.trees())
    T['mv-empty'] = [('const', 'a'), ('const', 'b'), ('block', 'MB', 'MV', []), ('loop', 'ML', 'MV', []), ('const', 'c'), ('if', 'MC', 'MA', 'MV', [], []), ('drop',), ('drop',)]
    T['mv-nonempty'] = [('const', 'a'), ('const', 'b'), ('block', 'MB', 'MV', [('drop',), ('const', 'x')]), ('drop',), ('drop',)]
    T['siblings'] = [('block', 'B1', None, [('const', 'a'), ('drop',)]), ('block', 'B2', None, [('loop', 'L', None, [('const', 'b'), ('drop',)])]), ('const', 'c'), ('drop',)]
    return T


MV = {'mv-empty': ['MB', 'ML', 'MC', 'MA'], 'mv-nonempty': ['MB']}


def run(tier, seed, only=None):
    report = common.Report('C16', tier, seed)
    ctx = common.Ctx()

    for v, fl in ctx.defs.instr_fields.items():
        for fname, fty, skip in fl:
            SKIP[(v, fname)] = skip

    def go():
        run_variants(ctx, report)
        for tname, nodes in dfs_trees().items():
            for mut in (False, True):
                run_dfs(ctx, report, tname, nodes, MV.get(tname, []), mut)
        run_norecursion(ctx, report)
    engine.run_in_big_stack(go)
    # drawn trees (same generator as C15), both drivers
    ngen = 30 if tier == 'quick' else 300
    items = []
    for k in range(ngen):
        sd = seed * 1000 + k
        nodes = c15.gen_tree(sd)
        items.append(('gen%d' % sd, nodes, [], False))
        items.append(('gen%d' % sd, nodes, [], True))
    items = [i for i in items if not only or i[0] in only]
    if items:
        pc.run_parallel(ctx, report, run_dfs, items)
    report.queries = len(report.obligations)
    report.bounds = {'generated trees': '%d drawn trees (obligations/c15.py gen_tree, VERIF_SEED) x {dfs_in_order, dfs_pre_order_mut}' % ngen, 'variants': 'all 51 Instr variants x {Visit, VisitMut}, operands distinct; list operands (br_table) with 2 entries', 'trees': '10 shapes incl. empty and non-empty multi-value sequences, sibling blocks and never-attached (orphan) sequences that no event may name',
                     'visitors': 'default hooks (trait defaults executed) with recording of the id/sequence hooks'}
    report.assumptions = ['a visitor that overrides a per-instruction hook replaces the default body (user code, outside the claim)', 'depth 10^5 is not executed: absence of recursion is a call-graph fact']
    report.samples = [o.as_json() for o in report.obligations[:4]]
    return report, ctx
