"""C15 - IR built through the builder API is emitted faithfully.

Instruction trees are assembled by driving the REAL FunctionBuilder / InstrSeqBuilder methods (append, positional
insert, nested block/loop/if_else closures, dangling sequences attached later) in several insertion orders, starting from
the real Module::default(); the REAL emit_wasm output must be the in-order flattening of the intended tree
(reference flattening in this file), with correct branch depths, parameters in place and one slot per used local."""
import itertools

import z3

from mirsmt import common, engine, modcmp, pipeline, bodycmp, witness
from mirsmt.pipeline import S, Spec
from mirsmt.values import *
from mirsmt.models import vec_at
from obligations import scen, pipecommon as pc, c14
from obligations.scen import OP, u32
from obligations.c01 import BT_EMPTY, BT_TYPE, BT_FUNC

# ---- intended trees: nodes ('const', tag) ('drop',) ('lget', l) ('lset', l) ('br', seq) ('br_if', seq) ('unreachable',) ('return',)
#      ('block', name, ty, [nodes]) ('loop', name, ty, [nodes]) ('if', cname, aname, ty, [cons], [alt])         ty: None | 'i32'


def trees():
    T = {}
    T['flat'] = [('const', 'a'), ('drop',), ('const', 'b'), ('drop',), ('const', 'c'), ('drop',)]
    T['nested-br'] = [('const', 'a'), ('drop',),
                      ('block', 'B1', None, [('const', 'b'), ('br_if', 'B1'),
                                             ('loop', 'L1', None, [('const', 'c'), ('br_if', 'L1'), ('const', 'd'), ('br_if', 'B1'), ('br', 'entry')]),
                                             ('const', 'e'), ('drop',)]),
                      ('const', 'f'), ('drop',)]
    T['if-else'] = [('const', 'cond'), ('if', 'C', 'A', None, [('const', 'x'), ('drop',), ('br', 'C')], [('const', 'y'), ('drop',), ('br', 'entry')]), ('const', 'z'), ('drop',)]
    T['typed'] = [('block', 'B', 'i32', [('const', 'v'), ('const', 'w'), ('br_if', 'B'), ('drop',), ('const', 'u')]), ('drop',),
                  ('const', 'cond'), ('if', 'C', 'A', 'i32', [('const', 'p')], [('const', 'q')]), ('drop',)]
    T['locals'] = [('lget', 0), ('lset', 3), ('lget', 2), ('drop',), ('lget', 4), ('drop',), ('block', 'B', None, [('lget', 1), ('drop',), ('lget', 3), ('drop',)]), ('lget', 5), ('drop',)]
    T['orphan-seq'] = [('lget', 1), ('drop',), ('orphan', 'O1', [('lget', 2), ('drop',), ('lget', 4), ('lset', 4)]),
                       ('block', 'B', None, [('orphan', 'O2', [('lget', 5), ('drop',)]), ('lget', 3), ('drop',)]), ('lget', 3), ('drop',)]
    T['dead-tail'] = [('block', 'B', None, [('br', 'B'), ('const', 'dead'), ('drop',)]), ('return',), ('const', 'dead2'), ('drop',)]
    return T


def gen_tree(seed, maxdepth=3):
    """a drawn well-typed tree in the node language above: stack-neutral groups, nested block / loop / if-else with
    branches to any enclosing construct (incl. the function body), typed blocks, locals, dead tails"""
    import random
    r = random.Random(seed)
    cnt = [0]

    def fresh(p):
        cnt[0] += 1
        return '%s%d' % (p, cnt[0])

    def seq(labels, depth, n):
        out = []
        for _ in range(n):
            c = r.randrange(10)
            if c == 0:
                out += [('const', fresh('k')), ('drop',)]
            elif c == 1:
                out += [('lget', r.randrange(len(LOCALS))), ('drop',)]
            elif c == 2:
                out += [('const', fresh('k')), ('lset', r.choice([0, 2, 5]))]        # the i32 locals
            elif c == 3 and labels:
                out += [('const', fresh('c')), ('br_if', r.choice(labels))]
            elif c in (4, 5) and depth < maxdepth:
                kind = r.choice(['block', 'loop'])
                nm = fresh('B')
                out.append((kind, nm, None, seq(labels + [nm], depth + 1, r.randint(0, 3))))
            elif c == 6 and depth < maxdepth:
                cn, an = fresh('C'), fresh('A')
                out += [('const', fresh('c')), ('if', cn, an, None, seq(labels + [cn], depth + 1, r.randint(0, 2)), seq(labels + [an], depth + 1, r.randint(0, 2)))]
            elif c == 7 and depth < maxdepth:
                nm = fresh('T')
                # a typed block: inner groups are stack-neutral, the value comes last; its label needs a value, so it
                # is not offered as a branch target to the groups inside
                out += [('block', nm, 'i32', seq(labels, depth + 1, r.randint(0, 2)) + [('const', fresh('v'))]), ('drop',)]
            elif c == 8 and labels and depth > 0 and r.random() < 0.5:
                out += [('br', r.choice(labels)), ('const', fresh('dead')), ('drop',)]
                break
            else:
                out += [('const', fresh('k')), ('drop',)]
        return out
    return seq(['entry'], 0, r.randint(2, 5))


LOCALS = ['i32', 'i64', 'i32', 'f64', 'i64', 'i32']      # local 0 is the (only) parameter


def flatten(nodes, stack, fresh):
    """reference in-order flattening -> wasmparser::Operator terms (branch targets as depths)"""
    ops = []
    for nd in nodes:
        k = nd[0]
        if k == 'const':
            ops.append(OP('I32Const', value=sym('t_' + nd[1], 'i32')))
        elif k == 'drop':
            ops.append(OP('Drop'))
        elif k == 'lget':
            ops.append(OP('LocalGet', local_index=u32(nd[1])))
        elif k == 'lset':
            ops.append(OP('LocalSet', local_index=u32(nd[1])))
        elif k == 'unreachable':
            ops.append(OP('Unreachable'))
        elif k == 'return':
            ops.append(OP('Return'))
        elif k in ('br', 'br_if'):
            d = len(stack) - 1 - stack.index(nd[1])
            ops.append(OP('Br' if k == 'br' else 'BrIf', relative_depth=u32(d)))
        elif k in ('block', 'loop'):
            bt = BT_EMPTY if nd[2] is None else BT_TYPE(nd[2])
            ops.append(OP('Block' if k == 'block' else 'Loop', blockty=bt))
            ops += flatten(nd[3], stack + [nd[1]], fresh)
            ops.append(OP('End'))
        elif k == 'if':
            bt = BT_EMPTY if nd[3] is None else BT_TYPE(nd[3])
            ops.append(OP('If', blockty=bt))
            ops += flatten(nd[4], stack + [nd[1]], fresh)
            ops.append(OP('Else'))
            ops += flatten(nd[5], stack + [nd[2]], fresh)
            ops.append(OP('End'))
    return ops


class Build:
    """drives the real builder API for one tree with one insertion strategy"""

    def __init__(self, I, st, strategy, local_ids):
        self.I = I
        self.strategy = strategy
        self.env = {}
        self.local_ids = local_ids

    def seqty(self, ty):
        if ty is None:
            return Enum('InstrSeqType', 'Simple', (none(),))
        return Enum('InstrSeqType', 'Simple', (some(Enum('ValType', ty.upper())),))

    def m(self, name, nparams=None):
        return self.I.method(name, 'InstrSeqBuilder', nparams=nparams)

    def leaf_call(self, nd, at=None):
        """(Fn, extra args) for a leaf node; `at` = position for the *_at variant"""
        k = nd[0]
        suffix = '_at' if at is not None else ''
        pre = [usize(at)] if at is not None else []
        if k == 'const':
            if at is None:
                return self.m('i32_const'), [sym('t_' + nd[1], 'i32')]
            return self.m('const_at'), pre + [Enum('Value', 'I32', (sym('t_' + nd[1], 'i32'),))]
        if k == 'drop':
            return self.m('drop' + suffix), pre
        if k == 'lget':
            return self.m('local_get' + suffix), pre + [self.local_ids[nd[1]]]
        if k == 'lset':
            return self.m('local_set' + suffix), pre + [self.local_ids[nd[1]]]
        if k == 'unreachable':
            return self.m('unreachable' + suffix), pre
        if k == 'return':
            return self.m('return_' if at is None else 'return_at'), pre
        if k in ('br', 'br_if'):
            return self.m(k + suffix), pre + [self.env[nd[1]]]
        raise Inconclusive('leaf ' + k)

    def fill(self, st, bref, name, nodes, cont, depth):
        """emit `nodes` into the sequence behind bref (a &mut InstrSeqBuilder) using the strategy"""
        I = self.I
        idfn = self.m('id')

        def with_id(st, idv):
            self.env[name] = idv
            order = list(range(len(nodes)))
            if self.strategy == 'reverse':
                plan = [(i, 0) for i in reversed(order)]                    # every instruction inserted at position 0
            elif self.strategy == 'middle':
                # first, last, then the middle ones inserted at their final positions
                if len(order) >= 3:
                    plan = [(order[0], None), (order[-1], None)] + [(i, sum(1 for nd_ in nodes[:i] if nd_[0] != 'orphan')) for i in order[1:-1]]   # final position (an orphan node adds no instruction)
                else:
                    plan = [(i, None) for i in order]
            else:
                plan = [(i, None) for i in order]
            self.run_plan(st, bref, nodes, plan, 0, cont, depth)
        I.run(idfn, [bref], st, lambda s2, v: with_id(s2, v), depth + 1)

    def run_plan(self, st, bref, nodes, plan, k, cont, depth):
        I = self.I
        if k >= len(plan):
            return cont(st)
        i, at = plan[k]
        nd = nodes[i]
        nxt = lambda s2: self.run_plan(s2, bref, nodes, plan, k + 1, cont, depth)
        kind = nd[0]
        if kind == 'orphan':
            # a dangling sequence that is filled and never attached: it is not part of the function (flatten ignores it)
            return self.dangling_child(st, bref, nd[1], None, nd[2], lambda s2, cid: nxt(s2), depth)
        if kind in ('block', 'loop'):
            if self.strategy == 'dangling':
                return self.dangling_child(st, bref, nd[1], nd[2], nd[3],
                                           lambda s2, cid: self.attach(s2, bref, Struct('Block' if kind == 'block' else 'Loop', (cid,), ('seq',)), at, nxt, depth), depth)
            name = {('block', False): 'block', ('loop', False): 'loop_', ('block', True): 'block_at', ('loop', True): 'loop_at'}[(kind, at is not None)]
            fn = self.m(name)
            clo = I.pyclosure(lambda I_, s_, a_, c_, d_: self.fill(s_, a_[0], nd[1], nd[3], lambda s3: c_(s3, unit()), d_))
            args = [bref] + ([usize(at)] if at is not None else []) + [self.seqty(nd[2]), clo]
            return I.run(fn, args, st, lambda s2, r: nxt(s2), depth + 1)
        if kind == 'if':
            if self.strategy == 'dangling':
                return self.dangling_child(st, bref, nd[1], nd[3], nd[4],
                                           lambda s2, cid: self.dangling_child(s2, bref, nd[2], nd[3], nd[5],
                                                                               lambda s3, aid: self.attach(s3, bref, Struct('IfElse', (cid, aid), ('consequent', 'alternative')), at, nxt, depth), depth), depth)
            fn = self.m('if_else' + ('_at' if at is not None else ''))
            c1 = I.pyclosure(lambda I_, s_, a_, c_, d_: self.fill(s_, a_[0], nd[1], nd[4], lambda s3: c_(s3, unit()), d_))
            c2 = I.pyclosure(lambda I_, s_, a_, c_, d_: self.fill(s_, a_[0], nd[2], nd[5], lambda s3: c_(s3, unit()), d_))
            args = [bref] + ([usize(at)] if at is not None else []) + [self.seqty(nd[3]), c1, c2]
            return I.run(fn, args, st, lambda s2, r: nxt(s2), depth + 1)
        fn, extra = self.leaf_call(nd, at)
        I.run(fn, [bref] + extra, st, lambda s2, r: nxt(s2), depth + 1)

    def dangling_child(self, st, bref, name, ty, nodes, k, depth):
        """builder.dangling_instr_seq(ty) -> fill it -> k(st, id)"""
        I = self.I
        dm = I.method('deref_mut', 'InstrSeqBuilder')
        dang = I.method('dangling_instr_seq', 'FunctionBuilder')

        def got_fb(s2, fbref):
            def got_child(s3, child):
                cref = I.halloc(s3, child)
                self.fill(s3, cref, name, nodes, lambda s4: k(s4, self.env[name]), depth)
            I.run(dang, [fbref, self.seqty(ty)], s2, got_child, depth + 1)
        I.run(dm, [bref], st, got_fb, depth + 1)

    def attach(self, st, bref, instr_struct, at, nxt, depth):
        I = self.I
        fn = self.m('instr_at' if at is not None else 'instr')
        I.run(fn, [bref] + ([usize(at)] if at is not None else []) + [instr_struct], st, lambda s2, r: nxt(s2), depth + 1)


PARAMS = {'default': [0], 'params-desc': [4, 2, 0], 'scratch-before-params': [3, 4]}


def build_and_emit(ctx, tree_name, nodes, strategy, params=(0,)):
    """-> (state, recorded module, expected operator list)"""
    I, P = pc.new_pipeline(ctx)
    st = engine.State()
    mdef = ctx.fn(r'^module::<impl at [^>]*>::default$', lambda f: f.ret.endswith('Module'))
    out = []
    I.run(mdef, [], st, lambda s, v: out.append(v))
    mref = I.halloc(st, out[0])
    # locals through the real ModuleLocals::add
    ladd = I.method('add', 'ModuleLocals')
    m = I.read_ref(st, mref)
    locals_ref = pipeline_field(mref, m, 'locals')
    lids = []
    for ty in LOCALS:
        r = []
        I.run(ladd, [locals_ref, Enum('ValType', ty.upper())], st, lambda s, v: r.append(v))
        lids.append(r[0])
    types_ref = pipeline_field(mref, m, 'types')
    fbnew = I.method('new', impl_ty='FunctionBuilder', nparams=3)
    params_ref = I.halloc(st, VecVal([Enum('ValType', LOCALS[p].upper()) for p in params]))
    results = I.halloc(st, VecVal([]))
    r = []
    I.run(fbnew, [types_ref, params_ref, results], st, lambda s, v: r.append(v))
    fbref = I.halloc(st, r[0])
    body = []
    I.run(I.method('func_body', 'FunctionBuilder'), [fbref], st, lambda s, v: body.append(v))
    bref = I.halloc(st, body[0])
    B = Build(I, st, strategy, lids)
    done = []
    B.fill(st, bref, 'entry', nodes, lambda s: done.append(s), 0)
    if len(done) != 1:
        raise Inconclusive('builder script forked into %d paths' % len(done))
    st = done[0]
    fin = I.method('finish', impl_ty='FunctionBuilder')
    funcs_ref = pipeline_field(mref, I.read_ref(st, mref), 'funcs')
    fid = []
    I.run(fin, [I.read_ref(st, fbref), VecVal([lids[p] for p in params]), funcs_ref], st, lambda s, v: fid.append(v))
    if fid[0] is PANIC:
        raise Inconclusive('finish panicked')
    # export it (keeps it alive and makes the module meaningful)
    exp_add = I.method('add', 'ModuleExports')
    exports_ref = pipeline_field(mref, I.read_ref(st, mref), 'exports')
    I.run(exp_add, [exports_ref, S('f'), fid[0]], st, lambda s, v: None)
    outs = P.run_emit(st, None, mref=mref)
    expected = flatten(nodes, ['entry'], None) + [OP('End')]
    return I, P, outs, expected


def pipeline_field(mref, m, name):
    return Ref(mref.key, mref.path + (('field', m.names.index(name)),))


def run_case(ctx, report, tree_name, nodes, strategy, table, timeout_ms, params=(0,)):
    ob = common.Obligation('O15:%s/%s' % (tree_name, strategy), 'tree `%s` built with strategy `%s`: the emitted body is exactly the in-order flattening (same instructions, nesting, branch depths), parameter at slot 0, one slot of the right type per used local' % (tree_name, strategy))
    try:
        I, P, outs, expected = build_and_emit(ctx, tree_name, nodes, strategy, params)
        vios = []
        n = 0
        for s2, rec, _m in outs:
            if rec is PANIC:
                vios.append({'key': 'emit.panic', 'what': 'emit of the built function panics: %r' % (pc.pipeline_panic_events(s2)[:2],)})
                continue
            n += 1
            OUT = modcmp.out_module(rec)
            if len(OUT['code']) != 1:
                vios.append({'key': 'code.count', 'what': '%d bodies emitted for one built function' % len(OUT['code'])})
                continue
            C = modcmp.Cmp()
            pi = {k: {} for k in ('type', 'func', 'table', 'memory', 'global', 'element', 'data')}
            Bc = bodycmp.BodyCmp(table, pi, C)
            Bc.strict = True
            body = OUT['code'][0]
            Bc.compare(tree_name, expected, body['instrs'], [])
            out_decl = []
            for cnt, vt in body['locals']:
                out_decl += [vt] * cnt
            np_ = len(params)
            for li, lo in Bc.local_map.items():
                if li in params:
                    if lo != list(params).index(li):
                        C.bad.append(('body.local', 'parameter #%d (local %d) is emitted in slot %d' % (list(params).index(li), li, lo)))
                elif lo < np_ or lo - np_ >= len(out_decl) or out_decl[lo - np_] != LOCALS[li]:
                    C.bad.append(('body.local', 'local %d (%s) emitted in slot %d of %r (%d parameters)' % (li, LOCALS[li], lo, body['locals'], np_)))
            used = set(Bc.local_map) - set(params)
            if len(out_decl) != len(used):
                C.bad.append(('body.local', '%d local slots declared for %d used non-parameter locals' % (len(out_decl), len(used))))
            for key, what in C.bad:
                vios.append({'key': key, 'what': '[%s/%s] %s' % (tree_name, strategy, what)})
            for key, what, cond in C.todo:
                sol = z3.Solver()
                sol.add(*s2.pc)
                sol.add(cond)
                report.queries += 1
                if sol.check() == z3.sat:
                    vios.append({'key': key, 'what': '[%s/%s] %s differs' % (tree_name, strategy, what)})
        ob.detail = '%d emit paths, %d expected operators' % (n, len(expected))
        c14.finish(ob, report, vios, n)
    except Inconclusive as ex:
        ob.status, ob.detail = 'inconclusive', str(ex)[:400]
    except modcmp.Mismatch as ex:
        ob.status, ob.detail = 'inconclusive', 'output record not understood: ' + str(ex)[:300]
    report.add(ob)


def run(tier, seed, only=None):
    report = common.Report('C15', tier, seed)
    ctx = common.Ctx()
    timeout_ms = 60000 if tier == 'quick' else 600000
    table = witness.load_table()

    items = []
    for tname, nodes in trees().items():
        for strategy in ('append', 'reverse', 'middle', 'dangling'):
            items.append(('%s/%s' % (tname, strategy), tname, nodes, strategy, (0,)))
    # parameters given to finish() in an order that is not the allocation order, and a scratch local allocated
    # before the parameters (the situation replace_imported_func creates)
    for pname in ('params-desc', 'scratch-before-params'):
        items.append(('locals/' + pname, 'locals@' + pname, trees()['locals'], 'append', tuple(PARAMS[pname])))
    ngen = 40 if tier == 'quick' else 400
    for k in range(ngen):
        sd = seed * 1000 + k
        nodes = gen_tree(sd)
        strategy = ('append', 'reverse', 'middle', 'dangling')[k % 4]
        pn = ('default', 'default', 'params-desc', 'scratch-before-params')[(k // 4) % 4]
        items.append(('gen%d/%s/%s' % (sd, strategy, pn), 'gen%d@%s' % (sd, pn), nodes, strategy, tuple(PARAMS[pn])))
    items = [i for i in items if not only or i[0] in only]

    def job(ctx, report, _name, tname, nodes, strategy, params):
        run_case(ctx, report, tname, nodes, strategy, table, timeout_ms, params=params)
    pc.run_parallel(ctx, report, job, items)
    report.bounds = {'generated trees': '%d drawn trees (VERIF_SEED; depth <= 3, up to 5 groups per sequence: const/drop, local get/set, br_if / br to any enclosing construct incl. the function body, block, loop, if/else, typed block, dead tails), strategies and parameter orders rotated' % ngen, 'trees': '7 shapes (orphan-seq: filled dangling sequences that are never attached name locals nothing else uses; flat, nested block/loop with branches to three enclosing constructs incl. the function body, if/else with branches, typed block and if, five used locals of three types plus the parameter, dead tails)',
                     'insertion orders': 'append; every instruction inserted at position 0 in reverse; first+last appended then the middle inserted at final positions (the *_at methods); dangling sequences filled then attached with instr(Block/Loop/IfElse)',
                     'constants': 'symbolic'}
    report.assumptions = ['the module starts from the real Module::default(); types/locals/exports are added through the real APIs', 'well-typedness of the built tree is by construction of the shapes (no validator run)']
    report.samples = [o.as_json() for o in report.obligations[:4]]
    return report, ctx
