"""Generator of module descriptions for the thorough tiers.

`gen_module(seed)` draws the STRUCTURE of a module (how many entities of which kind, which refers to which, which are
exported / roots / garbage, the control shape of the bodies) from a seeded PRNG; every attribute, constant, offset, name
and payload stays a solver variable, so each drawn description still stands for all of its instantiations.  The
descriptions are valid by construction and, because the interpretation assumes "the validator says Ok", each one is also
validated natively (two instantiations) before it is used - an invalid one is skipped and counted, never used.

The draw is only a way to spread structure beyond the hand-written scenarios; what is decided per description is decided
by the solver over all contents, as everywhere else."""
import random

import z3

from mirsmt.values import *
from mirsmt.pipeline import Spec, S
from obligations import scen
from obligations.scen import OP, u32, heap

VT = ['i32', 'i64', 'f32', 'f64']
BT_EMPTY = Enum('wasmparser::BlockType', 'Empty')


def const_of(ty, name):
    if ty == 'i32':
        return OP('I32Const', value=sym(name, 'i32'))
    if ty == 'i64':
        return OP('I64Const', value=sym(name, 'i64'))
    if ty == 'f32':
        return OP('F32Const', value=scen.ieee32(sym(name, 'u32')))
    if ty == 'f64':
        return OP('F64Const', value=scen.ieee64(sym(name, 'u64')))
    if ty in ('funcref', 'externref'):
        return OP('RefNull', hty=heap(ty))
    raise ValueError(ty)


class G:
    def __init__(self, seed, size=2):
        self.r = random.Random(seed)
        self.size = size
        self.n = 0

    def fresh(self, p):
        self.n += 1
        return '%s%d' % (p, self.n)

    def chance(self, p):
        return self.r.random() < p


def gen_module(seed, size=2):
    g = G(seed, size)
    r = g.r
    sp = Spec()
    # ---- types: 0 = []->[] and 1 = [i32]->[i32] always exist (start function, call_indirect)
    sp.types = [([], []), (['i32'], ['i32'])]
    for _ in range(r.randint(0, 2 + size)):
        sig = ([r.choice(VT) for _ in range(r.randint(0, 3))], [r.choice(VT) for _ in range(r.randint(0, 2))])
        if sig not in sp.types:             # walrus de-duplicates equal signatures; keep the description duplicate-free
            sp.types.append(sig)
    nty = len(sp.types)
    # ---- imports
    sp.imports = []
    kinds = []
    for _ in range(r.randint(0, 2 + size)):
        kinds.append(r.choice(['func', 'func', 'global', 'global', 'table', 'memory']))
    have_mem_imp = False
    for k, kind in enumerate(kinds):
        nm = 'i%d' % k
        d = dict(module=S('env%d' % r.randint(0, 1)), name=S('imp%d' % k), kind=kind)
        if kind == 'func':
            d['type'] = r.randrange(nty)
        elif kind == 'global':
            ty = r.choice(VT + ['externref'])
            d.update(scen.glob(nm, ty, mutable=r.choice([False, False, True, None]) if ty != 'externref' else False))
        elif kind == 'table':
            d.update(scen.table(nm, r.choice(['funcref', 'funcref', 'externref']), t64=False, maximum=g.chance(0.5)))
        else:
            if have_mem_imp and g.chance(0.5):
                continue
            have_mem_imp = True
            mx = g.chance(0.6)
            d.update(scen.mem(nm, m64=False, maximum=mx, shared=(None if mx and g.chance(0.3) else False)))
        sp.imports.append(d)
    imp = {k: [i for i in sp.imports if i['kind'] == k] for k in ('func', 'table', 'memory', 'global')}
    # ---- local entities (declared first, bodies later)
    nfun = r.randint(2, 3 + size)
    ftypes = [0] + [r.randrange(nty) for _ in range(nfun - 1)]
    sp.tables = [scen.table('t%d' % k, r.choice(['funcref', 'funcref', 'externref']), t64=False, maximum=g.chance(0.5)) for k in range(r.randint(0, 2))]
    sp.memories = []
    for k in range(r.randint(0, 2)):
        mx = g.chance(0.6)
        sp.memories.append(scen.mem('m%d' % k, m64=False, maximum=mx, shared=(None if mx and g.chance(0.3) else False)))
    all_funcs = [i['type'] for i in imp['func']] + ftypes                  # type per function index
    all_tables = [t['element_type'] for t in imp['table']] + [t['element_type'] for t in sp.tables]
    nmem = len(imp['memory']) + len(sp.memories)
    imm_imp_globals = [(k, gl['ty']) for k, gl in enumerate(imp['global']) if z3.is_false(gl['mutable'])]
    ref_funcs = set()                                                      # functions named by ref.func anywhere
    # globals
    sp.globals = []
    for k in range(r.randint(0, 2 + size)):
        ty = r.choice(VT + ['funcref', 'externref'])
        cands = [i for i, t in imm_imp_globals if t == ty]
        if cands and g.chance(0.4):
            init = OP('GlobalGet', global_index=u32(r.choice(cands)))
        elif ty == 'funcref' and g.chance(0.6):
            f = r.randrange(len(all_funcs))
            ref_funcs.add(f)
            init = OP('RefFunc', function_index=u32(f))
        else:
            init = const_of(ty, 'g%d_init' % k)
        sp.globals.append(scen.glob('g%d' % k, ty, init, mutable=r.choice([True, False, None])))
    all_globals = [(gl['ty'], gl['mutable']) for gl in imp['global']] + [(gl['ty'], gl['mutable']) for gl in sp.globals]
    i32_imm = [i for i, t in imm_imp_globals if t == 'i32']

    def offset_expr(name):
        if i32_imm and g.chance(0.3):
            return OP('GlobalGet', global_index=u32(r.choice(i32_imm)))
        return OP('I32Const', value=sym(name, 'i32'))
    # ---- element segments
    sp.elements = []
    func_tables = [i for i, t in enumerate(all_tables) if t == 'funcref']
    ext_tables = [i for i, t in enumerate(all_tables) if t == 'externref']
    ext_imm = [i for i, t in imm_imp_globals if t == 'externref']
    for k in range(r.randint(0, 2 + size)):
        mode = r.choice(['active', 'active', 'passive', 'declared'])
        form = r.choice(['funcs', 'funcs', 'fexprs', 'xexprs'])
        if form == 'xexprs' and mode == 'declared':
            form = 'fexprs'
        if mode == 'active':
            tabs = ext_tables if form == 'xexprs' else func_tables
            if not tabs:
                mode = 'passive'
        if form == 'funcs':
            fs = [r.randrange(len(all_funcs)) for _ in range(r.randint(0, 3))]
            items = ('funcs', [u32(f) for f in fs])
        elif form == 'fexprs':
            ex = []
            for _ in range(r.randint(0, 3)):
                if g.chance(0.7):
                    f = r.randrange(len(all_funcs))
                    ex.append(OP('RefFunc', function_index=u32(f)))
                else:
                    ex.append(OP('RefNull', hty=heap('funcref')))
            items = ('exprs', 'funcref', ex)
        else:
            ex = []
            for _ in range(r.randint(0, 3)):
                if ext_imm and g.chance(0.6):
                    ex.append(OP('GlobalGet', global_index=u32(r.choice(ext_imm))))
                else:
                    ex.append(OP('RefNull', hty=heap('externref')))
            items = ('exprs', 'externref', ex)
        d = dict(mode=mode, items=items)
        if mode == 'active':
            t = r.choice(tabs)
            # the implicit-table encoding exists only for table 0 with function-index items
            d['table'] = None if (t == 0 and form == 'funcs' and g.chance(0.7)) else u32(t)
            d['offset'] = offset_expr('e%d_off' % k)
        sp.elements.append(d)
    # ---- data segments
    sp.data = []
    for k in range(r.randint(0, 1 + size)):
        if nmem and g.chance(0.6):
            sp.data.append(dict(mode='active', memory=u32(r.randrange(nmem)), offset=offset_expr('d%d_off' % k), data=Opaque('bytes:d%d' % k)))
        else:
            sp.data.append(dict(mode='passive', data=Opaque('bytes:d%d' % k)))
    # ---- bodies
    uses_data_ops = [False]
    fres = [False]          # the function being generated has results (its label cannot be branched to with an empty stack)

    def args_for(tyidx, pfx):
        return [const_of(t, g.fresh(pfx)) for t in sp.types[tyidx][0]]

    def drops(n):
        return [OP('Drop')] * n

    def snippet(pfx, k, params, locs, depth):
        """one stack-neutral group of operators"""
        choice = r.randrange(16)
        if choice == 0 or (choice in (9, 10) and depth >= 2):
            return [OP('I32Const', value=sym(g.fresh(pfx + 'c'), 'i32')), OP('Drop')]
        if choice == 1:
            f = r.randrange(len(all_funcs))
            return args_for(all_funcs[f], pfx + 'a') + [OP('Call', function_index=u32(f))] + drops(len(sp.types[all_funcs[f]][1]))
        if choice == 2 and func_tables:
            t = r.randrange(nty)
            return args_for(t, pfx + 'a') + [OP('I32Const', value=sym(g.fresh(pfx + 'i'), 'i32')), OP('CallIndirect', type_index=u32(t), table_index=u32(r.choice(func_tables)))] + drops(len(sp.types[t][1]))
        if choice == 3 and all_globals:
            return [OP('GlobalGet', global_index=u32(r.randrange(len(all_globals)))), OP('Drop')]
        if choice == 4:
            muts = [i for i, (t, m) in enumerate(all_globals) if z3.is_true(m)]
            if muts:
                i = r.choice(muts)
                return [const_of(all_globals[i][0], g.fresh(pfx + 'v')), OP('GlobalSet', global_index=u32(i))]
        if choice == 5 and all_tables:
            t = r.randrange(len(all_tables))
            if g.chance(0.5):
                return [OP('TableSize', table=u32(t)), OP('Drop')]
            return [OP('I32Const', value=sym(g.fresh(pfx + 'i'), 'i32')), OP('TableGet', table=u32(t)), OP('Drop')]
        if choice == 6 and nmem:
            m = r.randrange(nmem)
            if g.chance(0.5):
                return [OP('MemorySize', mem=u32(m)), OP('Drop')]
            return [OP('I32Const', value=sym(g.fresh(pfx + 'p'), 'i32')), OP('I32Load', memarg=scen.memarg(g.fresh(pfx + 'ma'), mem=m, max_align=2)), OP('Drop')]
        if choice == 7:
            f = r.randrange(len(all_funcs))
            ref_funcs.add(f)
            return [OP('RefFunc', function_index=u32(f)), OP('Drop')]
        if choice == 8:
            pas = [i for i, d in enumerate(sp.data)]
            if pas and nmem and g.chance(0.6):
                uses_data_ops[0] = True
                i = r.choice(pas)
                if g.chance(0.5):
                    return [OP('DataDrop', data_index=u32(i))]
                return [OP('I32Const', value=bv(0, 'i32'))] * 3 + [OP('MemoryInit', data_index=u32(i), mem=u32(r.randrange(nmem)))]
            els = [i for i, e in enumerate(sp.elements)]
            if els:
                i = r.choice(els)
                ety = 'funcref' if sp.elements[i]['items'][0] == 'funcs' else sp.elements[i]['items'][1]
                tabs = [t for t, ty in enumerate(all_tables) if ty == ety]
                if tabs and g.chance(0.5):
                    return [OP('I32Const', value=bv(0, 'i32'))] * 3 + [OP('TableInit', elem_index=u32(i), table=u32(r.choice(tabs)))]
                return [OP('ElemDrop', elem_index=u32(i))]
        if choice == 9:
            kind = r.choice(['Block', 'Loop'])
            inner = body_seq(pfx, k, params, locs, depth + 1, r.randint(0, 2))
            if g.chance(0.3):
                inner += [OP('Br', relative_depth=u32(r.randint(0, depth + (0 if fres[0] else 1)))), OP('I32Const', value=sym(g.fresh(pfx + 'dead'), 'i32')), OP('Drop')]
            return [OP(kind, blockty=BT_EMPTY)] + inner + [OP('End')]
        if choice == 10:
            a = body_seq(pfx, k, params, locs, depth + 1, r.randint(0, 2))
            out = [OP('I32Const', value=sym(g.fresh(pfx + 'cond'), 'i32')), OP('If', blockty=BT_EMPTY)] + a
            if g.chance(0.6):
                out += [OP('Else')] + body_seq(pfx, k, params, locs, depth + 1, r.randint(0, 2))
            return out + [OP('End')]
        if choice == 11 and (params or locs):
            allv = list(enumerate(params + locs))
            i, t = r.choice(allv)
            if g.chance(0.5) or t in ('funcref', 'externref'):
                return [OP('LocalGet', local_index=u32(i)), OP('Drop')]
            return [const_of(t, g.fresh(pfx + 'l')), OP('LocalSet', local_index=u32(i))]
        if choice == 12:
            return [OP('Nop')]
        if choice == 13 and depth > 0:
            return [OP('I32Const', value=sym(g.fresh(pfx + 'bc'), 'i32')), OP('BrIf', relative_depth=u32(r.randint(0, depth - (1 if fres[0] else 0))))]
        return [OP('I32Const', value=sym(g.fresh(pfx + 'c'), 'i32')), OP('Drop')]

    def body_seq(pfx, k, params, locs, depth, n):
        out = []
        for _ in range(n):
            out += snippet(pfx, k, params, locs, depth)
        return out
    sp.funcs = []
    sp.func_tags = []
    for k in range(nfun):
        params = list(sp.types[ftypes[k]][0])
        results = list(sp.types[ftypes[k]][1])
        decl = []
        for _ in range(r.randint(0, 2)):
            decl.append((r.randint(1, 2), r.choice(VT)))
        locs = []
        for c, t in decl:
            locs += [t] * c
        pfx = 'f%d_' % k
        fres[0] = bool(results)
        ops = body_seq(pfx, k, params, locs, 0, r.randint(1, 2 + size))
        if g.chance(0.3):
            # an early return: the rest of the body is dead code (still valid, may mention entities)
            dead = body_seq(pfx, k, params, locs, 1, r.randint(1, 3))
            if g.chance(0.6):
                # a block nested in dead code: the parser never attaches it to the body
                dead = [OP('Block', blockty=BT_EMPTY)] + dead + [OP('End')]
            else:
                dead = body_seq(pfx, k, params, locs, 0, 1)
            ops += [const_of(t, g.fresh(pfx + 'r')) for t in results] + [OP('Return')] + dead
            ops += [OP('Unreachable')] if results else []
        else:
            ops += [const_of(t, g.fresh(pfx + 'r')) for t in results]
        tag = 'f%d_tag' % k
        f = dict(type=ftypes[k], ops=scen.tagged_body(tag, 0, ops))
        if decl:
            f['locals'] = decl
        sp.funcs.append(f)
        sp.func_tags.append(tag)
    # input byte positions (as walrus keys them): consecutive entries, one byte per operator, two bytes of size LEB
    pos = 1000
    for f in sp.funcs:
        f['start'] = usize(pos)
        pos += 1 + 2 * len(f.get('locals', [])) + len(f['ops']) + 2
    sp.code_start = usize(997)
    nfi = len(imp['func'])
    # ---- exports, start
    sp.exports = []
    spaces = [('Func', len(all_funcs)), ('Table', len(all_tables)), ('Memory', nmem), ('Global', len(all_globals))]
    for k in range(r.randint(1, 3 + size)):
        kind, n = r.choice(spaces)
        if n == 0:
            kind, n = 'Func', len(all_funcs)
        sp.exports.append(dict(name=S('ex%d' % k), kind=kind, index=u32(r.randrange(n))))
    sp.start = u32(nfi) if g.chance(0.4) else None          # local function 0 has type [] -> []
    # ---- ref.func needs a declaration: exported, in an element segment, or in a global initialiser
    declared = set(conc(e['index']) for e in sp.exports if e['kind'] == 'Func')
    for e in sp.elements:
        if e['items'][0] == 'funcs':
            declared |= set(conc(x) for x in e['items'][1])
        else:
            declared |= set(conc(x.f[0]) for x in e['items'][2] if x.variant == 'RefFunc')
    for gl in sp.globals:
        if gl['init'].variant == 'RefFunc':
            declared.add(conc(gl['init'].f[0]))
    missing = sorted(ref_funcs - declared)
    if missing:
        sp.elements.append(dict(mode='declared', items=('funcs', [u32(f) for f in missing])))
    # ---- data count
    if uses_data_ops[0] or (sp.data and g.chance(0.5)):
        sp.data_count = u32(len(sp.data))
    else:
        sp.data_count = None
    sp.gen_seed = seed
    return sp


def valid_generated(seeds, size=2, log=None):
    """[(seed, spec)] for the seeds whose description passes the real validator in two instantiations"""
    import json
    import os
    from mirsmt import common, witness, replay
    from mirsmt.pipeline import validity
    table = witness.load_table()
    out = []
    skipped = []
    os.makedirs(os.path.join(common.BUILD, 'scripts'), exist_ok=True)
    for seed in seeds:
        try:
            spec = gen_module(seed, size)
        except Exception as ex:      # noqa
            skipped.append((seed, 'generator: ' + str(ex)[:100]))
            continue
        pre = validity(spec)
        s = z3.Solver()
        s.add(*pre)
        s.check()
        models = [s.model()]
        o = z3.Optimize()
        o.add(*pre)
        for e in list(spec.memories) + list(spec.tables) + list(spec.globals) + [i for i in spec.imports if i['kind'] != 'func']:
            for k in ('shared', 'mutable'):
                b = e.get(k)
                if isinstance(b, z3.BoolRef) and not (z3.is_true(b) or z3.is_false(b)):
                    o.add_soft(b)
        if o.check() == z3.sat:
            models.append(o.model())
        ok = True
        why = None
        for m in models:
            J = witness.spec_json(spec, m, table)
            p = os.path.join(common.BUILD, 'scripts', 'gen-%d.json' % os.getpid())
            json.dump({'spec': J, 'steps': [], 'config': {}}, open(p, 'w'))
            rr = replay.run_vreplay(['script', p], 'debug')
            os.remove(p)
            inp = rr.get('input') or {}
            if not inp.get('valid'):
                ok = False
                why = inp.get('validation_error') or rr.get('error')
                break
        if ok:
            out.append((seed, spec))
        else:
            skipped.append((seed, str(why)[:140]))
    if log is not None:
        log.extend(skipped)
    return out


def with_names(spec, seed):
    """attach a name section: a random subset of the entities of every index space gets a distinct name"""
    r = random.Random(seed * 7919 + 1)
    nimp = {k: sum(1 for i in spec.imports if i['kind'] == k) for k in ('func', 'table', 'memory', 'global')}
    spaces = {'functions': nimp['func'] + len(spec.funcs), 'types': len(spec.types), 'tables': nimp['table'] + len(spec.tables), 'memories': nimp['memory'] + len(spec.memories),
              'globals': nimp['global'] + len(spec.globals), 'elements': len(spec.elements), 'data': len(spec.data)}
    names = {}
    if r.random() < 0.7:
        names['module'] = S('mod_name')
    for sub, n in spaces.items():
        m = {i: S('n_%s_%d' % (sub[:4], i)) for i in range(n) if r.random() < 0.6}
        if m:
            names[sub] = m
    loc = {}
    for k, f in enumerate(spec.funcs):
        nparams = len(spec.types[f['type']][0])
        nloc = nparams + sum(c for c, _ in f.get('locals', []))
        m = {i: S('l_%d_%d' % (k, i)) for i in range(nloc) if r.random() < 0.6}
        if m:
            loc[nimp['func'] + k] = m
    if loc:
        names['locals'] = loc
    spec.names = names
    return spec


def with_customs(spec, seed):
    from mirsmt.pipeline import symstr
    r = random.Random(seed * 104729 + 3)
    spec.customs = []
    for k in range(r.randint(1, 5)):
        nm = symstr('c%d_name' % k) if r.random() < 0.4 else S(r.choice(['hello', 'hello', 'meta', 'debug_not_dot', 'x']))
        spec.customs.append(dict(name=nm, data=Opaque('bytes:c%d' % k), place=r.choice(['start', 'before-code', 'end', 'end'])))
    # the list is kept in binary order (the order in which the sections occur in the module)
    spec.customs.sort(key=lambda c: ['start', 'before-code', 'end'].index(c['place']))
    return spec


_CACHE = {}


def generated(tier, seed, n_quick=8, n_thorough=96, log=None, prefer_small=False):
    """[(name, spec)]: the drawn descriptions of this run (quick: a few chosen by VERIF_SEED; thorough: many, two sizes).
    prefer_small (layout-heavy checks, quick tier): of 4 x n_quick draws the n_quick with the fewest operators are used"""
    key = (tier, seed, n_quick, n_thorough, prefer_small)
    if key not in _CACHE:
        skipped = []
        if tier == 'quick' and prefer_small:
            seeds2 = [seed * 1000 + k for k in range(4 * n_quick)]
            cands = valid_generated(seeds2, 2, skipped)
            cands.sort(key=lambda x: (sum(len(f['ops']) for f in x[1].funcs), x[0]))
            out = [('gen/seed%d' % s, sp) for s, sp in cands[:n_quick]]
        elif tier == 'quick':
            seeds2 = [seed * 1000 + k for k in range(n_quick)]
            out = [('gen/seed%d' % s, sp) for s, sp in valid_generated(seeds2, 2, skipped)]
        else:
            seeds2 = [seed * 1000 + k for k in range(n_thorough * 2 // 3)]
            seeds3 = [seed * 1000 + 500 + k for k in range(n_thorough // 3)]
            out = [('gen/seed%d' % s, sp) for s, sp in valid_generated(seeds2, 2, skipped)] + [('gen3/seed%d' % s, sp) for s, sp in valid_generated(seeds3, 3, skipped)]
        _CACHE[key] = (out, skipped)
    out, skipped = _CACHE[key]
    if log is not None:
        log.extend(skipped)
    return out


def bounds_text(tier, n):
    return ('%d drawn descriptions (obligations/gen.py: 2-6 types, 0-5 imports of the four kinds, 2-6 local functions with stack-neutral groups of call / call_indirect / '
            'global.get/set / table.get/size / memory.size / i32.load / ref.func / memory.init / data.drop / table.init / elem.drop / block / loop / if[/else] / br / br_if / local.get/set / nop / early return with dead code, '
            '0-2 tables and memories, 0-5 globals with const / global.get / ref.func initialisers, 1-6 exports, optional start, 0-5 element segments in every mode and item form, 0-4 data segments, data count optional), '
            'each validated natively in two instantiations; structure drawn by VERIF_SEED (%s tier), all contents symbolic' % (n, tier))
