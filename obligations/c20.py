"""C20 - the round trip never escalates the features a module needs.

A reference function (written from the proposals' texts) maps a module - description or recorded output - to the set of
post-MVP proposals it needs, each as a condition over the symbolic attributes; the solver shows
need_out(f) => need_in(f) for every proposal f."""
import z3

from mirsmt import common, engine, modcmp, witness, pipeline
from mirsmt.pipeline import S, Spec
from mirsmt.values import *
from obligations import scen, pipecommon as pc, c14
from obligations.scen import OP, u32
from obligations.c01 import BT_EMPTY, BT_TYPE, BT_FUNC

FEATS = ['bulk_memory', 'reference_types', 'multi_value', 'multi_memory', 'memory64', 'threads', 'mutable_global', 'sign_extension',
         'saturating_float_to_int', 'simd', 'relaxed_simd', 'tail_call', 'shared_everything_threads', 'custom_page_sizes']


def B(x):
    if isinstance(x, z3.BoolRef):
        return x
    return z3.BoolVal(bool(x))


class Need:
    def __init__(self):
        self.c = {f: [] for f in FEATS}

    def add(self, f, cond=True):
        self.c[f].append(B(cond))

    def cond(self, f):
        return z3.Or(*self.c[f]) if self.c[f] else z3.BoolVal(False)


def need_of(N, ops_of, op_props, types):
    """N: normalised module (modcmp format); ops_of: list of (name, fields...) per body giving (proposal, memory idx terms, table idx, blocktype)"""
    nd = Need()
    for sig in N['types']:
        if len(sig[1]) > 1:
            nd.add('multi_value')
    nmem = len(N['memories']) + sum(1 for i in N['imports'] if i['kind'] == 'memory')
    ntab = len(N['tables']) + sum(1 for i in N['imports'] if i['kind'] == 'table')
    if nmem > 1:
        nd.add('multi_memory')
    if ntab > 1:
        nd.add('reference_types')
    for m in N['memories'] + [i for i in N['imports'] if i['kind'] == 'memory']:
        nd.add('memory64', m['memory64'])
        nd.add('threads', m['shared'])
    for t in N['tables'] + [i for i in N['imports'] if i['kind'] == 'table']:
        nd.add('memory64', t['table64'])
        if t['element_type'] != 'funcref':
            nd.add('reference_types')
    for m in N['memories'] + [i for i in N['imports'] if i['kind'] == 'memory']:
        if m.get('page_size_log2') is not None:
            nd.add('custom_page_sizes')
    for g in N['globals'] + [i for i in N['imports'] if i['kind'] == 'global']:
        if g.get('shared') is not None:
            nd.add('shared_everything_threads', g['shared'])
    for t in N['tables'] + [i for i in N['imports'] if i['kind'] == 'table']:
        if t.get('shared') is not None:
            nd.add('shared_everything_threads', t['shared'])
    for g in [i for i in N['imports'] if i['kind'] == 'global']:
        nd.add('mutable_global', g['mutable'])
        if g['ty'] in ('funcref', 'externref'):
            nd.add('reference_types')
        if g['ty'] == 'v128':
            nd.add('simd')
    ng_imp = sum(1 for i in N['imports'] if i['kind'] == 'global')
    for e in N['exports']:
        if e['kind'].lower() == 'global' and e['index'] >= ng_imp:
            nd.add('mutable_global', N['globals'][e['index'] - ng_imp]['mutable'])
    for g in N['globals']:
        if g['ty'] in ('funcref', 'externref') or g['init'][0] in ('ref_null', 'ref_func'):
            nd.add('reference_types')
        if g['ty'] == 'v128':
            nd.add('simd')
    if N['data_count'] is not None:
        nd.add('bulk_memory')
    for d in N['data']:
        if d['mode'] == 'passive':
            nd.add('bulk_memory')
        elif d['memory'] != 0:
            nd.add('multi_memory')
    for e in N['elements']:
        if e['mode'] in ('passive', 'declared'):
            nd.add('bulk_memory')
        if e['mode'] == 'active' and e['table'] is not None:
            nd.add('reference_types')          # explicit table index encoding
        if e['items'][0] == 'exprs':
            nd.add('reference_types')
    for body in ops_of:
        for (name, prop, mems, tabs, bt) in body:
            if prop in nd.c and prop != 'mvp':
                nd.add(prop)
            for m in mems:
                if m != 0:
                    nd.add('multi_memory')
            for t in tabs:
                if t != 0:
                    nd.add('reference_types')
            if bt is not None and bt[0] == 'functype':
                nd.add('multi_value')
    return nd


def in_ops(spec, table):
    from mirsmt import bodycmp
    out = []
    for f in spec.funcs:
        body = []
        for op, live, _d, _o in bodycmp.liveness(f['ops']):
            if not live or op.variant == 'Nop':
                continue      # dead code is not emitted and cannot be held against the output
            ents = table.get(op.variant) or [{}]
            prop = ents[0].get('proposal', 'mvp')
            mems, tabs, bt = [], [], None
            for n, x in zip(op.names or (), op.f):
                if isinstance(x, Struct) and x.ty.endswith('MemArg'):
                    mems.append(conc(x.get('memory')))
                elif n in ('mem', 'src_mem', 'dst_mem'):
                    mems.append(conc(x))
                elif n in ('table', 'table_index', 'src_table', 'dst_table'):
                    tabs.append(conc(x))
                elif isinstance(x, Enum) and x.ty.endswith('BlockType'):
                    bt = ({'Empty': 'empty', 'Type': 'result', 'FuncType': 'functype'}[x.variant],)
            body.append((op.variant, prop, mems, tabs, bt))
        out.append(body)
    return out


def out_ops(OUT, table):
    by_instr = {}
    for op, ents in table.items():
        for e in ents:
            by_instr.setdefault(e['instruction'].split('#')[0], e)
    res = []
    for b in OUT['code']:
        body = []
        for ins in b['instrs']:
            name = ins.variant if isinstance(ins, Enum) else repr(ins)
            e = by_instr.get(name, {})
            prop = e.get('proposal', 'mvp')
            mems, tabs, bt = [], [], None
            names = ins.names or [str(i) for i in range(len(ins.f))] if isinstance(ins, Enum) else []
            for n, x in zip(names, getattr(ins, 'f', ())):
                if isinstance(x, Struct) and x.ty.endswith('MemArg'):
                    mems.append(conc(x.get('memory_index')))
                elif n in ('mem', 'src_mem', 'dst_mem') or (name in ('MemorySize', 'MemoryGrow', 'MemoryFill') and isinstance(x, BV)):
                    mems.append(conc(x))
                elif n in ('table', 'table_index', 'src_table', 'dst_table'):
                    tabs.append(conc(x))
                elif isinstance(x, Enum) and x.ty.endswith('BlockType'):
                    bt = ({'Empty': 'empty', 'Result': 'result', 'FunctionType': 'functype'}[x.variant],)
            body.append((name, prop, mems, tabs, bt))
        res.append(body)
    return res


def mvp_spec(kind):
    sp = Spec()
    sp.types = [([], []), (['i32'], ['i32']), ([], ['i32'])]
    sp.imports = [dict(module=S('e'), name=S('f'), kind='func', type=1), dict(module=S('e'), name=S('g'), kind='global', **scen.glob('ig', 'i32', mutable=False))]
    ma = Struct('wasmparser::MemArg', (bv(2, 'u8'), bv(2, 'u8'), sym('off', 'u64'), u32(0)), ('align', 'max_align', 'offset', 'memory'))
    body = [OP('Block', blockty=BT_EMPTY), OP('I32Const', value=sym('a', 'i32')), OP('BrIf', relative_depth=u32(0)), OP('End'),
            OP('Block', blockty=BT_TYPE('i32')), OP('I32Const', value=sym('b', 'i32')), OP('End'), OP('Drop'),
            OP('Block', blockty=BT_FUNC(0)), OP('End'), OP('Block', blockty=BT_FUNC(2)), OP('I32Const', value=sym('c', 'i32')), OP('End'), OP('Drop'),
            OP('I32Const', value=sym('d', 'i32')), OP('I32Load', memarg=ma), OP('Drop'), OP('MemorySize', mem=u32(0)), OP('Drop'),
            OP('I32Const', value=sym('e', 'i32')), OP('I32Const', value=sym('f', 'i32')), OP('CallIndirect', type_index=u32(1), table_index=u32(0)), OP('Drop'),
            OP('GlobalGet', global_index=u32(1)), OP('Drop')]
    if kind == 'bulk':
        body += [OP('I32Const', value=bv(0, 'i32')), OP('I32Const', value=bv(0, 'i32')), OP('I32Const', value=bv(0, 'i32')), OP('MemoryInit', data_index=u32(1), mem=u32(0))]
    if kind == 'unused-bulk-in-dead-code':
        body += [OP('Return'), OP('MemoryFill', mem=u32(0))]      # (data.drop would need a data count section even in dead code)
    sp.funcs = [dict(type=0, ops=scen.tagged_body('f0', 0, body)), dict(type=1, ops=scen.tagged_body('f1', 1, [OP('LocalGet', local_index=u32(0))]))]
    sp.func_tags = ['f0', 'f1']
    sp.tables = [scen.table('t', t64=False)]
    sp.memories = [scen.mem('m', m64=False, shared=False)]
    sp.globals = [scen.glob('g', 'i32', OP('I32Const', value=sym('gi', 'i32')), mutable=False)]
    sp.exports = [dict(name=S('run'), kind='Func', index=u32(1)), dict(name=S('mem'), kind='Memory', index=u32(0)), dict(name=S('g'), kind='Global', index=u32(1))]
    sp.start = u32(1)
    sp.elements = [dict(mode='active', table=None, offset=OP('I32Const', value=sym('eo', 'i32')), items=('funcs', [u32(2), u32(0)]))]
    sp.data = [dict(mode='active', memory=u32(0), offset=OP('I32Const', value=sym('do', 'i32')), data=Opaque('bytes:d0'))]
    if kind == 'bulk':
        sp.data.append(dict(mode='passive', data=Opaque('bytes:d1')))
        sp.data_count = u32(2)
    if kind == 'unused-bulk-in-dead-code':
        sp.data_count = None
    return sp


def run_scenario(ctx, report, name, spec, table, timeout_ms, gc=False):
    ob = common.Obligation('O20:' + name, 'for every post-MVP proposal f: the emitted module needs f only if the input needs f (data-count section, element/data segment encodings, block-type forms, memory/table immediates, flags, opcodes)' + (' [after gc]' if gc else ''))
    try:
        I, P = pc.new_pipeline(ctx)
        oks, errs, panics = pc.parse_ok_paths(I, P, spec)
        vios = []
        n = 0
        IN = modcmp.in_module(spec)
        types = [(tuple(p), tuple(r)) for p, r in spec.types]
        nin = need_of(IN, in_ops(spec, table), None, types)
        for s, module in oks:
            mref = I.halloc(s, module)
            sts = [s]
            if gc:
                sts = [s1 for s1, v in pipeline.run_gc(P, s, mref) if v is not PANIC]
            for s1 in sts:
                for s2, rec, _m in P.run_emit(s1, None, mref=mref):
                    if rec is PANIC:
                        continue
                    n += 1
                    OUT = modcmp.out_module(rec)
                    nout = need_of(OUT, out_ops(OUT, table), None, OUT['types'])
                    for f in FEATS:
                        sol = z3.Solver()
                        sol.set('timeout', timeout_ms)
                        sol.add(*s2.pc)
                        sol.add(nout.cond(f), z3.Not(nin.cond(f)))
                        report.queries += 1
                        r = sol.check()
                        if r == z3.unknown:
                            raise Inconclusive('solver timeout')
                        common.cross_check(sol, r)
                        if r == z3.sat:
                            vios.append({'key': 'escalates.' + f, 'what': '[%s] the output needs %s, the input does not (model %s)' % (name, f, str(sol.model())[:120].replace('\n', ' ')),
                                         'spec': spec, 'model': sol.model(), 'steps': ('gc', 'emit') if gc else ('emit',), 'native_check': native_features(f)})
        ob.detail = '%d emit paths x %d proposals' % (n, len(FEATS))
        c14.finish(ob, report, vios, n)
    except Inconclusive as ex:
        ob.status, ob.detail = 'inconclusive', str(ex)[:400]
    except modcmp.Mismatch as ex:
        ob.status, ob.detail = 'inconclusive', 'output record not understood: ' + str(ex)[:300]
    report.add(ob)


def native_features(f):
    def check(r):
        """native confirmation with the real validator is done by vreplay (validity under walrus's features); here we
        confirm the structural symptom: section list / segment encodings of the output vs the input"""
        a, b = r['input']['dump'], r['emits'][-1]['dump']
        info = {'in_sections': a['sections'], 'out_sections': b['sections']}
        sym = ('datacount' in b['sections'] and 'datacount' not in a['sections']) or \
              any(e.get('table', {}).get('explicit') for e in b['elements'] if e['mode'] == 'active') and not any(e.get('table', {}).get('explicit') for e in a['elements'] if e['mode'] == 'active') or \
              any('FuncType' in o for c in b['code'] for o in c['ops']) and not any('FuncType' in o for c in a['code'] for o in c['ops'])
        return (True if sym else None), info
    return check


def run_ops(report, tier, seed, table):
    """per operator: the emitted instruction belongs to the proposal of the input operator.  Decided by re-using C03's
    per-operator obligations (all immediates symbolic): an operator whose emitted variant is the paired one stays in its
    proposal trivially; for every variant mismatch C03 finds, the proposals of both sides are compared here."""
    from obligations import c03
    ob = common.Obligation('O20.ops', 'for every non-control operator of the feature set (immediates symbolic): the instruction walrus emits for it belongs to the same proposal (so no operator is re-encoded with an opcode of a proposal the input does not need)')
    try:
        r3, _ctx3 = c03.run(tier, seed)
        prop_of_instr = {}
        for opname, ents in table.items():
            for e in ents:
                prop_of_instr[e['instruction'].split('#')[0]] = e.get('proposal', 'mvp')
        nbad = 0
        for v in r3.violations:
            k = v.get('key', '')
            if not k.startswith('variant:'):
                continue
            opn, got = k[len('variant:'):].split('->')
            pin = (table.get(opn) or [{}])[0].get('proposal', 'mvp')
            pout = prop_of_instr.get(got, '?')
            if pin != pout:
                nbad += 1
                report.violations.append(dict(v, key='escalates.op:' + opn, what='operator %s (proposal %s) is emitted as %s (proposal %s)' % (opn, pin, got, pout)))
        n = sum(1 for o in r3.obligations if o.oid.startswith('O3.1:'))
        inc = sum(1 for o in r3.obligations if o.oid.startswith('O3.1:') and o.status == 'inconclusive')
        ob.detail = '%d operators examined' % n
        report.queries += r3.queries
        ob.status = 'violated' if nbad else ('inconclusive' if inc or not n else 'discharged')
    except Inconclusive as ex:
        ob.status, ob.detail = 'inconclusive', str(ex)[:300]
    report.add(ob)


def run(tier, seed, only=None):
    report = common.Report('C20', tier, seed)
    ctx = common.Ctx()
    timeout_ms = 60000 if tier == 'quick' else 600000
    table = witness.load_table()

    from obligations import gen
    gl = gen.generated(tier, seed)
    items = [('mvp-module/' + kind, mvp_spec(kind), table, timeout_ms, False) for kind in ('mvp', 'bulk', 'unused-bulk-in-dead-code')]
    items.append(('mvp-module/mvp+gc', mvp_spec('mvp'), table, timeout_ms, True))
    for v in ((0,) if tier == 'quick' else (0, 1, 2)):
        items.append(('full-module/variant%d' % v, scen.full_module(v), table, timeout_ms, False))
    for name, sp in gl:
        items += [(name, sp, table, timeout_ms, False), (name + '+gc', sp, table, timeout_ms, True)]
    items = [i for i in items if not only or i[0] in only]
    pc.run_parallel(ctx, report, run_scenario, items)
    if not only or 'O20.ops' in only:
        run_ops(report, tier, seed, table)
    report.bounds = {'generated': gen.bounds_text(tier, len(gl)) + ' x {emit, gc+emit}', 'descriptions': 'an MVP module (block types empty/result/inline-able type indices, memory and table immediates 0, active segments only), the same with bulk-memory use, with bulk-memory operators only in dead code, after GC, and the full module(s)',
                     'proposals': ', '.join(FEATS)}
    report.assumptions = ['"validates under the smallest feature set" is claimed as "needs no proposal the input does not need" by a reference need() function; the real validator is only used in replay',
                          'proposal of each opcode: codec table (from wasmparser\'s for_each_operator!)']
    report.samples = [o.as_json() for o in report.obligations[:3]]
    return report, ctx
