"""C04 - module-level structure is preserved by the round trip.

The REAL Module::parse and emit_wasm are executed symbolically (MIR) on structurally concrete module descriptions
that contain an entity of every kind in every mode (imported/local x func/table/memory/global, exports of all kinds,
start, element segments active/passive/declared x function-index/expression items, data active/passive, data count),
with every attribute symbolic (limits, flags, initialisers, offsets).  The recorded output module is compared with the
description up to a renumbering recovered from the output itself; every attribute equality is a solver query."""
import time

import z3

from mirsmt import common, engine, modcmp, witness
from mirsmt.values import *
from obligations import scen, pipecommon as pc


def run_scenario(ctx, report, name, spec, timeout_ms):
    ob = common.Obligation('O4:' + name, 'round trip of description %s: every import/export/memory/table/global/element/data/start/signature attribute of the output equals the input up to consistent renumbering; nothing added, dropped or duplicated' % name)
    try:
        I, P = pc.new_pipeline(ctx)
        oks, errs, panics = pc.parse_ok_paths(I, P, spec)
        vios = []
        if panics:
            for s in panics:
                vios.append({'key': 'parse.panic', 'what': '[%s] Module::parse panics on a valid description: %r' % (name, pc.pipeline_panic_events(s)[:2]), 'scenario': name, 'spec': spec, 'model': None, 'pc': list(s.pc)})
        for s, e in errs:
            vios.append({'key': 'parse.rejects', 'what': '[%s] Module::parse rejects a valid description' % name, 'scenario': name, 'spec': spec, 'model': None, 'pc': list(s.pc)})
        if not oks and not vios:
            ob.status = 'inconclusive'
            ob.detail = 'vacuous: no Ok path'
            return report.add(ob)
        IN = modcmp.in_module(spec)
        npaths = 0
        for s, module in oks:
            for s2, rec, mref in P.run_emit(s, module):
                if rec is PANIC:
                    vios.append({'key': 'emit.panic', 'what': '[%s] emit_wasm panics: %r' % (name, pc.pipeline_panic_events(s2)[:2]), 'scenario': name, 'spec': spec, 'model': None, 'pc': list(s2.pc)})
                    continue
                npaths += 1
                OUT = modcmp.out_module(rec)
                C, pi = modcmp.compare_structure(spec, IN, OUT, getattr(spec, 'func_tags', None))
                vios += pc.discharge(report, C, s2.pc, 'C04', name, spec, timeout_ms)
                ob.queries += C.checked
        ob.detail = '%d emit paths, %d attribute/index comparisons' % (npaths, ob.queries)
        if vios:
            ob.status = 'violated'
            seen = set()
            for v in vios:
                if v['key'] in seen:
                    continue
                seen.add(v['key'])
                report.violations.append(v)
            ob.cex = [v['what'][:200] for v in vios[:4]]
        else:
            ob.status = 'discharged'
    except Inconclusive as ex:
        ob.status = 'inconclusive'
        ob.detail = str(ex)[:400]
    except modcmp.Mismatch as ex:
        ob.status = 'inconclusive'
        ob.detail = 'output record not understood: ' + str(ex)[:300]
    return report.add(ob)


def run(tier, seed, only=None):
    report = common.Report('C04', tier, seed)
    ctx = common.Ctx()
    timeout_ms = 60000 if tier == 'quick' else 600000

    def go():
        for v in (0, 1, 2):
            name = 'full-module/variant%d' % v
            if only and name not in only:
                continue
            run_scenario(ctx, report, name, scen.full_module(v), timeout_ms)
    engine.run_in_big_stack(go)
    report.bounds = {'structure': 'three descriptions: 4 types, 5-6 imports (func,table,memory,global), 3 local functions, 2 tables, 2 memories, 7 globals (all 7 constant-expression forms), 7 exports, start, 5-7 element segments (active implicit/explicit table, passive, declared; function-index and funcref/externref expression items), 3 data segments (active const / active global.get / passive), data count present and absent',
                     'attributes': 'every limit (u64), flag (bool), initialiser / offset constant (i32,i64,f32 bits,f64 bits,16 v128 bytes) is symbolic over its full width; Option-valued attributes (maximum, page_size_log2, table index) are covered in both alternatives across the three variants'}
    report.assumptions = ['the description is a valid module, so Validator::* return Ok (the reader/validator calls are modelled, everything else is walrus code)',
                          'wasm-encoder builders record their arguments (byte encoding is the codec\'s)', 'log::max_level() == Off']
    report.samples = [o.as_json() for o in report.obligations[:3]]
    return report, ctx
