"""C04 - module-level structure is preserved by the round trip.

The REAL Module::parse and emit_wasm are executed symbolically (MIR) on structurally concrete module descriptions
that contain an entity of every kind in every mode (imported/local x func/table/memory/global, exports of all kinds,
start, element segments active/passive/declared x function-index/expression items, data active/passive, data count),
with every attribute symbolic (limits, flags, initialisers, offsets).  The recorded output module is compared with the
description up to a renumbering recovered from the output itself; every attribute equality is a solver query."""
import time

import z3

from mirsmt import common, engine, modcmp, witness
from mirsmt.values import *
from obligations import scen, pipecommon as pc


def run_scenario(ctx, report, name, spec, timeout_ms):
    ob = common.Obligation('O4:' + name, 'round trip of description %s: every import/export/memory/table/global/element/data/start/signature attribute of the output equals the input up to consistent renumbering; nothing added, dropped or duplicated' % name)
    try:
        I, P = pc.new_pipeline(ctx)
        oks, errs, panics = pc.parse_ok_paths(I, P, spec)
        vios = []
        if panics:
            for s in panics:
                vios.append({'key': 'parse.panic', 'what': '[%s] Module::parse panics on a valid description: %r' % (name, pc.pipeline_panic_events(s)[:2]), 'scenario': name, 'spec': spec, 'model': None, 'pc': list(s.pc)})
        for s, e in errs:
            vios.append({'key': 'parse.rejects', 'what': '[%s] Module::parse rejects a valid description' % name, 'scenario': name, 'spec': spec, 'model': None, 'pc': list(s.pc)})
        if not oks and not vios:
            ob.status = 'inconclusive'
            ob.detail = 'vacuous: no Ok path'
            return report.add(ob)
        IN = modcmp.in_module(spec)
        npaths = 0
        for s, module in oks:
            for s2, rec, mref in P.run_emit(s, module):
                if rec is PANIC:
                    vios.append({'key': 'emit.panic', 'what': '[%s] emit_wasm panics: %r' % (name, pc.pipeline_panic_events(s2)[:2]), 'scenario': name, 'spec': spec, 'model': None, 'pc': list(s2.pc)})
                    continue
                npaths += 1
                OUT = modcmp.out_module(rec)
                C, pi = modcmp.compare_structure(spec, IN, OUT, getattr(spec, 'func_tags', None))
                vios += pc.discharge(report, C, s2.pc, 'C04', name, spec, timeout_ms)
                ob.queries += C.checked
        ob.detail = '%d emit paths, %d attribute/index comparisons' % (npaths, ob.queries)
        if vios:
            ob.status = 'violated'
            seen = set()
            for v in vios:
                if v['key'] in seen:
                    continue
                seen.add(v['key'])
                report.violations.append(v)
            ob.cex = [v['what'][:200] for v in vios[:4]]
        else:
            ob.status = 'discharged'
    except Inconclusive as ex:
        ob.status = 'inconclusive'
        ob.detail = str(ex)[:400]
    except modcmp.Mismatch as ex:
        ob.status = 'inconclusive'
        ob.detail = 'output record not understood: ' + str(ex)[:300]
    return report.add(ob)


def with_late_table(spec):
    """the description that `add_import_table("late", "tbl", ..)` after parse is documented to produce: one more table
    import (after the existing imports); local tables move up by one in the table index space"""
    from mirsmt.pipeline import S
    ntab_imp = sum(1 for i in spec.imports if i['kind'] == 'table')
    spec.imports.append(dict(module=S('late'), name=S('tbl'), kind='table', element_type='funcref', table64=z3.BoolVal(False), initial=sym('lt_init', 'u64'), maximum=None))
    for e in spec.exports:
        if e['kind'] == 'Table' and conc(e['index']) >= ntab_imp:
            e['index'] = bv(conc(e['index']) + 1, 'u32')
    for e in spec.elements:
        if e['mode'] == 'active' and e['table'] is not None and conc(e['table']) >= ntab_imp:
            e['table'] = bv(conc(e['table']) + 1, 'u32')
    return spec


def local_tables_module():
    from mirsmt.pipeline import S, Spec
    from obligations.scen import OP, u32, tagged_body
    sp = Spec()
    sp.types = [([], [])]
    sp.funcs = [dict(type=0, ops=tagged_body('f0_tag')), dict(type=0, ops=tagged_body('f1_tag', 1))]
    sp.func_tags = ['f0_tag', 'f1_tag']
    sp.tables = [scen.table('ta', t64=False), scen.table('tb', t64=False)]
    sp.exports = [dict(name=S('t'), kind='Table', index=u32(0)), dict(name=S('f'), kind='Func', index=u32(0))]
    sp.elements = [dict(mode='active', table=None, offset=OP('I32Const', value=sym('e0_off', 'i32')), items=('funcs', [u32(0), u32(1)])),
                   dict(mode='active', table=u32(1), offset=OP('I32Const', value=sym('e1_off', 'i32')), items=('funcs', [u32(1)]))]
    return sp


def with_late_table_first(spec):
    """same edit on a module whose tables are all local: the new import takes table index 0"""
    spec = with_late_table(spec)
    for e in spec.elements:
        if e['mode'] == 'active' and e['table'] is None:
            e['table'] = bv(1, 'u32')
    return spec


def run_edit_scenario(ctx, report, name, timeout_ms, mk=None, expect=None):
    from obligations import c02
    ob = common.Obligation('O4:' + name, 'parse, then Module::add_import_table through the public API, then emit: the output is the input plus exactly that import; every existing segment, export and operand still denotes the same table')
    try:
        I, P = pc.new_pipeline(ctx)
        mk = mk or (lambda: scen.full_module(0))
        expect = expect or with_late_table
        spec = mk()
        oks, errs, panics = pc.parse_ok_paths(I, P, spec)
        want = expect(mk())
        IN = modcmp.in_module(want)
        vios = []
        n = 0
        for s, module in oks:
            mref = I.halloc(s, module)
            for s1, v in c02.edit_add_import_table(I, P, s, mref, spec):
                if v is PANIC:
                    vios.append({'key': 'edit.panic', 'what': 'add_import_table panics'})
                    continue
                for s2, rec, _m in P.run_emit(s1, None, mref=mref):
                    if rec is PANIC:
                        vios.append({'key': 'emit.panic', 'what': 'emit after add_import_table panics: %r' % (pc.pipeline_panic_events(s2)[:2],)})
                        continue
                    n += 1
                    OUT = modcmp.out_module(rec)
                    C, pi = modcmp.compare_structure(want, IN, OUT, want.func_tags)
                    vios += [{'key': k, 'what': '[%s] %s' % (name, w)} for k, w in C.bad]
                    for key, what, cond in C.todo:
                        sol = z3.Solver()
                        sol.add(*s2.pc)
                        sol.add(cond)
                        report.queries += 1
                        if sol.check() == z3.sat:
                            vios.append({'key': key, 'what': '[%s] %s not preserved' % (name, what)})
        ob.detail = '%d emit paths' % n
        if n == 0 and not vios:
            ob.status, ob.detail = 'inconclusive', 'vacuous'
        elif vios:
            ob.status = 'violated'
            seen = set()
            for v in vios:
                if v['key'] not in seen:
                    seen.add(v['key'])
                    report.violations.append(v)
            ob.cex = [v['what'][:200] for v in vios[:4]]
        else:
            ob.status = 'discharged'
    except Inconclusive as ex:
        ob.status, ob.detail = 'inconclusive', str(ex)[:400]
    except modcmp.Mismatch as ex:
        ob.status, ob.detail = 'inconclusive', 'output record not understood: ' + str(ex)[:300]
    report.add(ob)


def run(tier, seed, only=None):
    report = common.Report('C04', tier, seed)
    ctx = common.Ctx()
    timeout_ms = 60000 if tier == 'quick' else 600000

    from obligations import gen
    items = []
    for v in (0, 1, 2):
        name = 'full-module/variant%d' % v
        if not only or name in only:
            items.append(('scen', name, scen.full_module(v)))
    if not only or 'edit/add-import-table' in only:
        items.append(('edit', 'edit/add-import-table', None))
        items.append(('edit2', 'edit/add-import-table/local-tables-only', None))
    gl = gen.generated(tier, seed)
    for name, sp in gl:
        if not only or name in only:
            items.append(('scen', name, sp))

    def job(ctx, report, kind, name, sp):
        if kind == 'scen':
            run_scenario(ctx, report, name, sp, timeout_ms)
        elif kind == 'edit':
            run_edit_scenario(ctx, report, name, timeout_ms)
        else:
            run_edit_scenario(ctx, report, name, timeout_ms, local_tables_module, with_late_table_first)
    pc.run_parallel(ctx, report, job, items)
    report.bounds = {'generated': gen.bounds_text(tier, len(gl)), 'structure': 'three descriptions: 4 types, 5-6 imports (func,table,memory,global), 3 local functions, 2 tables, 2 memories, 7 globals (all 7 constant-expression forms), 7 exports, start, 5-7 element segments (active implicit/explicit table, passive, declared; function-index and funcref/externref expression items), 3 data segments (active const / active global.get / passive), data count present and absent',
                     'attributes': 'every limit (u64), flag (bool), initialiser / offset constant (i32,i64,f32 bits,f64 bits,16 v128 bytes) is symbolic over its full width; Option-valued attributes (maximum, page_size_log2, table index) are covered in both alternatives across the three variants'}
    report.assumptions = ['the description is a valid module, so Validator::* return Ok (the reader/validator calls are modelled, everything else is walrus code)',
                          'wasm-encoder builders record their arguments (byte encoding is the codec\'s)', 'log::max_level() == Off']
    report.samples = [o.as_json() for o in report.obligations[:3]]
    return report, ctx
