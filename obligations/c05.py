"""C05 - parsing is a total, sound and complete validation gate (walrus-side mechanism).

Whole-buffer symbolic parsing is out of reach (the wasmparser validator is not encoded); what is decided:
 O5.1 the feature set handed to Parser and Validator, for symbolic only_stable_features;
 O5.2 validate-before-interpret: with a validator rejection injected at every call position, parse returns Err, never
      panics, and no walrus parse step runs after the rejection; every walrus parse step is preceded by the Ok of the
      matching validator call; validator.op precedes append_instruction for every operator;
 O5.3 no panic in append_instruction for any validator-admitted operator (all immediates symbolic);
 O5.4 unsupported constructs (components, tags, unknown sections) surface as Err;
 O5.5 completeness on the valid descriptions of the other checks: no Err / panic path."""
import re

import z3

from mirsmt import common, engine, modcmp, pipeline, wmodels, witness
from mirsmt.pipeline import S, Spec, section, rng
from mirsmt.values import *
from obligations import scen, pipecommon as pc, c14, c06, opcommon as oc, c03

BASE = {'FLOATS', 'MUTABLE_GLOBAL', 'SATURATING_FLOAT_TO_INT', 'SIGN_EXTENSION', 'MULTI_VALUE', 'REFERENCE_TYPES', 'BULK_MEMORY', 'SIMD', 'RELAXED_SIMD', 'TAIL_CALL'}
UNSTABLE = {'MULTI_MEMORY', 'MEMORY64', 'THREADS'}

WALRUS_STEPS = r'::(parse_types|parse_imports|declare_local_functions|parse_tables|parse_memories|parse_globals|parse_exports|parse_elements|reserve_data|parse_data|parse_local_functions|parse_name_section|parse_producers_section|parse_debug_sections)$'
NEEDS = {'parse_types': 'type_section', 'parse_imports': 'import_section', 'declare_local_functions': 'function_section', 'parse_tables': 'table_section', 'parse_memories': 'memory_section',
         'parse_globals': 'global_section', 'parse_exports': 'export_section', 'parse_elements': 'element_section', 'reserve_data': 'data_count_section', 'parse_data': 'data_section',
         'parse_local_functions': 'end'}


def install_step_logger(I):
    def log_step(I, st, c, args, cont, depth, site):
        I.event(st, 'walrus-step', re.search(WALRUS_STEPS, c).group(1))
        return NotImplemented
    I.add_model(WALRUS_STEPS, log_step, 'walrus parse steps are logged (and then interpreted from their own MIR)', front=True)

    def log_append(I, st, c, args, cont, depth, site):
        I.event(st, 'walrus-step', 'append_instruction', args[1])
        return NotImplemented
    I.add_model(r'^append_instruction$', log_append, 'append_instruction logged', front=True)


def run_features(ctx, report):
    ob = common.Obligation('O5.1', 'get_wasmparser_wasm_features: BASE always; MULTI_MEMORY, MEMORY64, THREADS iff not only_stable_features; Parser::set_features and Validator::new_with_features receive exactly that set')
    try:
        I, P = pc.new_pipeline(ctx)
        st = engine.State()
        stable = z3.Bool('only_stable_features')
        cfg = P.default_config(st, only_stable_features=stable)
        feats = {}

        def m_set(I, st, c, args, cont, depth, site):
            I.event(st, 'features', c.rsplit('::', 1)[1], args[-1])
            return NotImplemented
        I.add_model(r'^wasmparser::Parser::set_features$|^(wasmparser::)?Validator::new_with_features$', m_set, 'feature hand-over recorded', front=True)
        spec = Spec()
        outs = P.run_parse(spec, config=cfg, st=st)
        bad = []
        n = 0
        for s, v in outs:
            if v is PANIC:
                bad.append('parse of the empty module panics')
                continue
            val = c14.flag_value(s.pc, stable)
            evs = [e for e in s.events if e[0] == 'features']
            if len(evs) != 2:
                bad.append('features handed over %d times (expected Parser and Validator)' % len(evs))
                continue
            for e in evs:
                got = set(pipeline._featset(e[2]))
                want = set(BASE) | (set() if val else set(UNSTABLE))
                n += 1
                if val is None:
                    bad.append('path does not determine only_stable_features')
                elif got != want:
                    bad.append('only_stable_features=%s: %s receives %s, expected %s' % (val, e[1], sorted(got), sorted(want)))
        if bad:
            ob.status = 'violated'
            ob.cex = bad[:3]
            report.violations.append({'key': 'features', 'what': bad[0]})
        else:
            ob.status = 'discharged' if n >= 4 else 'inconclusive'
            ob.detail = '%d hand-overs on %d paths' % (n, len(outs))
    except Inconclusive as ex:
        ob.status, ob.detail = 'inconclusive', str(ex)[:300]
    report.add(ob)


def run_gate(ctx, report, spec, name):
    ob = common.Obligation('O5.2:' + name, 'for a validator rejection at every call position: parse returns Err (no panic), no walrus parse step runs after the rejection; on the accepting run every walrus step follows the Ok of its validator call and validator.op precedes append_instruction for every operator')
    try:
        vios = []
        k = -1
        total = None
        checked = 0
        while True:
            I, P = pc.new_pipeline(ctx)
            install_step_logger(I)
            st = engine.State()
            if k >= 0:
                st.meta['validator_fail_at'] = k
            outs = P.run_parse(spec, st=st)
            for s, v in outs:
                checked += 1
                evs = s.events
                rej = [i for i, e in enumerate(evs) if e[0] == 'validator-rejects']
                if v is PANIC:
                    vios.append({'key': 'gate.panic', 'what': '[%s] parse panics when validator call #%d rejects: %r' % (name, k, pc.pipeline_panic_events(s)[:2])})
                    continue
                if rej:
                    if v.variant != 'Err':
                        vios.append({'key': 'gate.accepts', 'what': '[%s] parse returns Ok although validator call #%d (%s) rejected' % (name, k, evs[rej[0]][1])})
                    later = [e[1] for e in evs[rej[0]:] if e[0] == 'walrus-step']
                    if later:
                        vios.append({'key': 'gate.continues', 'what': '[%s] walrus steps %r ran after validator call #%d (%s) rejected' % (name, later[:3], k, evs[rej[0]][1])})
                else:
                    if k < 0:
                        total = s.meta.get('validator_calls', 0)
                        if v.variant != 'Ok':
                            vios.append({'key': 'gate.rejects-valid', 'what': '[%s] parse rejects a valid description' % name})
                    # every declared local group - empty ones too - is submitted to the validator (it is the only place
                    # where the group's value type is checked against the enabled features)
                    ngroups = sum(len(f.get('locals', [])) for f in spec.funcs)
                    ndef = sum(1 for e in evs if e[0] == 'validator' and e[1] == 'define_locals')
                    if ndef != ngroups:
                        vios.append({'key': 'gate.define_locals', 'what': '[%s] %d local groups declared, validator.define_locals called %d times' % (name, ngroups, ndef)})
                    # ordering on the accepting run
                    seen_ok = set()
                    last_op = None
                    for e in evs:
                        if e[0] == 'validator':
                            seen_ok.add(e[1])
                            if e[1] == 'op':
                                last_op = e[2]
                        elif e[0] == 'walrus-step':
                            need = NEEDS.get(e[1])
                            if need and need not in seen_ok:
                                vios.append({'key': 'gate.order', 'what': '[%s] %s ran before validator.%s accepted' % (name, e[1], need)})
                            if e[1] == 'append_instruction':
                                if last_op is None or last_op is not e[2] and repr(last_op) != repr(e[2]):
                                    vios.append({'key': 'gate.op-order', 'what': '[%s] append_instruction(%s) without a preceding validator.op of the same operator' % (name, getattr(e[2], 'variant', e[2]))})
                                last_op = None
            k += 1
            if total is None or k >= total or k > 120:
                break
        ob.detail = '%d validator call positions, %d paths' % (total or 0, checked)
        c14.finish(ob, report, vios, checked)
    except Inconclusive as ex:
        ob.status, ob.detail = 'inconclusive', str(ex)[:400]
    report.add(ob)


def run_unsupported(ctx, report):
    P_ = lambda v, *f, **kw: Enum('wasmparser::Payload', v, f, kw.pop('names', None))
    cases = {
        'TagSection': P_('TagSection', section([])),
        'ComponentSection': Enum('wasmparser::Payload', 'ComponentSection', (Opaque('parser'), rng(usize(0), usize(0))), ('parser', 'unchecked_range')),
        'ModuleSection': Enum('wasmparser::Payload', 'ModuleSection', (Opaque('parser'), rng(usize(0), usize(0))), ('parser', 'unchecked_range')),
        'InstanceSection': P_('InstanceSection', section([])),
        'CoreTypeSection': P_('CoreTypeSection', section([])),
        'ComponentTypeSection': P_('ComponentTypeSection', section([])),
        'ComponentImportSection': P_('ComponentImportSection', section([])),
        'ComponentExportSection': P_('ComponentExportSection', section([])),
        'UnknownSection': Enum('wasmparser::Payload', 'UnknownSection', (bv(77, 'u8'), Opaque('bytes'), rng(usize(0), usize(0))), ('id', 'contents', 'range')),
    }
    for cname, payload in cases.items():
        ob = common.Obligation('O5.4:' + cname, 'a %s payload makes parse return Err, not panic (validator contract: unknown sections are rejected)' % cname)
        try:
            I, P = pc.new_pipeline(ctx)
            if cname == 'UnknownSection':
                I.add_model(r'^(wasmparser::)?Validator::unknown_section$', lambda I, st, c, args, cont, depth, site: cont(st, err(Opaque('BinaryReaderError'))),
                            'Validator::unknown_section = Err (contract of wasmparser: unknown section ids are rejected)', front=True)
            spec = Spec()
            spec.types = [([], [])]
            spec.tail_payloads = [payload]
            outs = P.run_parse(spec)
            bad = [x for x in outs if x[1] is PANIC or (isinstance(x[1], Enum) and x[1].variant != 'Err')]
            if bad:
                ob.status = 'violated'
                what = 'parse of a module with a %s %s' % (cname, 'panics: %r' % pc.pipeline_panic_events(bad[0][0])[:1] if bad[0][1] is PANIC else 'returns Ok')
                ob.cex = [what]
                report.violations.append({'key': 'unsupported.' + cname, 'what': what})
            else:
                ob.status = 'discharged' if outs else 'inconclusive'
                ob.detail = '%d paths, all Err' % len(outs)
        except Inconclusive as ex:
            ob.status, ob.detail = 'inconclusive', str(ex)[:300]
        report.add(ob)


_G = {}


def _op_work(i):
    ctx, items = _G['ctx'], _G['items']
    prop, opname, fields = items[i]

    def go():
        out = {'op': opname, 'panics': [], 'paths': 0, 'status': 'discharged', 'detail': None}
        try:
            variants = [({}, None)]
            for fname, fty in fields:
                ch = c03.choices_for(fty)
                if ch:
                    variants = [(dict(d, **{fname: val}), lab) for d, _l in variants for lab, val in ch]
            for fixed, label in variants:
                I = oc.setup_interp(ctx)
                st = engine.State()
                op = wmodels.build_operator(I, opname, fields, lambda ty, name, fixed=fixed: fixed.get(name))
                flat = c03.flatten_op(op)
                for k, v in flat.items():
                    if k.endswith('.align'):
                        st.pc.append(z3.ULE(v.t, z3.BitVecVal(c03.MAX_ALIGN_LOG2, 8)))
                cref, fref = oc.mk_parse_ctx(I, st)
                outs = []
                append = _G['append']
                I.run(append, [cref, op, Struct('InstrLocId', (bv(7, 'u32'),))], st, lambda s, v: outs.append((s, v)))
                for s, v in outs:
                    out['paths'] += 1
                    if v is PANIC:
                        out['panics'].append(repr([e[1] for e in s.events if e[0] == 'PANIC'][:1]) + (' [%s]' % label if label else ''))
        except Inconclusive as ex:
            out['status'] = 'inconclusive'
            out['detail'] = str(ex)[:300]
        if out['panics']:
            out['status'] = 'violated'
        return out
    r = engine.run_in_big_stack(go)
    ctx.interps.clear()
    return r


def run_ops(ctx, report):
    import multiprocessing as mp
    import os
    items = [(p, n, fl) for (p, n, fl) in oc.in_feature_ops(ctx.defs) if n not in oc.CONTROL]
    _G.update(ctx=ctx, items=items, append=ctx.fn(r'^append_instruction$'))
    with mp.get_context('fork').Pool(int(os.environ.get('VERIF_JOBS', '14'))) as pool:
        results = pool.map(_op_work, range(len(items)), chunksize=8)
    for r in results:
        ob = common.Obligation('O5.3:' + r['op'], 'append_instruction(%s) cannot panic for any immediates the validator admits' % r['op'])
        ob.status = r['status']
        ob.detail = r['detail'] or '%d paths' % r['paths']
        if r['panics']:
            ob.cex = r['panics'][:2]
            report.violations.append({'key': 'op-panic:' + r['op'], 'what': 'append_instruction(%s) panics under validator facts: %s' % (r['op'], r['panics'][0])})
        report.add(ob)


def run_complete(ctx, report, extra=()):
    for name, spec in [('full-module/variant%d' % v, scen.full_module(v)) for v in (0, 1, 2)] + [('gc/' + n, mk()) for n, mk in c06.SCENARIOS] + list(extra):
        ob = common.Obligation('O5.5:' + name, 'the valid description %s is accepted: no Err and no panic path of Module::parse' % name)
        try:
            I, P = pc.new_pipeline(ctx)
            oks, errs, panics = pc.parse_ok_paths(I, P, spec)
            if errs or panics:
                ob.status = 'violated'
                what = '%s: %d rejecting and %d panicking paths of parse' % (name, len(errs), len(panics))
                ob.cex = [what]
                report.violations.append({'key': 'complete.' + name, 'what': what, 'spec': spec, 'model': None, 'pc': list((errs[0][0] if errs else panics[0]).pc)})
            else:
                ob.status = 'discharged' if oks else 'inconclusive'
                ob.detail = '%d accepting paths' % len(oks)
        except Inconclusive as ex:
            ob.status, ob.detail = 'inconclusive', str(ex)[:300]
        report.add(ob)


def run(tier, seed, only=None):
    report = common.Report('C05', tier, seed)
    ctx = common.Ctx()
    run_ops(ctx, report)

    def go():
        run_features(ctx, report)
        run_gate(ctx, report, scen.full_module(0), 'full-module/variant0')
        run_unsupported(ctx, report)
        from obligations import c11
        zsp = c11.spec_for(2)
        zsp.funcs[0]['locals'] = [(0, 'i64'), (1, 'i32'), (0, 'f32')]          # zero-count groups are legal
        run_gate(ctx, report, zsp, 'zero-count-local-groups')
        run_complete(ctx, report, gl)
        for n, sp in gl[:2 if tier == 'quick' else 12]:
            run_gate(ctx, report, sp, n)
    from obligations import gen
    gl = gen.generated(tier, seed)
    engine.run_in_big_stack(go)
    report.queries += len(report.obligations)
    report.bounds = {'operators': 'all non-control operators of the feature set, immediates symbolic (O5.3)', 'gate': 'one rejection injected at each validator call position of the full-module description (O5.2)',
                     'unsupported': '9 payload kinds (O5.4)', 'completeness': '7 valid descriptions (O5.5) + ' + gen.bounds_text(tier, len(gl)) + '; the gate obligation O5.2 also on the first %d of them' % (2 if tier == 'quick' else 12)}
    report.assumptions = ['NOT claimed: totality / soundness on arbitrary byte strings (wasmparser\'s parser and validator are not encoded); the claim is the walrus-side mechanism that the property\'s anchors name',
                          'validator contracts: rejects unknown sections; accepts the valid descriptions']
    report.samples = [o.as_json() for o in report.obligations[:3]]
    return report, ctx
