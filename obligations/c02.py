"""C02 - emitted binaries always validate and emission never panics.

What the solver-based engine decides: on every path of the REAL parse / gc / edit / emit over the scenario set, no panic
is reachable (in particular no missing-index panic), and the recorded output is structurally well-formed for a reference
index-space validator (every index operand in range, counts consistent).  Full type validation is done by the real
wasmparser validator only in native replay."""
import z3

from mirsmt import common, engine, modcmp, pipeline, witness, bodycmp
from mirsmt.pipeline import S, Spec
from mirsmt.values import *
from obligations import scen, pipecommon as pc, c14, c06, c18, c13, c12
from obligations.scen import OP, u32


def wellformed(OUT, table):
    """reference index-space validation of the recorded module -> list of problems"""
    bad = []
    n = {'type': len(OUT['types'])}
    for k in ('func', 'table', 'memory', 'global'):
        n[k] = sum(1 for i in OUT['imports'] if i['kind'] == k)
    nimp = dict(n)
    n['func'] += len(OUT['funcs'])
    n['table'] += len(OUT['tables'])
    n['memory'] += len(OUT['memories'])
    n['global'] += len(OUT['globals'])
    n['element'] = len(OUT['elements'])
    n['data'] = len(OUT['data'])
    if len(OUT['funcs']) != len(OUT['code']):
        bad.append('function section has %d entries, code section %d' % (len(OUT['funcs']), len(OUT['code'])))
    if OUT['data_count'] is not None and OUT['data_count'] != len(OUT['data']):
        bad.append('data count %d but %d data segments' % (OUT['data_count'], len(OUT['data'])))

    def chk(kind, i, where):
        if not (0 <= i < n[kind]):
            bad.append('%s: %s index %d out of range (%d defined)' % (where, kind, i, n[kind]))
    for k, i in enumerate(OUT['imports']):
        if i['kind'] == 'func':
            chk('type', i['type'], 'import %d' % k)
    for k, f in enumerate(OUT['funcs']):
        chk('type', f['type'], 'function %d' % k)

    def cexpr(c, where, imported_only=True):
        if c[0] == 'global_get':
            chk('global', c[1], where)
        elif c[0] == 'ref_func':
            chk('func', c[1], where)
    for k, g in enumerate(OUT['globals']):
        cexpr(g['init'], 'global %d init' % k)
    for k, e in enumerate(OUT['exports']):
        chk({'func': 'func', 'table': 'table', 'memory': 'memory', 'global': 'global'}[e['kind'].lower()], e['index'], 'export %d' % k)
    if OUT['start'] is not None:
        chk('func', OUT['start'], 'start')
    for k, e in enumerate(OUT['elements']):
        if e['mode'] == 'active':
            chk('table', 0 if e['table'] is None else e['table'], 'element %d' % k)
            cexpr(e['offset'], 'element %d offset' % k)
        if e['items'][0] == 'funcs':
            for f in e['items'][1]:
                chk('func', f, 'element %d item' % k)
        else:
            for c in e['items'][2]:
                cexpr(c, 'element %d item' % k)
    for k, d in enumerate(OUT['data']):
        if d['mode'] == 'active':
            chk('memory', d['memory'], 'data %d' % k)
            cexpr(d['offset'], 'data %d offset' % k)
    # ref.func in a body needs a declaration: an export, an element segment item or a global initialiser naming it
    declared = set(e['index'] for e in OUT['exports'] if e['kind'].lower() == 'func')
    for e in OUT['elements']:
        if e['items'][0] == 'funcs':
            declared |= set(e['items'][1])
        else:
            declared |= set(c[1] for c in e['items'][2] if c[0] == 'ref_func')
    for g in OUT['globals']:
        if g['init'][0] == 'ref_func':
            declared.add(g['init'][1])
    uses_data = False
    for j, b in enumerate(OUT['code']):
        fty = OUT['funcs'][j]['type'] if j < len(OUT['funcs']) else None
        nparams = len(OUT['types'][fty][0]) if fty is not None and fty < len(OUT['types']) else 0
        nloc = nparams + sum(c for c, _ in b['locals'])
        depth = 0
        for ins in b['instrs']:
            name = ins.variant if isinstance(ins, Enum) else repr(ins)
            names = ins.names or [str(i) for i in range(len(ins.f))] if isinstance(ins, Enum) else []
            for nm, x in zip(names, getattr(ins, 'f', ())):
                if isinstance(x, Struct) and x.ty.endswith('MemArg'):
                    chk('memory', conc(x.get('memory_index')), 'body %d %s' % (j, name))
                elif isinstance(x, Enum) and x.ty.endswith('BlockType') and x.variant == 'FunctionType':
                    chk('type', conc(x.f[0]), 'body %d %s' % (j, name))
            fl = {nm: x for nm, x in zip(names, getattr(ins, 'f', ()))}
            one = list(getattr(ins, 'f', ()))
            if name in ('Call', 'ReturnCall', 'RefFunc'):
                chk('func', conc(one[0]), 'body %d %s' % (j, name))
                if name == 'RefFunc' and conc(one[0]) not in declared:
                    bad.append(('undeclared-ref.func', conc(one[0]), 'body %d ref.func %d: undeclared function reference (not exported, in no element segment, in no global initialiser)' % (j, conc(one[0]))))
            elif name in ('CallIndirect', 'ReturnCallIndirect'):
                chk('type', conc(fl.get('type_index', fl.get('ty', one[0]))), 'body %d %s' % (j, name))
                chk('table', conc(fl.get('table_index', fl.get('table', one[-1]))), 'body %d %s' % (j, name))
            elif name in ('GlobalGet', 'GlobalSet'):
                chk('global', conc(one[0]), 'body %d %s' % (j, name))
            elif name in ('LocalGet', 'LocalSet', 'LocalTee'):
                if conc(one[0]) >= nloc:
                    bad.append('body %d %s: local %d out of range (%d)' % (j, name, conc(one[0]), nloc))
            elif name in ('MemoryInit',):
                uses_data = True
                chk('data', conc(fl.get('data_index', one[-1])), 'body %d %s' % (j, name))
                chk('memory', conc(fl.get('mem', one[0])), 'body %d %s' % (j, name))
            elif name == 'DataDrop':
                uses_data = True
                chk('data', conc(one[0]), 'body %d %s' % (j, name))
            elif name == 'TableInit':
                chk('element', conc(fl.get('elem_index', one[0])), 'body %d %s' % (j, name))
                chk('table', conc(fl.get('table', one[-1])), 'body %d %s' % (j, name))
            elif name == 'ElemDrop':
                chk('element', conc(one[0]), 'body %d %s' % (j, name))
            elif name in ('TableGet', 'TableSet', 'TableGrow', 'TableSize', 'TableFill'):
                chk('table', conc(one[0]), 'body %d %s' % (j, name))
            elif name == 'TableCopy':
                for x in one:
                    chk('table', conc(x), 'body %d %s' % (j, name))
            elif name in ('MemorySize', 'MemoryGrow', 'MemoryFill'):
                chk('memory', conc(one[0]), 'body %d %s' % (j, name))
            elif name == 'MemoryCopy':
                for x in one:
                    chk('memory', conc(x), 'body %d %s' % (j, name))
            if name in ('Block', 'Loop', 'If'):
                depth += 1
            elif name == 'End':
                depth -= 1
            elif name in ('Br', 'BrIf'):
                if conc(one[0]) > depth:
                    bad.append('body %d %s: depth %d exceeds nesting %d' % (j, name, conc(one[0]), depth))
        if depth != -1:
            bad.append('body %d: unbalanced block structure (depth %d at end)' % (j, depth))
    if uses_data and OUT['data_count'] is None:
        bad.append('memory.init / data.drop used but no data count section')
    return bad


def input_declarations(spec, OUT, out_func):
    """how the INPUT declared the function that the output's function index `out_func` stands for (identified by its tag):
    sorted kinds among export / active / passive / declared / global"""
    nimp_out = sum(1 for i in OUT['imports'] if i['kind'] == 'func')
    nimp_in = sum(1 for i in spec.imports if i['kind'] == 'func')
    k = None
    if out_func >= nimp_out and out_func - nimp_out < len(OUT['code']):
        ins = OUT['code'][out_func - nimp_out]['instrs']
        tag = str(ins[0].f[0]) if ins and isinstance(ins[0], Enum) and ins[0].variant == 'I32Const' else None
        for j, t in enumerate(getattr(spec, 'func_tags', []) or []):
            if tag is not None and t in tag:
                k = nimp_in + j
    if k is None:
        return '?'
    kinds = set()
    for e in spec.exports:
        if e['kind'] == 'Func' and conc(e['index']) == k:
            kinds.add('export')
    for e in spec.elements:
        if e['items'][0] == 'funcs':
            hit = any(conc(x) == k for x in e['items'][1])
        else:
            hit = any(x.variant == 'RefFunc' and conc(x.f[0]) == k for x in e['items'][2])
        if hit:
            kinds.add(e['mode'])
    for g in spec.globals:
        if g['init'].variant == 'RefFunc' and conc(g['init'].f[0]) == k:
            kinds.add('global')
    return '+'.join(sorted(kinds)) or 'none'


def edit_add_import_table(I, P, st, mref, spec):
    """Module::add_import_table after parse (a well-formed edit through the public API)"""
    fn = I.method('add_import_table', impl_ty='Module')
    out = []
    I.run(fn, [mref, S('late'), S('tbl'), z3.BoolVal(False), sym('lt_init', 'u64'), none(), Enum('RefType', 'Funcref')], st, lambda s, v: out.append((s, v)))
    return out


def reffunc_decl_spec(how):
    """a live body takes ref.func of a function whose ONLY declaration is an unused passive segment / an unused global
    initialiser (which GC removes)"""
    sp = Spec()
    sp.types = [([], [])]
    sp.funcs = [dict(type=0, ops=scen.tagged_body('f0_tag', 0, [OP('RefFunc', function_index=u32(1)), OP('Drop')])), dict(type=0, ops=scen.tagged_body('f1_tag', 1))]
    sp.func_tags = ['f0_tag', 'f1_tag']
    sp.exports = [dict(name=S('run'), kind='Func', index=u32(0))]
    if how == 'passive':
        sp.elements = [dict(mode='passive', items=('funcs', [u32(1)]))]
    else:
        sp.globals = [scen.glob('g', 'funcref', OP('RefFunc', function_index=u32(1)), mutable=False)]
    return sp


def scenarios(tier, seed=0):
    from obligations import gen
    L = []
    for v in (0, 1, 2):
        L.append(('full-module/variant%d' % v, scen.full_module(v), ('emit',), None))
        L.append(('full-module/variant%d+gc' % v, scen.full_module(v), ('gc', 'emit'), None))
    for n, mk in c06.SCENARIOS:
        L.append(('gc/' + n, mk(), ('gc', 'emit'), None))
        L.append(('gc/' + n + '/no-gc', mk(), ('emit',), None))
    L.append(('named', c13.named_spec(0), ('gc', 'emit'), None))
    L.append(('customs', c12.customs_spec('full'), ('gc', 'emit', 'emit'), None))
    for how in ('passive', 'global'):
        L.append(('gc/ref.func-declared-only-by-unused-%s' % how, reffunc_decl_spec(how), ('gc', 'emit'), None))
    L.append(('edit/add-import-table', scen.full_module(0), ('emit',), edit_add_import_table))
    L.append(('edit/add-import-table+gc', scen.full_module(0), ('gc', 'emit'), edit_add_import_table))
    for name, sp in gen.generated(tier, seed):
        L.append((name, sp, ('emit',), None))
        L.append((name + '+gc', sp, ('gc', 'emit'), None))
    return L


def run_scenario(ctx, report, name, spec, steps, edit, table, timeout_ms):
    ob = common.Obligation('O2:' + name, 'steps %s%s: no panic is reachable in parse / gc / edit / emit and the emitted module is well-formed for the reference index-space validator (all index operands in range, section counts consistent)' % (
        '+'.join(steps), ' after a public-API edit' if edit else ''))
    try:
        I, P = pc.new_pipeline(ctx)
        st0 = engine.State()
        st0.pc.extend(c12.name_preconditions(spec))
        oks, errs, panics = pc.parse_ok_paths(I, P, spec, st=st0)
        vios = []
        for s in panics:
            vios.append({'key': 'parse.panic', 'what': '[%s] parse panics: %r' % (name, pc.pipeline_panic_events(s)[:2]), 'spec': spec, 'model': None, 'pc': list(s.pc)})
        n = 0
        for s, module in oks:
            mref = I.halloc(s, module)
            states = [s]
            if edit:
                states = []
                for s1, v in edit(I, P, s, mref, spec):
                    if v is PANIC:
                        vios.append({'key': 'edit.panic', 'what': '[%s] the edit panics: %r' % (name, pc.pipeline_panic_events(s1)[:2])})
                    else:
                        states.append(s1)
            for step in steps:
                nxt = []
                for s1 in states:
                    if step == 'gc':
                        for s2, v in pipeline.run_gc(P, s1, mref):
                            if v is PANIC:
                                vios.append({'key': 'gc.panic', 'what': '[%s] gc::run panics: %r' % (name, pc.pipeline_panic_events(s2)[:2]), 'spec': spec, 'model': None, 'pc': list(s2.pc), 'steps': steps})
                            else:
                                nxt.append(s2)
                    else:
                        for s2, rec, _m in P.run_emit(s1, None, mref=mref):
                            if rec is PANIC:
                                vios.append({'key': 'emit.panic', 'what': '[%s] emit panics: %r' % (name, pc.pipeline_panic_events(s2)[:2]), 'spec': None if edit else spec, 'model': None, 'pc': list(s2.pc), 'steps': steps})
                                continue
                            n += 1
                            OUT = modcmp.out_module(rec)
                            for pbm in wellformed(OUT, table):
                                key = 'malformed'
                                if isinstance(pbm, tuple):
                                    # role of the finding: how the input had declared the function whose declaration is gone
                                    key = 'malformed.%s[after:%s;input-declarations:%s]' % (pbm[0], '+'.join(steps[:-1]) or 'emit', input_declarations(spec, OUT, pbm[1]) if not edit else '?')
                                    pbm = pbm[2]
                                vios.append({'key': key, 'what': '[%s] emitted module is malformed: %s' % (name, pbm), 'spec': None if edit else spec, 'model': None, 'pc': list(s2.pc), 'steps': steps,
                                             'native_check': native_valid})
                            nxt.append(s2)
                states = nxt
        ob.detail = '%d emitted modules checked' % n
        c14.finish(ob, report, vios, n)
    except Inconclusive as ex:
        ob.status, ob.detail = 'inconclusive', str(ex)[:400]
    except modcmp.Mismatch as ex:
        ob.status, ob.detail = 'inconclusive', 'output record not understood: ' + str(ex)[:300]
    report.add(ob)


def native_valid(r):
    out = r['emits'][-1]
    return (not out['valid']), {'valid': out['valid'], 'validation_error': out.get('validation_error')}


def run(tier, seed, only=None):
    report = common.Report('C02', tier, seed)
    ctx = common.Ctx()
    timeout_ms = 60000
    table = witness.load_table()

    items = [(name, spec, steps, edit, table, timeout_ms) for name, spec, steps, edit in scenarios(tier, seed) if not only or name in only]
    pc.run_parallel(ctx, report, run_scenario, items)
    report.queries += len(report.obligations)
    from obligations import gen
    report.bounds = {'generated': gen.bounds_text(tier, len(gen.generated(tier, seed))) + ' x {emit, gc+emit}', 'scenarios': 'three full-module variants x {emit, gc+emit}; four GC descriptions x {gc+emit, emit}; named module + gc; custom sections + gc + two emits; add_import_table after parse x {emit, gc+emit}; the replace_* edits are C18, builder-made functions C15, skeleton bodies C01 (each of those also reports panics)'}
    report.assumptions = ['"validates" is decided for index spaces and section consistency by a reference checker; operand-stack typing is left to the real validator in native replay', 'DWARF emission is outside (gimli not encoded)']
    report.samples = [o.as_json() for o in report.obligations[:3]]
    return report, ctx
