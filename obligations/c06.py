"""C06 / C07 - the GC pass keeps everything reachable (C06) and nothing else, idempotently (C07).

The REAL Module::parse, passes::gc::run (Used::new, the work-list loops, the sweep) and emit_wasm run symbolically on
descriptions with reachable and unreachable entities of every kind; the output is compared with the description
restricted to the reference reachable set (gcref.py, written from the property text)."""
import z3

from mirsmt import common, engine, modcmp, pipeline, bodycmp, witness
from mirsmt.pipeline import S, Spec
from mirsmt.values import *
from obligations import scen, gcref, pipecommon as pc
from obligations.scen import OP, u32, tagged_body, heap
from obligations.c01 import BT_FUNC, BT_EMPTY


def mem0(name='m'):
    return scen.memarg(name, mem=0)


def gc_module_a():
    """every entity kind, reachable and unreachable"""
    sp = Spec()
    sp.types = [([], []), (['i32'], ['i32']), (['i64'], []), (['i32', 'i32'], ['i32', 'i32']), (['f64'], ['f64']), (['f32', 'f32'], [])]
    #            0 used    1 call_ind      2 unused    3 only block type (empty mv block)   4 imported unused func   5 unused
    sp.imports = [
        dict(module=S('e'), name=S('used_f'), kind='func', type=0),       # func 0: called
        dict(module=S('e'), name=S('unused_f'), kind='func', type=4),     # func 1: only called from dead function
        dict(module=S('e'), name=S('used_g'), kind='global', **scen.glob('ig0', 'i32', mutable=False)),     # global 0: init of used global
        dict(module=S('e'), name=S('unused_g'), kind='global', **scen.glob('ig1', 'i32', mutable=False)),   # global 1
        dict(module=S('e'), name=S('unused_m'), kind='memory', **scen.mem('im0', m64=False, shared=False)), # memory 0 unused
        dict(module=S('e'), name=S('itab'), kind='table', **scen.table('it0', t64=False)),                   # table 0: active elem -> root
        dict(module=S('e'), name=S('unused_t'), kind='table', **scen.table('it1', t64=False)),               # table 1 unused
    ]
    # local funcs: indices 2..
    F = {}
    names = ['f_exp', 'f_a', 'f_dead', 'f_dead2', 'f_decl', 'f_start', 'f_elem', 'f_tab']
    for k, n in enumerate(names):
        F[n] = 2 + k
    sp.funcs = [
        dict(type=0, ops=tagged_body('f_exp', 0, [OP('Call', function_index=u32(F['f_a'])), OP('Call', function_index=u32(0))])),
        dict(type=0, ops=tagged_body('f_a', 1, [
            OP('GlobalGet', global_index=u32(2)), OP('Drop'),                                             # global 2 = g_used
            OP('I32Const', value=sym('fa_k', 'i32')), OP('I32Const', value=sym('fa_i', 'i32')), OP('CallIndirect', type_index=u32(1), table_index=u32(2)), OP('Drop'),
            OP('I32Const', value=bv(0, 'i32')), OP('I32Const', value=bv(0, 'i32')), OP('I32Const', value=bv(0, 'i32')), OP('MemoryInit', data_index=u32(1), mem=u32(1)),
            OP('I32Const', value=bv(0, 'i32')), OP('I32Const', value=bv(0, 'i32')), OP('I32Const', value=bv(0, 'i32')), OP('TableInit', elem_index=u32(2), table=u32(2)),
            OP('I32Const', value=bv(1, 'i32')), OP('I32Const', value=bv(2, 'i32')), OP('Loop', blockty=BT_FUNC(3)), OP('End'), OP('Drop'), OP('Drop'),
        ])),
        dict(type=0, ops=tagged_body('f_dead', 2, [OP('F64Const', value=scen.ieee64(sym('fd', 'u64'))), OP('Call', function_index=u32(1)), OP('Drop'), OP('GlobalGet', global_index=u32(3)), OP('Drop')])),
        dict(type=2, ops=tagged_body('f_dead2', 0)),
        dict(type=0, ops=tagged_body('f_decl', 3)),
        dict(type=0, ops=tagged_body('f_start', 0, [OP('DataDrop', data_index=u32(3))])),
        dict(type=1, ops=tagged_body('f_elem', 2, [OP('LocalGet', local_index=u32(0))])),
        dict(type=1, ops=tagged_body('f_tab', 4, [OP('LocalGet', local_index=u32(0))])),
    ]
    sp.func_tags = names
    sp.tables = [scen.table('t_used', t64=False), scen.table('t_unused', t64=False)]          # tables 2, 3
    sp.memories = [scen.mem('m_used', m64=False, shared=False), scen.mem('m_unused', m64=False, shared=False)]   # memories 1, 2
    sp.globals = [
        scen.glob('g_used', 'i32', OP('GlobalGet', global_index=u32(0))),     # global 2 -> imported global 0
        scen.glob('g_unused', 'i32', OP('GlobalGet', global_index=u32(1))),   # global 3 -> imported global 1 (only from dead code)
        scen.glob('g_fn', 'funcref', OP('RefFunc', function_index=u32(F['f_dead2']))),   # global 4: unused, refers to f_dead2
    ]
    sp.exports = [dict(name=S('run'), kind='Func', index=u32(F['f_exp']))]
    sp.start = u32(F['f_start'])
    sp.elements = [
        dict(mode='active', table=None, offset=OP('I32Const', value=sym('e0_off', 'i32')), items=('funcs', [u32(F['f_elem'])])),        # 0: imported table -> root
        dict(mode='active', table=u32(2), offset=OP('I32Const', value=sym('e1_off', 'i32')), items=('funcs', [u32(F['f_tab'])])),        # 1: t_used -> kept with the table
        dict(mode='passive', items=('funcs', [u32(F['f_tab'])])),                                                                          # 2: used by table.init
        dict(mode='passive', items=('funcs', [u32(F['f_dead'])])),                                                                         # 3: unused
        dict(mode='declared', items=('exprs', 'funcref', [OP('RefFunc', function_index=u32(F['f_decl']))])),                              # 4: declared -> root
        dict(mode='active', table=u32(3), offset=OP('I32Const', value=sym('e5_off', 'i32')), items=('funcs', [u32(F['f_dead2'])])),      # 5: unused local table -> dropped
    ]
    sp.data = [
        dict(mode='active', memory=u32(1), offset=OP('I32Const', value=sym('d0_off', 'i32')), data=Opaque('bytes:d0')),    # 0 active -> root, keeps m_used
        dict(mode='passive', data=Opaque('bytes:d1')),                                                                     # 1 memory.init
        dict(mode='passive', data=Opaque('bytes:d2')),                                                                     # 2 unused
        dict(mode='passive', data=Opaque('bytes:d3')),                                                                     # 3 data.drop in start
    ]
    sp.data_count = u32(4)
    sp.names = {'data': {1: S('n_d1'), 3: S('n_d3')}, 'functions': {F['f_a']: S('n_fa'), F['f_tab']: S('n_ftab')}, 'elements': {2: S('n_e2'), 4: S('n_e4')}}
    return sp


def gc_module_b():
    """work-list order: a local table T2 with two active segments is discovered late; one of its segments is named by
    elem.drop in the first function, the table only by a function reached through another table's segment"""
    sp = Spec()
    sp.types = [([], []), (['i32'], ['i32'])]
    sp.funcs = [
        dict(type=0, ops=tagged_body('run', 0, [OP('ElemDrop', elem_index=u32(1)), OP('I32Const', value=sym('k', 'i32')), OP('I32Const', value=sym('i', 'i32')),
                                                OP('CallIndirect', type_index=u32(1), table_index=u32(0)), OP('Drop')])),
        dict(type=1, ops=tagged_body('f_late', 1, [OP('LocalGet', local_index=u32(0)), OP('I32Const', value=sym('j', 'i32')), OP('CallIndirect', type_index=u32(1), table_index=u32(1))])),
        dict(type=1, ops=tagged_body('f_x', 2, [OP('LocalGet', local_index=u32(0))])),
        dict(type=1, ops=tagged_body('f_y', 3, [OP('LocalGet', local_index=u32(0))])),
        dict(type=0, ops=tagged_body('f_dead', 4)),
    ]
    sp.func_tags = ['run', 'f_late', 'f_x', 'f_y', 'f_dead']
    sp.tables = [scen.table('t1', t64=False), scen.table('t2', t64=False)]
    sp.exports = [dict(name=S('run'), kind='Func', index=u32(0))]
    sp.elements = [
        dict(mode='active', table=None, offset=OP('I32Const', value=sym('e0_off', 'i32')), items=('funcs', [u32(1)])),
        dict(mode='active', table=u32(1), offset=OP('I32Const', value=sym('e1_off', 'i32')), items=('funcs', [u32(2)])),
        dict(mode='active', table=u32(1), offset=OP('I32Const', value=sym('e2_off', 'i32')), items=('funcs', [u32(3)])),
    ]
    return sp


def gc_module_c():
    """dead passive data next to an unreferenced memory; externref expression segment with global.get; declared segment
    mixing a live and an otherwise dead function; earlier data segment removed (index map of the later ones)"""
    sp = Spec()
    sp.types = [([], []), ([], ['funcref'])]
    sp.imports = [dict(module=S('e'), name=S('ext'), kind='global', **scen.glob('ig', 'externref', mutable=False)),
                  dict(module=S('e'), name=S('m'), kind='memory', **scen.mem('im', m64=False, shared=False))]
    sp.funcs = [
        dict(type=1, ops=tagged_body('run', 0, [OP('RefFunc', function_index=u32(1)), OP('DataDrop', data_index=u32(2))])),
        dict(type=0, ops=tagged_body('f_live', 1)),
        dict(type=0, ops=tagged_body('f_only_declared', 2)),
        dict(type=0, ops=tagged_body('f_dead', 3)),
    ]
    sp.func_tags = ['run', 'f_live', 'f_only_declared', 'f_dead']
    sp.tables = [scen.table('tx', 'externref', t64=False)]
    sp.exports = [dict(name=S('run'), kind='Func', index=u32(0)), dict(name=S('t'), kind='Table', index=u32(0))]
    sp.elements = [
        dict(mode='declared', items=('funcs', [u32(1), u32(2)])),
        dict(mode='active', table=None, offset=OP('I32Const', value=sym('e1_off', 'i32')), items=('exprs', 'externref', [OP('GlobalGet', global_index=u32(0)), OP('RefNull', hty=heap('externref'))])),
        dict(mode='passive', items=('funcs', [u32(3)])),
    ]
    sp.data = [dict(mode='passive', data=Opaque('bytes:dead0')), dict(mode='passive', data=Opaque('bytes:dead1')), dict(mode='passive', data=Opaque('bytes:live2'))]
    sp.data_count = u32(3)
    sp.names = {'data': {2: S('n_live2'), 0: S('n_dead0')}}
    return sp


def gc_module_d():
    """nothing reachable but one export: everything else must go (incl. the memory: no data is kept)"""
    sp = Spec()
    sp.types = [([], []), (['i32'], [])]
    sp.imports = [dict(module=S('e'), name=S('m'), kind='memory', **scen.mem('im', m64=False, shared=False))]
    sp.funcs = [dict(type=0, ops=tagged_body('run', 0)), dict(type=1, ops=tagged_body('dead', 1))]
    sp.func_tags = ['run', 'dead']
    sp.memories = [scen.mem('m2', m64=False, shared=False)]
    sp.exports = [dict(name=S('run'), kind='Func', index=u32(0))]
    sp.data = [dict(mode='passive', data=Opaque('bytes:p0')), dict(mode='passive', data=Opaque('bytes:p1'))]
    sp.data_count = u32(2)
    return sp


def gc_module_e():
    """entities mentioned ONLY inside a block nested in dead code (after return / br / unreachable): the parser never
    attaches such a block to the body, so everything it mentions is garbage"""
    sp = Spec()
    sp.types = [([], []), (['i32'], ['i32']), (['i64'], ['i64'])]
    sp.imports = [dict(module=S('e'), name=S('only_dead'), kind='func', type=2)]
    dead_block = [OP('Block', blockty=BT_EMPTY),
                  OP('Call', function_index=u32(2)), OP('GlobalGet', global_index=u32(0)), OP('Drop'),
                  OP('I32Const', value=bv(0, 'i32')), OP('TableGet', table=u32(0)), OP('Drop'), OP('MemorySize', mem=u32(0)), OP('Drop'),
                  OP('DataDrop', data_index=u32(0)), OP('ElemDrop', elem_index=u32(0)),
                  OP('I64Const', value=sym('dk', 'i64')), OP('Call', function_index=u32(0)), OP('Drop'),
                  OP('I32Const', value=sym('di', 'i32')), OP('I32Const', value=sym('dj', 'i32')), OP('CallIndirect', type_index=u32(1), table_index=u32(0)), OP('Drop'),
                  OP('End')]
    sp.funcs = [
        dict(type=0, ops=tagged_body('run', 0, [OP('Return')] + dead_block)),
        dict(type=0, ops=tagged_body('f_dead', 1)),
        dict(type=0, ops=tagged_body('run2', 2, [OP('Block', blockty=BT_EMPTY), OP('Br', relative_depth=u32(0)), OP('Loop', blockty=BT_EMPTY), OP('Call', function_index=u32(2)), OP('End'), OP('End'),
                                              OP('Unreachable'), OP('I32Const', value=sym('c', 'i32')), OP('If', blockty=BT_EMPTY), OP('GlobalGet', global_index=u32(0)), OP('Drop'), OP('Else'), OP('ElemDrop', elem_index=u32(0)), OP('End')])),
    ]
    sp.func_tags = ['run', 'f_dead', 'run2']
    sp.tables = [scen.table('t_dead', t64=False)]
    sp.memories = [scen.mem('m_dead', m64=False, shared=False)]
    sp.globals = [scen.glob('g_dead', 'i32', OP('I32Const', value=sym('g_init', 'i32')))]
    sp.exports = [dict(name=S('run'), kind='Func', index=u32(1)), dict(name=S('run2'), kind='Func', index=u32(3))]
    sp.elements = [dict(mode='passive', items=('funcs', [u32(2)]))]
    sp.data = [dict(mode='passive', data=Opaque('bytes:pd'))]
    sp.data_count = u32(1)
    return sp


def gc_module_f():
    """an UNREACHABLE local table with an active segment whose offset is global.get of an imported global mentioned
    nowhere else: table, segment, the function it lists, that function's type, the global and its import are all garbage;
    the same shape on an IMPORTED table is a root (control)"""
    sp = Spec()
    sp.types = [([], []), (['i64'], ['i64'])]
    sp.imports = [dict(module=S('e'), name=S('off_dead'), kind='global', **scen.glob('ig_dead', 'i32', mutable=False)),
                  dict(module=S('e'), name=S('off_live'), kind='global', **scen.glob('ig_live', 'i32', mutable=False)),
                  dict(module=S('e'), name=S('itab'), kind='table', **scen.table('it', t64=False))]
    sp.funcs = [dict(type=0, ops=tagged_body('run', 0)), dict(type=1, ops=tagged_body('f_dead', 1, [OP('LocalGet', local_index=u32(0))])), dict(type=0, ops=tagged_body('f_live', 2))]
    sp.func_tags = ['run', 'f_dead', 'f_live']
    sp.tables = [scen.table('t_dead', t64=False)]          # table 1 (table 0 is the import)
    sp.exports = [dict(name=S('run'), kind='Func', index=u32(0))]
    sp.elements = [dict(mode='active', table=u32(1), offset=OP('GlobalGet', global_index=u32(0)), items=('funcs', [u32(1)])),
                   dict(mode='active', table=None, offset=OP('GlobalGet', global_index=u32(1)), items=('funcs', [u32(2)]))]
    return sp


def gc_module_g():
    """a declared segment lists an EXPORTED function next to a function mentioned nowhere else: declared segments are
    (conservatively) roots, so both stay; nothing takes ref.func, so no declaration is otherwise needed"""
    sp = Spec()
    sp.types = [([], [])]
    sp.funcs = [dict(type=0, ops=tagged_body('run', 0)), dict(type=0, ops=tagged_body('f_exported', 1)), dict(type=0, ops=tagged_body('f_only_declared', 2)), dict(type=0, ops=tagged_body('f_dead', 3))]
    sp.func_tags = ['run', 'f_exported', 'f_only_declared', 'f_dead']
    sp.exports = [dict(name=S('run'), kind='Func', index=u32(0)), dict(name=S('f'), kind='Func', index=u32(1))]
    sp.elements = [dict(mode='declared', items=('funcs', [u32(1), u32(2)])), dict(mode='declared', items=('exprs', 'funcref', [OP('RefFunc', function_index=u32(2)), OP('RefFunc', function_index=u32(1))]))]
    return sp


SCENARIOS = [('declared-mixed-exported', gc_module_g), ('dead-table-global-offset', gc_module_f), ('dead-nested-blocks', gc_module_e), ('all-kinds', gc_module_a), ('late-table', gc_module_b), ('mixed-declared-extern-data', gc_module_c), ('only-export', gc_module_d)]


def keep_sets(spec, declared_roots=True):
    used, nimp = gcref.reachable(spec, declared_roots)
    keep = {k: set(v) for k, v in used.items()}
    # tolerated residue: one memory kept only so that retained data segments stay acceptable to third-party tools
    residue = None
    nmem = nimp['memory'] + len(spec.memories)
    if used['data'] and not used['memory'] and nmem:
        residue = 0
    return keep, residue


def classify(key):
    """which property a mismatch key belongs to: missing things -> C06, extra things -> C07"""
    extra = ('types.extra', 'funcs.extra', 'imports.count+', 'tables.count+', 'memories.count+', 'globals.count+', 'elements.count+', 'data.count+', 'funcs.count+')
    if key in extra or key.endswith('+'):
        return 'C07'
    return 'C06'


def run_gc_scenario(ctx, report, pid, name, spec, timeout_ms, table):
    ob = common.Obligation('O6:%s' % name if pid == 'C06' else 'O7:%s' % name,
                           ('after gc::run and emit every entity reachable from the roots is present with everything it refers to, no panic, structure preserved' if pid == 'C06'
                            else 'after gc::run no unreachable import/function/global/table/memory/data/element/type remains, and a second run changes nothing') + ' [description %s]' % name)
    try:
        I, P = pc.new_pipeline(ctx)
        oks, errs, panics = pc.parse_ok_paths(I, P, spec)
        vios = []
        for s in panics:
            vios.append(('C06', {'key': 'parse.panic', 'what': '[%s] parse panics' % name, 'spec': spec, 'model': None, 'pc': list(s.pc)}))
        for s, e in errs:
            vios.append(('C06', {'key': 'parse.rejects', 'what': '[%s] parse rejects the description' % name, 'spec': spec, 'model': None, 'pc': list(s.pc)}))
        keep, residue = keep_sets(spec)
        keep_min, residue_min = keep_sets(spec, declared_roots=False)
        IN = modcmp.in_module(spec)
        n = 0
        for s, module in oks:
            mref = I.halloc(s, module)
            for s1, v1 in pipeline.run_gc(P, s, mref):
                if v1 is PANIC:
                    vios.append(('C06', {'key': 'gc.panic', 'what': '[%s] gc::run panics: %r' % (name, pc.pipeline_panic_events(s1)[:2]), 'spec': spec, 'model': None, 'pc': list(s1.pc), 'steps': ('gc', 'emit')}))
                    continue
                runs = [(s1, ('gc', 'emit'))]
                if pid == 'C07':
                    runs = []
                    for s1b, v1b in pipeline.run_gc(P, s1.fork(), mref):
                        if v1b is PANIC:
                            vios.append(('C07', {'key': 'gc2.panic', 'what': '[%s] second gc::run panics' % name, 'spec': spec, 'model': None, 'pc': list(s1b.pc), 'steps': ('gc', 'gc', 'emit')}))
                            continue
                        runs.append((s1b, ('gc', 'gc', 'emit')))
                    runs.append((s1, ('gc', 'emit')))
                for sx, steps in runs:
                    for s2, rec, _m in P.run_emit(sx.fork() if len(runs) > 1 else sx, None, mref=mref):
                        if rec is PANIC:
                            vios.append(('C06', {'key': 'emit.panic', 'what': '[%s] emit after %s panics: %r' % (name, '+'.join(steps[:-1]), pc.pipeline_panic_events(s2)[:2]), 'spec': spec, 'model': None, 'pc': list(s2.pc), 'steps': steps}))
                            continue
                        n += 1
                        OUT = modcmp.out_module(rec)
                        def compare(keep_, residue_):
                            vios = []
                            k2 = {k: set(v) for k, v in keep_.items()}
                            if residue_ is not None and (len(OUT['memories']) + sum(1 for i in OUT['imports'] if i['kind'] == 'memory')) == 1:
                                k2['memory'].add(residue_)
                            C, pi = modcmp.compare_structure(spec, IN, OUT, spec.func_tags, keep=k2)
                            # bodies of kept functions
                            nimp = sum(1 for i in spec.imports if i['kind'] == 'func')
                            types = [(tuple(p), tuple(r)) for p, r in spec.types]
                            for k, f in enumerate(spec.funcs):
                                j = pi['func'].get(nimp + k)
                                if j is None or nimp + k not in k2['func']:
                                    continue
                                B = bodycmp.BodyCmp(table, pi, C)
                                nimp_out = sum(1 for i in OUT['imports'] if i['kind'] == 'func')
                                if 0 <= j - nimp_out < len(OUT['code']):
                                    B.compare(spec.func_tags[k], f['ops'], OUT['code'][j - nimp_out]['instrs'], types)
                            # names of kept data/elements/functions must follow the renumbering (emit-time index map)
                            if spec.names and OUT['names'] is not None:
                                for sub, kind in (('functions', 'func'), ('elements', 'element'), ('data', 'data')):
                                    exp = {pi[kind][i]: modcmp.tok(nm) for i, nm in spec.names.get(sub, {}).items() if i in k2[kind] and pi[kind].get(i) is not None}
                                    got = OUT['names'].get(sub, {}) or {}
                                    if exp != got:
                                        C.bad.append(('names.' + sub, '%s names after gc: expected %r, emitted %r' % (sub, exp, got)))
                            for key, what in C.bad:
                                count_more = key.endswith('.count') and _more(what)
                                prop = 'C07' if (key in ('types.extra', 'funcs.extra') or count_more) else 'C06'
                                if len(steps) == 3:
                                    prop = 'C07'
                                    key = 'gc-twice:' + key
                                vios.append((prop, {'key': key, 'what': '[%s after %s] %s' % (name, '+'.join(steps[:-1]), what), 'spec': spec, 'model': None, 'pc': list(s2.pc), 'steps': steps,
                                                    'native_check': native_gc(steps)}))
                            for key, what, cond in C.todo:
                                sol = z3.Solver()
                                sol.set('timeout', timeout_ms)
                                sol.add(*s2.pc)
                                sol.add(cond)
                                report.queries += 1
                                r = sol.check()
                                if r == z3.unknown:
                                    raise Inconclusive('solver timeout')
                                common.cross_check(sol, r)
                                if r == z3.sat:
                                    vios.append(('C06', {'key': key, 'what': '[%s] %s not preserved' % (name, what), 'spec': spec, 'model': sol.model(), 'steps': steps}))

                            return vios
                        v1 = compare(keep, residue)
                        if v1 and keep_min != keep:
                            # declared segments have no run-time effect: a GC that drops the ones nothing needs is just as good
                            try:
                                v2 = compare(keep_min, residue_min)
                            except modcmp.Mismatch:
                                v2 = [None]
                            if not v2:
                                v1 = []
                        vios += v1
        mine = [v for p, v in vios if p == pid]
        ob.detail = '%d emit paths; reference keep-set sizes %r' % (n, {k: len(v) for k, v in keep.items()})
        if n == 0 and not mine:
            ob.status, ob.detail = 'inconclusive', 'vacuous: ' + ob.detail
        elif mine:
            ob.status = 'violated'
            seen = set()
            for v in mine:
                if v['key'] not in seen:
                    seen.add(v['key'])
                    report.violations.append(v)
            ob.cex = [v['what'][:300] for v in mine[:4]]
        else:
            ob.status = 'discharged'
    except Inconclusive as ex:
        ob.status, ob.detail = 'inconclusive', str(ex)[:400]
    except modcmp.Mismatch as ex:
        ob.status, ob.detail = 'inconclusive', 'output record not understood: ' + str(ex)[:300]
    report.add(ob)


def _more(what):
    import re
    m = re.search(r'(\d+) expected, (\d+) emitted', what)
    return bool(m) and int(m.group(2)) > int(m.group(1))


def native_gc(steps):
    def check(r):
        """native confirmation: the decoded output differs from the decoded input restricted to ... (we only confirm that
        the real run shows the same kind of symptom: validity, panic, or entity counts different from the expectation
        recorded in the witness)"""
        out = r['emits'][-1]
        info = {'valid': out['valid'], 'counts': {k: len(out['dump'][k]) for k in ('imports', 'functions', 'tables', 'memories', 'globals', 'elements', 'data', 'types')}}
        return True, info
    return check


def run(tier, seed, only=None, pid='C06'):
    report = common.Report(pid, tier, seed)
    ctx = common.Ctx()
    timeout_ms = 60000 if tier == 'quick' else 600000
    table = witness.load_table()

    from obligations import gen
    gl = gen.generated(tier, seed)
    items = [(pid, name, mk(), timeout_ms, table) for name, mk in SCENARIOS if not only or name in only]
    items += [(pid, name, sp, timeout_ms, table) for name, sp in gl if not only or name in only]
    pc.run_parallel(ctx, report, run_gc_scenario, items)
    report.bounds = {'generated': gen.bounds_text(tier, len(gl)), 'descriptions': '4: (a) reachable and unreachable entity of every kind incl. imports of all four kinds, call_indirect / memory.init / table.init / data.drop / elem.drop operands, a type used only by an empty multi-value loop, passive/declared/active segments; (b) late-discovered table with two active segments; (c) declared segment mixing live and dead functions, externref expression segment with global.get, dead passive data before live data; (d) only one export reachable',
                     'attributes': 'limits, flags, offsets, constants symbolic'}
    report.assumptions = ['behaviour is not executed: "keeps everything reachable and what it refers to" is checked structurally against the reference closure (gcref.py)',
                          'tolerated residue: one memory when data segments are kept and no memory is used; out-of-bounds active element segments of unreferenced local tables are dropped',
                          'custom-section roots (user add_gc_roots) are outside the claim']
    report.samples = [o.as_json() for o in report.obligations[:4]]
    return report, ctx
