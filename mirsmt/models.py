"""Contract models of library calls (std, alloc, core, log, anyhow) for the MIR interpreter.
Every model that fires is counted and listed in the evidence file.  Containers are structurally
concrete (lengths are Python integers, elements are terms)."""
import re

import z3

from .values import *
from .defs import strip_generics

MODELS = []


def model(pattern, label=None):
    def deco(f):
        MODELS.append((pattern, f, label or f.__name__))
        return f
    return deco


def install(I):
    for pat, f, label in MODELS:
        I.add_model(pat, f, label, front=False)
    install_iter_hooks(I)


# ------------------------------------------------------------------ helpers
def values_eq(I, st, a, b):
    """structural equality as a z3 Bool (concrete structure, symbolic leaves)"""
    a = I.deref(st, a)
    b = I.deref(st, b)
    if isinstance(a, BV) and isinstance(b, BV):
        if a.t.size() != b.t.size():
            raise Inconclusive('eq on different widths')
        return a.t == b.t
    if isinstance(a, z3.BoolRef) and isinstance(b, z3.BoolRef):
        return a == b
    if isinstance(a, Enum) and isinstance(b, Enum):
        if a.variant != b.variant:
            return z3.BoolVal(False)
        return z3.And(*[values_eq(I, st, x, y) for x, y in zip(a.f, b.f)]) if a.f else z3.BoolVal(True)
    if isinstance(a, Struct) and isinstance(b, Struct):
        if len(a.f) != len(b.f):
            raise Inconclusive('eq on different struct shapes')
        return z3.And(*[values_eq(I, st, x, y) for x, y in zip(a.f, b.f)]) if a.f else z3.BoolVal(True)
    if isinstance(a, VecVal) and isinstance(b, VecVal):
        if len(a.items) != len(b.items):
            return z3.BoolVal(False)
        return z3.And(*[values_eq(I, st, x, y) for x, y in zip(a.items, b.items)]) if a.items else z3.BoolVal(True)
    if isinstance(a, Opaque) and isinstance(b, Opaque):
        if a is b:
            return z3.BoolVal(True)
        if a.name.startswith(('str:"', 'const ')) and b.name.startswith(('str:"', 'const ')):
            return z3.BoolVal(a.name == b.name)
        # distinct opaque tokens: equality is an uninterpreted boolean keyed on the pair
        return z3.Bool('eq[%s|%s]' % tuple(sorted((a.name, b.name))))
    raise Inconclusive('equality of %r and %r' % (a, b))


def elem_ref(ref, i):
    return Ref(ref.key, ref.path + (('elem', i),))


def vec_at(I, st, r):
    """(ref-to-VecVal, VecVal) behind any chain of references"""
    cur = r
    n = 0
    while True:
        if not isinstance(cur, Ref):
            if isinstance(cur, VecVal):
                return None, cur
            raise Inconclusive('expected a vector, got %r' % (cur,))
        v = I.read_ref(st, cur)
        if isinstance(v, Ref):
            cur = v
            n += 1
            if n > 20:
                raise Inconclusive('ref chain')
            continue
        if isinstance(v, VecVal):
            return cur, v
        if isinstance(v, Struct) and len(v.f) == 1 and isinstance(v.f[0], (VecVal, Ref)):
            cur = Ref(cur.key, cur.path + (('field', 0),))   # newtype around a vector
            continue
        raise Inconclusive('expected a vector, got %r' % (v,))


def ret(cont, st, v):
    cont(st, v)


def fork_bool(I, st, cond, k_true, k_false):
    cond = z3.simplify(as_bool(cond))
    if z3.is_true(cond):
        return k_true(st)
    if z3.is_false(cond):
        return k_false(st)
    ft = I.feasible(st, cond)
    ff = I.feasible(st, z3.Not(cond))
    if ft and ff:
        I.stats['forks'] += 1
        s2 = st.fork()
        s2.pc.append(cond)
        k_true(s2)
        st.pc.append(z3.Not(cond))
        k_false(st)
    elif ft:
        st.pc.append(cond)
        k_true(st)
    elif ff:
        st.pc.append(z3.Not(cond))
        k_false(st)


# ------------------------------------------------------------------ panics / fmt / log / anyhow
@model(r'^<log::Level as PartialOrd<log::LevelFilter>>::le$|^<Level as PartialOrd<LevelFilter>>::le$', 'log gate (max level = Off)')
def m_log_le(I, st, c, args, cont, depth, site):
    cont(st, z3.BoolVal(False))


@model(r'^log::max_level$', 'log::max_level = Off')
def m_log_max(I, st, c, args, cont, depth, site):
    cont(st, Enum('log::LevelFilter', 'Off'))


@model(r'(^|::)Arguments::<.*>::(new_const|new_v1|new_v1_formatted|from_str|new)\b|core::fmt::rt::Argument::<.*>::new_|^std::fmt::format$|^alloc::fmt::format$|^format$|fmt::rt::Argument::<\'_>::new_', 'fmt (no-op)')
def m_fmt(I, st, c, args, cont, depth, site):
    cont(st, Opaque('fmt'))


@model(r'^anyhow::__private::(format_err|must_use)$|^anyhow::Error::msg::<|^anyhow::Error::(msg|new|from)\b|^<anyhow::Error as From<.*>>::from$|^anyhow::error::<impl anyhow::Error>::(msg|new|construct)|anyhow::__private::kind|(Adhoc|Trait)::new::<|^<.* as anyhow::kind::\w+Kind>::anyhow_kind$|^anyhow::kind::\w+::new', 'anyhow error construction (opaque)')
def m_anyhow(I, st, c, args, cont, depth, site):
    cont(st, Opaque('anyhow::Error'))


@model(r"^<(std::result::)?Result<.*> as (anyhow::)?Context<.*>>::(context|with_context)::<", 'anyhow Context (pass-through)')
def m_context(I, st, c, args, cont, depth, site):
    v = args[0]
    if isinstance(v, Enum) and v.variant == 'Ok':
        return cont(st, v)
    if isinstance(v, Enum) and v.variant == 'Err':
        return cont(st, err(Opaque('anyhow::Error')))
    raise Inconclusive('context on %r' % (v,))


@model(r"^<(std::option::)?Option<.*> as (anyhow::)?Context<.*>>::(context|with_context)::<", 'anyhow Context on Option')
def m_context_opt(I, st, c, args, cont, depth, site):
    v = args[0]
    if isinstance(v, Enum) and v.variant == 'Some':
        return cont(st, ok(v.f[0]))
    if isinstance(v, Enum) and v.variant == 'None':
        return cont(st, err(Opaque('anyhow::Error')))
    raise Inconclusive('context on %r' % (v,))


# ------------------------------------------------------------------ Option / Result
def _opt(I, st, v):
    v = I.deref(st, v) if isinstance(v, Ref) else v
    if not isinstance(v, Enum):
        raise Inconclusive('expected Option/Result, got %r' % (v,))
    return v


@model(r'^(std::(option|result)::)?(Option|Result)::<.*>::(unwrap|expect)$', 'Option/Result::unwrap|expect')
def m_unwrap(I, st, c, args, cont, depth, site):
    v = _opt(I, st, args[0])
    if v.variant in ('Some', 'Ok'):
        return cont(st, v.f[0])
    I.event(st, 'PANIC', 'unwrap/expect on ' + v.variant, site.fn.name[:80] if site else '', site.bb if site else '')
    cont(st, PANIC)


@model(r'^(std::(option|result)::)?(Option|Result)::<.*>::(unwrap_err|expect_err)$', 'Result::unwrap_err')
def m_unwrap_err(I, st, c, args, cont, depth, site):
    v = _opt(I, st, args[0])
    if v.variant == 'Err':
        return cont(st, v.f[0])
    I.event(st, 'PANIC', 'unwrap_err on Ok')
    cont(st, PANIC)


@model(r'^(std::(option|result)::)?(Option|Result)::<.*>::(is_some|is_none|is_ok|is_err)$', 'Option/Result::is_*')
def m_is(I, st, c, args, cont, depth, site):
    v = _opt(I, st, args[0])
    want = {'is_some': 'Some', 'is_none': 'None', 'is_ok': 'Ok', 'is_err': 'Err'}[c.rsplit('::', 1)[1]]
    cont(st, z3.BoolVal(v.variant == want))


@model(r'^(std::option::)?Option::<.*>::(as_ref|as_mut|as_deref|as_deref_mut)$', 'Option::as_ref|as_mut')
def m_as_ref(I, st, c, args, cont, depth, site):
    r = args[0]
    if not isinstance(r, Ref):
        raise Inconclusive('as_ref on non-ref %r' % (r,))
    v = I.read_ref(st, r)
    if isinstance(v, Opaque):
        return cont(st, Opaque('as_ref(%s)' % v.name))
    if v.variant == 'None':
        return cont(st, none())
    inner = Ref(r.key, r.path + (('downcast', 'Some'), ('field', 0)))
    if 'deref' in c.rsplit('::', 1)[1]:
        iv = I.read_ref(st, inner)
        if isinstance(iv, Ref):
            inner = iv
    cont(st, some(inner))


@model(r'^(std::result::)?Result::<.*>::(as_ref|as_mut)$', 'Result::as_ref')
def m_res_as_ref(I, st, c, args, cont, depth, site):
    r = args[0]
    v = I.read_ref(st, r)
    cont(st, Enum('Result', v.variant, (Ref(r.key, r.path + (('downcast', v.variant), ('field', 0))),)))


@model(r'^(std::option::)?Option::<.*>::take$', 'Option::take')
def m_take(I, st, c, args, cont, depth, site):
    v = I.read_ref(st, args[0])
    I.write_ref(st, args[0], none())
    cont(st, v)


@model(r'^(std::option::)?Option::<.*>::replace$', 'Option::replace')
def m_opt_replace(I, st, c, args, cont, depth, site):
    v = I.read_ref(st, args[0])
    I.write_ref(st, args[0], some(args[1]))
    cont(st, v)


@model(r'^(std::option::)?Option::<.*>::(cloned|copied)$', 'Option::cloned|copied')
def m_cloned(I, st, c, args, cont, depth, site):
    v = _opt(I, st, args[0])
    if v.variant == 'None':
        return cont(st, v)
    inner = v.f[0]
    cont(st, some(I.read_ref(st, inner) if isinstance(inner, Ref) else inner))


@model(r'^(std::option::)?Option::<.*>::map::<', 'Option::map')
def m_opt_map(I, st, c, args, cont, depth, site):
    v = _opt(I, st, args[0])
    if v.variant == 'None':
        return cont(st, none())
    I.call_closure(st, args[1], [v.f[0]], lambda s2, r: cont(s2, PANIC if r is PANIC else some(r)), depth)


@model(r'^(std::option::)?Option::<.*>::and_then::<', 'Option::and_then')
def m_opt_and_then(I, st, c, args, cont, depth, site):
    v = _opt(I, st, args[0])
    if v.variant == 'None':
        return cont(st, none())
    I.call_closure(st, args[1], [v.f[0]], cont, depth)


@model(r'^(std::option::)?Option::<.*>::(unwrap_or_else|map_or_else)::<', 'Option::unwrap_or_else')
def m_opt_unwrap_or_else(I, st, c, args, cont, depth, site):
    v = _opt(I, st, args[0])
    if 'map_or_else' in c:
        if v.variant == 'None':
            return I.call_closure(st, args[1], [], cont, depth)
        return I.call_closure(st, args[2], [v.f[0]], cont, depth)
    if v.variant == 'Some':
        return cont(st, v.f[0])
    I.call_closure(st, args[1], [], cont, depth)


@model(r'^(std::option::)?Option::<.*>::unwrap_or$', 'Option::unwrap_or')
def m_opt_unwrap_or(I, st, c, args, cont, depth, site):
    v = _opt(I, st, args[0])
    cont(st, v.f[0] if v.variant == 'Some' else args[1])


@model(r'^(std::option::)?Option::<.*>::(ok_or|ok_or_else)::<', 'Option::ok_or')
def m_ok_or(I, st, c, args, cont, depth, site):
    v = _opt(I, st, args[0])
    if v.variant == 'Some':
        return cont(st, ok(v.f[0]))
    if 'ok_or_else' in c:
        return I.call_closure(st, args[1], [], lambda s2, r: cont(s2, PANIC if r is PANIC else err(r)), depth)
    cont(st, err(args[1]))


@model(r'^(std::option::)?Option::<.*>::is_some_and::<', 'Option::is_some_and')
def m_is_some_and(I, st, c, args, cont, depth, site):
    v = _opt(I, st, args[0])
    if v.variant == 'None':
        return cont(st, z3.BoolVal(False))
    I.call_closure(st, args[1], [v.f[0]], cont, depth)


@model(r'^(std::result::)?Result::<.*>::(map_err|or_else)::<', 'Result::map_err')
def m_map_err(I, st, c, args, cont, depth, site):
    v = _opt(I, st, args[0])
    if v.variant == 'Ok':
        return cont(st, v)
    cont(st, err(Opaque('mapped error')))


@model(r'^(std::result::)?Result::<.*>::map::<', 'Result::map')
def m_res_map(I, st, c, args, cont, depth, site):
    v = _opt(I, st, args[0])
    if v.variant == 'Err':
        return cont(st, v)
    I.call_closure(st, args[1], [v.f[0]], lambda s2, r: cont(s2, PANIC if r is PANIC else ok(r)), depth)


@model(r'^(std::result::)?Result::<.*>::ok$', 'Result::ok')
def m_res_ok(I, st, c, args, cont, depth, site):
    v = _opt(I, st, args[0])
    cont(st, some(v.f[0]) if v.variant == 'Ok' else none())


@model(r'^<(std::(result|option)::)?(Result|Option)<.*> as (std::ops::)?Try>::branch$', 'Try::branch (? operator)')
def m_branch(I, st, c, args, cont, depth, site):
    v = _opt(I, st, args[0])
    if v.variant in ('Ok', 'Some'):
        return cont(st, Enum('ControlFlow', 'Continue', (v.f[0],)))
    if v.variant == 'Err':
        return cont(st, Enum('ControlFlow', 'Break', (err(v.f[0]),)))
    cont(st, Enum('ControlFlow', 'Break', (none(),)))


@model(r'^<(std::(result|option)::)?(Result|Option)<.*> as (std::ops::)?FromResidual<.*>>::from_residual$', 'FromResidual (? operator)')
def m_from_residual(I, st, c, args, cont, depth, site):
    v = _opt(I, st, args[0])
    if v.variant == 'Err':
        return cont(st, err(v.f[0]))
    cont(st, none())


# ------------------------------------------------------------------ Box / Vec / slices
@model(r'^(std::boxed::)?Box::<.*>::new$', 'Box::new')
def m_box_new(I, st, c, args, cont, depth, site):
    cont(st, I.halloc(st, args[0]))


@model(r'^(std::boxed::)?Box::<.*>::new_uninit$', 'Box::new_uninit (vec! lowering)')
def m_box_uninit(I, st, c, args, cont, depth, site):
    cont(st, I.halloc(st, None))


@model(r'box_assume_init_into_vec_unsafe|^(std::boxed::)?Box::<.*>::assume_init$', 'vec! lowering: assume_init')
def m_box_into_vec(I, st, c, args, cont, depth, site):
    v = I.deref(st, args[0])
    for _ in range(6):                                 # MaybeUninit / ManuallyDrop wrappers written field by field
        if isinstance(v, Struct) and not isinstance(v, VecVal):
            inner = [x for x in v.f if x is not None]
            if len(inner) == 1:
                v = inner[0]
                continue
        break
    if isinstance(v, VecVal):
        if 'into_vec' in c:
            return cont(st, VecVal(v.items, 'vec'))
        return cont(st, args[0])
    raise Inconclusive('assume_init of %r' % (v,))


@model(r'^(std::slice::|alloc::slice::)?<impl \[.*\]>::into_vec::<|^(std::vec::)?Vec::<.*>::into_boxed_slice$|^<Box<\[.*\]> as From<Vec<.*>>>::from$|^<Vec<.*> as Into<Box<\[.*\]>>>::into$|^<Vec<.*> as From<Box<\[.*\]>>>::from$|^<Vec<.*> as From<&\[.*\]>>::from$|^((core|std|alloc)::)?slice::<impl \[.*\]>::to_vec$|^<\[.*\] as ToOwned>::to_owned$|^<Vec<.*> as From<\[.*; \d+\]>>::from$|^(std::vec::)?Vec::<.*>::(as_slice|as_mut_slice)$|^<Box<\[.*\]> as From<\[.*\]>>::from$|^<Vec<.*> as From<&\[.*; \d+\]>>::from$|^<&\[.*\] as Into<Box<\[.*\]>>>::into$|^<Box<\[.*\]> as From<&\[.*\]>>::from$|^<&\[.*\] as Into<Vec<.*>>>::into$', 'Vec<->Box<[T]>/slice conversions')
def m_vec_conv(I, st, c, args, cont, depth, site):
    """Vec<T> is an inline VecVal; Box<[T]> is a heap reference to a VecVal (its deref is inlined in MIR)"""
    a = args[0]
    to_box = bool(re.search(r'into_boxed_slice$|^<Box<\[.*\]> as From<|as Into<Box<\[', c))
    if isinstance(a, Ref):
        if re.search(r'as_slice|as_mut_slice', c):
            return cont(st, a)
        r, v = vec_at(I, st, a)
        items = v.items
    elif isinstance(a, VecVal):
        items = a.items
    else:
        raise Inconclusive('vec conversion of %r' % (a,))
    if to_box:
        return cont(st, I.halloc(st, VecVal(items, 'boxed')))
    cont(st, VecVal(items, 'vec'))


@model(r'^(std::vec::)?Vec::<.*>::(new|with_capacity)$', 'Vec::new')
def m_vec_new(I, st, c, args, cont, depth, site):
    cont(st, VecVal())


@model(r'^<Vec<.*> as Default>::default$', 'Vec::default')
def m_vec_default(I, st, c, args, cont, depth, site):
    cont(st, VecVal())


@model(r'^(std::vec::)?Vec::<.*>::(push|pop|len|is_empty|clear|insert|remove|truncate|reserve|extend_from_slice|swap_remove|capacity|shrink_to_fit|append)$', 'Vec basic ops')
def m_vec_ops(I, st, c, args, cont, depth, site):
    op = c.rsplit('::', 1)[1]
    r, v = vec_at(I, st, args[0])
    items = list(v.items)
    if op == 'push':
        I.write_ref(st, r, VecVal(items + [args[1]], v.kind))
        return cont(st, unit())
    if op == 'pop':
        if items:
            I.write_ref(st, r, VecVal(items[:-1], v.kind))
            return cont(st, some(items[-1]))
        return cont(st, none())
    if op in ('len', 'capacity'):
        return cont(st, usize(len(items)))
    if op == 'is_empty':
        return cont(st, z3.BoolVal(not items))
    if op == 'clear':
        I.write_ref(st, r, VecVal((), v.kind))
        return cont(st, unit())
    if op in ('reserve', 'shrink_to_fit'):
        return cont(st, unit())
    if op == 'insert':
        i = conc(args[1])
        if i > len(items):
            I.event(st, 'PANIC', 'Vec::insert index out of bounds')
            return cont(st, PANIC)
        items.insert(i, args[2])
        I.write_ref(st, r, VecVal(items, v.kind))
        return cont(st, unit())
    if op in ('remove', 'swap_remove'):
        i = conc(args[1])
        if i >= len(items):
            I.event(st, 'PANIC', 'Vec::remove index out of bounds')
            return cont(st, PANIC)
        if op == 'swap_remove':
            # contract: the LAST element takes the place of the removed one (order is not preserved)
            x = items[i]
            items[i] = items[-1]
            items.pop()
        else:
            x = items.pop(i)
        I.write_ref(st, r, VecVal(items, v.kind))
        return cont(st, x)
    if op == 'truncate':
        n = conc(args[1])
        I.write_ref(st, r, VecVal(items[:n], v.kind))
        return cont(st, unit())
    if op == 'extend_from_slice':
        _, o = vec_at(I, st, args[1])
        I.write_ref(st, r, VecVal(items + list(o.items), v.kind))
        return cont(st, unit())
    if op == 'append':
        r2, o = vec_at(I, st, args[1])
        I.write_ref(st, r, VecVal(items + list(o.items), v.kind))
        I.write_ref(st, r2, VecVal((), o.kind))
        return cont(st, unit())
    raise Inconclusive('vec op ' + op)


@model(r'^<(std::borrow::)?Cow<.*> as (std::ops::)?(Deref|AsRef<.*>|Borrow<.*>)>::(deref|as_ref|borrow)$', 'Cow deref (payload tokens are carried by value)')
def m_cow_deref(I, st, c, args, cont, depth, site):
    v = I.deref(st, args[0]) if isinstance(args[0], Ref) else args[0]
    if isinstance(v, Enum) and v.ty == 'Cow':
        inner = v.f[0]
        return cont(st, inner if isinstance(inner, Ref) else I.halloc(st, inner))
    cont(st, args[0])


@model(r'^<(Vec|Box)<.*> as (std::ops::)?(Deref|DerefMut|AsRef<.*>|AsMut<.*>|Borrow<.*>)>::(deref|deref_mut|as_ref|as_mut|borrow)$', 'Vec/Box deref')
def m_deref(I, st, c, args, cont, depth, site):
    a = args[0]
    if c.startswith('<Box<') and isinstance(a, Ref):
        v = I.read_ref(st, a)
        if isinstance(v, Ref):
            return cont(st, v)
    cont(st, a)


@model(r'^(core|std)::slice::<impl \[.*\]>::(len|is_empty|last|last_mut|first|first_mut|get|get_mut|iter|iter_mut|contains|split_first|split_last)(::<.*>)?$', 'slice basic ops')
def m_slice_ops(I, st, c, args, cont, depth, site):
    op = re.search(r'\]>::(\w+)(::<.*>)?$', c).group(1)
    r, v = vec_at(I, st, args[0])
    n = len(v.items)
    if op == 'len':
        return cont(st, usize(n))
    if op == 'is_empty':
        return cont(st, z3.BoolVal(n == 0))
    if op in ('last', 'last_mut'):
        return cont(st, some(elem_ref(r, n - 1)) if n else none())
    if op in ('first', 'first_mut'):
        return cont(st, some(elem_ref(r, 0)) if n else none())
    if op in ('get', 'get_mut'):
        idx = args[1]
        if is_concrete(idx):
            i = conc(idx)
            return cont(st, some(elem_ref(r, i)) if i < n else none())
        # symbolic index into a concrete-length slice: case split
        def go(i, st):
            if i >= n:
                st.pc.append(z3.UGE(idx.t, z3.BitVecVal(n, idx.t.size())))
                if I.feasible(st):
                    cont(st, none())
                return
            cnd = idx.t == z3.BitVecVal(i, idx.t.size())
            if I.feasible(st, cnd):
                s2 = st.fork()
                s2.pc.append(cnd)
                cont(s2, some(elem_ref(r, i)))
            st.pc.append(z3.Not(cnd))
            go(i + 1, st)
        return go(0, st)
    if op in ('iter', 'iter_mut'):
        return cont(st, IterVal('slice', src=r, pos=0, end=n))
    if op == 'contains':
        x = args[1]
        return cont(st, z3.Or(*[values_eq(I, st, it, x) for it in v.items]) if v.items else z3.BoolVal(False))
    raise Inconclusive('slice op ' + op)


@model(r'^<(Vec<.*>|\[.*\]|Box<\[.*\]>) as (std::ops::)?(Index|IndexMut)<(usize|std::ops::RangeFull|RangeFull)>>::(index|index_mut)$', 'Vec/slice indexing')
def m_index(I, st, c, args, cont, depth, site):
    r, v = vec_at(I, st, args[0])
    if 'RangeFull' in c:
        return cont(st, r)
    idx = args[1]
    n = len(v.items)
    if is_concrete(idx):
        i = conc(idx)
        if i >= n:
            I.event(st, 'PANIC', 'index out of bounds: %d of %d' % (i, n), site.fn.name[:80] if site else '')
            return cont(st, PANIC)
        return cont(st, elem_ref(r, i))
    # symbolic index: split over the concrete length, out-of-range panics
    def go(i, st):
        if i >= n:
            st.pc.append(z3.UGE(idx.t, z3.BitVecVal(n, idx.t.size())))
            if I.feasible(st):
                I.event(st, 'PANIC', 'index out of bounds (symbolic)', site.fn.name[:80] if site else '')
                cont(st, PANIC)
            return
        cnd = idx.t == z3.BitVecVal(i, idx.t.size())
        if I.feasible(st, cnd):
            s2 = st.fork()
            s2.pc.append(cnd)
            cont(s2, elem_ref(r, i))
        st.pc.append(z3.Not(cnd))
        go(i + 1, st)
    go(0, st)


# ------------------------------------------------------------------ iterators
def iter_next(I, st, it, depth, k):
    """k(st, new_iter, option_value)"""
    kind = it.kind
    if kind == 'slice':
        end = it.kw.get('end')
        r = it.src
        if end is None:
            _, v = vec_at(I, st, r)
            end = len(v.items)
        if it.pos >= end:
            return k(st, it, none())
        return k(st, it.at(it.pos + 1), some(elem_ref(r, it.pos)))
    if kind == 'owned':
        items = it.kw['items']
        if it.pos >= len(items):
            return k(st, it, none())
        return k(st, it.at(it.pos + 1), some(items[it.pos]))
    if kind == 'range':
        lo, hi = it.kw['lo'], it.kw['hi']
        if lo + it.pos >= hi:
            return k(st, it, none())
        return k(st, it.at(it.pos + 1), some(bv(lo + it.pos, it.kw.get('ty', 'usize'))))
    if kind == 'enumerate':
        def k2(st2, inner, v):
            if v.variant == 'None':
                return k(st2, IterVal('enumerate', inner, it.pos), v)
            k(st2, IterVal('enumerate', inner, it.pos + 1), some(tup(usize(it.pos), v.f[0])))
        return iter_next(I, st, it.src, depth, k2)
    if kind == 'rev':
        return iter_next_back(I, st, it.src, depth, lambda st2, inner, v: k(st2, IterVal('rev', inner), v))
    if kind == 'skip':
        n = it.kw['n']
        if n > 0:
            return iter_next(I, st, it.src, depth, lambda st2, inner, v: iter_next(I, st2, IterVal('skip', inner, 0, n=n - 1), depth, k)
                             if v.variant == 'Some' else k(st2, IterVal('skip', inner, 0, n=0), v))
        return iter_next(I, st, it.src, depth, lambda st2, inner, v: k(st2, IterVal('skip', inner, 0, n=0), v))
    if kind == 'take':
        n = it.kw['n']
        if n == 0:
            return k(st, it, none())
        return iter_next(I, st, it.src, depth, lambda st2, inner, v: k(st2, IterVal('take', inner, 0, n=n - 1), v))
    if kind in ('copied', 'cloned'):
        def k3(st2, inner, v):
            if v.variant == 'None':
                return k(st2, IterVal(kind, inner), v)
            x = v.f[0]
            k(st2, IterVal(kind, inner), some(I.read_ref(st2, x) if isinstance(x, Ref) else x))
        return iter_next(I, st, it.src, depth, k3)
    if kind == 'map':
        clo = it.kw['clo']

        def k4(st2, inner, v):
            if v.variant == 'None':
                return k(st2, IterVal('map', inner, 0, clo=clo), v)
            I.call_closure(st2, clo, [v.f[0]], lambda st3, r: k(st3, IterVal('map', inner, 0, clo=clo), PANIC if r is PANIC else some(r)), depth)
        return iter_next(I, st, it.src, depth, k4)
    if kind == 'filter':
        clo = it.kw['clo']

        def k5(st2, inner, v):
            if v.variant == 'None':
                return k(st2, IterVal('filter', inner, 0, clo=clo), v)
            x = v.f[0]
            xr = I.halloc(st2, x)

            def after(st3, keep):
                if keep is PANIC:
                    return k(st3, IterVal('filter', inner, 0, clo=clo), PANIC)
                fork_bool(I, st3, keep, lambda s: k(s, IterVal('filter', inner, 0, clo=clo), some(x)),
                          lambda s: iter_next(I, s, IterVal('filter', inner, 0, clo=clo), depth, k))
            I.call_closure(st2, clo, [xr], after, depth)
        return iter_next(I, st, it.src, depth, k5)
    if kind in ('skip_while', 'take_while'):
        clo = it.kw['clo']
        done = it.kw.get('done', False)

        def k_sw(st2, inner, v):
            if v is PANIC or v.variant == 'None':
                return k(st2, IterVal(kind, inner, 0, clo=clo, done=done), v)
            if done and kind == 'skip_while':
                return k(st2, IterVal(kind, inner, 0, clo=clo, done=True), v)
            x = v.f[0]
            xr = I.halloc(st2, x)

            def after(st3, r):
                if r is PANIC:
                    return k(st3, it, PANIC)
                if kind == 'skip_while':
                    fork_bool(I, st3, r, lambda s: iter_next(I, s, IterVal(kind, inner, 0, clo=clo, done=False), depth, k),
                              lambda s: k(s, IterVal(kind, inner, 0, clo=clo, done=True), some(x)))
                else:
                    fork_bool(I, st3, r, lambda s: k(s, IterVal(kind, inner, 0, clo=clo, done=False), some(x)),
                              lambda s: k(s, IterVal('owned', None, 0, items=()), none()))
            I.call_closure(st2, clo, [xr], after, depth)
        if done and kind == 'take_while':
            return k(st, it, none())
        return iter_next(I, st, it.src, depth, k_sw)
    if kind == 'filter_map':
        clo = it.kw['clo']

        def k6(st2, inner, v):
            if v.variant == 'None':
                return k(st2, IterVal('filter_map', inner, 0, clo=clo), v)

            def after(st3, r):
                if r is PANIC:
                    return k(st3, IterVal('filter_map', inner, 0, clo=clo), PANIC)
                if r.variant == 'Some':
                    return k(st3, IterVal('filter_map', inner, 0, clo=clo), r)
                iter_next(I, st3, IterVal('filter_map', inner, 0, clo=clo), depth, k)
            I.call_closure(st2, clo, [v.f[0]], after, depth)
        return iter_next(I, st, it.src, depth, k6)
    if kind == 'chain':
        a, b = it.src, it.kw['b']
        if a is not None:
            def k7(st2, inner, v):
                if v.variant == 'Some':
                    return k(st2, IterVal('chain', inner, 0, b=b), v)
                iter_next(I, st2, IterVal('chain', None, 0, b=b), depth, k)
            return iter_next(I, st, a, depth, k7)
        return iter_next(I, st, b, depth, lambda st2, inner, v: k(st2, IterVal('chain', None, 0, b=inner), v))
    if kind == 'zip':
        a, b = it.src, it.kw['b']

        def k8(st2, ia, va):
            if va.variant == 'None':
                return k(st2, IterVal('zip', ia, 0, b=b), va)
            iter_next(I, st2, b, depth, lambda st3, ib, vb: k(st3, IterVal('zip', ia, 0, b=ib), none() if vb.variant == 'None' else some(tup(va.f[0], vb.f[0]))))
        return iter_next(I, st, a, depth, k8)
    if kind == 'once':
        if it.pos:
            return k(st, it, none())
        return k(st, it.at(1), some(it.kw['item']))
    if kind == 'custom':
        return I.call(st, '<%s as Iterator>::next' % it.kw['ty'], [it.src], lambda st2, v: k(st2, it, v), depth, None)
    if kind == 'flat_map':
        cur = it.kw.get('cur')
        clo = it.kw['clo']
        if cur is not None:
            def kc(st2, cur2, v):
                if v is not PANIC and v.variant == 'None':
                    return iter_next(I, st2, IterVal('flat_map', it.src, 0, clo=clo, cur=None), depth, k)
                k(st2, IterVal('flat_map', it.src, 0, clo=clo, cur=cur2), v)
            return iter_next(I, st, cur, depth, kc)

        def ko(st2, outer, v):
            if v is PANIC or v.variant == 'None':
                return k(st2, IterVal('flat_map', outer, 0, clo=clo, cur=None), v)

            def after(st3, res):
                if res is PANIC:
                    return k(st3, it, PANIC)
                if isinstance(res, Enum) and res.ty == 'Option':
                    inner = IterVal('owned', None, 0, items=(res.f[0],) if res.variant == 'Some' else ())
                else:
                    inner = to_iter(I, st3, res)
                iter_next(I, st3, IterVal('flat_map', outer, 0, clo=clo, cur=inner), depth, k)
            I.call_closure(st2, clo, [v.f[0]], after, depth)
        return iter_next(I, st, it.src, depth, ko)
    hook = I.iter_hooks.get(kind) if hasattr(I, 'iter_hooks') else None
    if hook:
        return hook(I, st, it, depth, k)
    raise Inconclusive('next() on iterator kind ' + kind)


def iter_next_back(I, st, it, depth, k):
    if it.kind == 'slice':
        end = it.kw.get('end')
        if end is None:
            _, v = vec_at(I, st, it.src)
            end = len(v.items)
        if it.pos >= end:
            return k(st, it, none())
        return k(st, it.at(it.pos, end=end - 1), some(elem_ref(it.src, end - 1)))
    if it.kind == 'owned':
        items = it.kw['items']
        if it.pos >= len(items):
            return k(st, it, none())
        return k(st, it.at(it.pos, items=items[:-1]), some(items[-1]))
    if it.kind == 'enumerate':
        # needs length of the rest
        raise Inconclusive('rev of enumerate')
    if it.kind == 'rev':
        return iter_next(I, st, it.src, depth, lambda st2, inner, v: k(st2, IterVal('rev', inner), v))
    if it.kind in ('copied', 'cloned', 'map'):
        raise Inconclusive('next_back on adaptor ' + it.kind)
    raise Inconclusive('next_back() on iterator kind ' + it.kind)


def get_iter(I, st, a):
    """an IterVal from an argument that may be the iterator value or a &mut to it"""
    if isinstance(a, IterVal):
        return None, a
    if isinstance(a, Ref):
        v = I.read_ref(st, a)
        if isinstance(v, IterVal):
            return a, v
        if isinstance(v, Ref):
            return get_iter(I, st, v)
    raise Inconclusive('expected an iterator, got %r' % (a,))


def to_iter(I, st, a, callee=''):
    """IntoIterator::into_iter"""
    if isinstance(a, IterVal):
        return a
    if isinstance(a, VecVal):
        return IterVal('owned', None, 0, items=a.items)
    if isinstance(a, MapVal):
        is_set = bool(re.search(r'Set<', callee))
        return IterVal('owned', None, 0, items=tuple(k if is_set else tup(k, v) for k, v in a.items))
    if isinstance(a, Ref):
        v = I.read_ref(st, a)
        if isinstance(v, IterVal):
            return IterVal('byref', a)
        if isinstance(v, MapVal) or (isinstance(v, Ref) and isinstance(I.deref(st, v), MapVal)):
            r, m = map_at(I, st, a)
            is_set = bool(re.search(r'Set<', callee))
            return IterVal('mapiter', src=r, pos=0, end=len(m.items), mode='set' if is_set else 'iter')
        r, vec = vec_at(I, st, a)
        if re.match(r'^<(Box<\[|Vec<)', callee) and not callee.startswith('<&'):
            return IterVal('owned', None, 0, items=vec.items)
        return IterVal('slice', src=r, pos=0, end=len(vec.items))
    if isinstance(a, Struct) and a.ty in ('Range', 'std::ops::Range', 'core::ops::Range') or (isinstance(a, Struct) and a.names == ('start', 'end')):
        lo, hi = a.f
        return IterVal('range', None, 0, lo=conc(lo), hi=conc(hi), ty=lo.ty)
    if isinstance(a, Struct) and I.defs.struct_of(I.defs.tykey(a.ty)) is not None and not a.ty.startswith('enc:'):
        # an iterator type defined by the crate itself: its `next` is real code
        return IterVal('custom', I.halloc(st, a), 0, ty=a.ty)
    raise Inconclusive('into_iter of %r' % (a,))


@model(r' as (std::iter::)?IntoIterator>::into_iter$', 'IntoIterator::into_iter')
def m_into_iter(I, st, c, args, cont, depth, site):
    cont(st, to_iter(I, st, args[0], c))


@model(r' as (std::iter::)?(Iterator|DoubleEndedIterator)>::(next|next_back)$', 'Iterator::next')
def m_next(I, st, c, args, cont, depth, site):
    try:
        r, it = get_iter(I, st, args[0])
    except Inconclusive:
        return NotImplemented
    if it.kind == 'byref':
        r, it = get_iter(I, st, it.src)

    def k(st2, new_it, v):
        if r is not None:
            I.write_ref(st2, r, new_it)
        cont(st2, v)
    if c.endswith('next_back'):
        return iter_next_back(I, st, it, depth, k)
    iter_next(I, st, it, depth, k)


@model(r' as (std::iter::)?Iterator>::(enumerate|rev|copied|cloned|peekable|by_ref|fuse)(::<.*>)?$|^<.* as DoubleEndedIterator>::rev$', 'Iterator adaptors (enumerate/rev/copied/cloned)')
def m_adapt0(I, st, c, args, cont, depth, site):
    op = re.search(r'>::(\w+)(::<.*>)?$', c).group(1)
    a = args[0]
    if op == 'by_ref':
        return cont(st, a)
    it = to_iter(I, st, a)
    if op == 'fuse':
        return cont(st, it)
    cont(st, IterVal(op, it, 0))


@model(r' as (std::iter::)?Iterator>::(skip|take)$', 'Iterator::skip|take')
def m_skip(I, st, c, args, cont, depth, site):
    cont(st, IterVal(c.rsplit('::', 1)[1], to_iter(I, st, args[0]), 0, n=conc(args[1])))


@model(r' as (std::iter::)?Iterator>::(map|filter|filter_map|flat_map|skip_while|take_while)::<', 'Iterator::map|filter|filter_map|flat_map|skip_while|take_while')
def m_map(I, st, c, args, cont, depth, site):
    op = re.search(r'Iterator>::(\w+)::<', c).group(1)
    cont(st, IterVal(op, to_iter(I, st, args[0]), 0, clo=args[1]))


@model(r' as (std::iter::)?Iterator>::(chain|zip)::<', 'Iterator::chain|zip')
def m_chain(I, st, c, args, cont, depth, site):
    op = re.search(r'Iterator>::(\w+)::<', c).group(1)
    cont(st, IterVal(op, to_iter(I, st, args[0]), 0, b=to_iter(I, st, args[1])))


def drain(I, st, it, depth, each, done, acc=()):
    """fork-safe fold: each(st, item, acc, k(st, acc2)) for every item, then done(st, panic_or_None, acc).
    The accumulator is an immutable value threaded through the continuations, so paths that fork inside a closure
    never share it."""
    def step(st, it, acc):
        def k(st2, it2, v):
            if v is PANIC:
                return done(st2, PANIC, acc)
            if v.variant == 'None':
                return done(st2, None, acc)
            each(st2, v.f[0], acc, lambda st3, acc2: step(st3, it2, acc2))
        iter_next(I, st, it, depth, k)
    step(st, it, acc)


@model(r' as (std::iter::)?Iterator>::collect::<', 'Iterator::collect')
def m_collect(I, st, c, args, cont, depth, site):
    it = to_iter(I, st, args[0])
    target = re.search(r'collect::<(.*)>$', c).group(1)
    as_result = target.startswith(('std::result::Result<', 'Result<'))

    def each(st2, x, acc, k):
        if as_result:
            if isinstance(x, Enum) and x.variant == 'Err':
                return cont(st2, x)
            x = x.f[0]
        k(st2, acc + (x,))

    def done(st2, p, out):
        if p is PANIC:
            return cont(st2, PANIC)
        outer = target
        if as_result:
            from .defs import generic_args
            ga = generic_args(target)
            outer = ga[0] if ga else target
        outer_name = re.match(r'[\w:]+', outer.strip()).group(0).split('::')[-1] if re.match(r'[\w:]+', outer.strip()) else ''
        if outer_name in ('HashMap', 'HashSet', 'BTreeMap', 'BTreeSet', 'IdHashMap', 'IdHashSet'):
            kind = 'btree' if 'BTree' in outer_name else 'map'
            if outer_name.endswith('Set'):
                res = MapVal(tuple((x, unit()) for x in out), kind)
            else:
                res = MapVal(tuple((x.f[0], x.f[1]) for x in out), kind)
        else:
            res = VecVal(out)
        cont(st2, ok(res) if as_result else res)
    drain(I, st, it, depth, each, done)


@model(r' as (std::iter::)?Iterator>::for_each::<', 'Iterator::for_each')
def m_for_each(I, st, c, args, cont, depth, site):
    it = to_iter(I, st, args[0])
    clo = args[1]
    drain(I, st, it, depth, lambda st2, x, acc, k: I.call_closure(st2, clo, [x], lambda st3, r: cont(st3, PANIC) if r is PANIC else k(st3, acc), depth),
          lambda st2, p, acc: cont(st2, PANIC if p is PANIC else unit()))


@model(r' as (std::iter::)?Iterator>::sum::<(u8|u16|u32|u64|usize)>$', 'Iterator::sum of unsigned integers (overflow is a panic, as with overflow-checks on)')
def m_sum(I, st, c, args, cont, depth, site):
    ty = re.search(r'sum::<(\w+)>$', c).group(1)
    w = {'u8': 8, 'u16': 16, 'u32': 32, 'u64': 64, 'usize': 64}[ty]
    it = to_iter(I, st, args[0])

    def each(st2, x, acc, k):
        xt = x.t if isinstance(x, BV) else I.deref(st2, x).t
        tot = z3.simplify(acc + xt)
        ovf = z3.simplify(z3.ULT(tot, acc))
        fork_bool(I, st2, ovf, lambda s3: (I.event(s3, 'PANIC', 'attempt to add with overflow (Iterator::sum)'), cont(s3, PANIC)), lambda s3: k(s3, tot))
    drain(I, st, it, depth, each, lambda st2, p, acc: cont(st2, PANIC if p is PANIC else BV(acc, ty)), z3.BitVecVal(0, w))


@model(r' as (std::iter::)?Iterator>::count$', 'Iterator::count')
def m_count(I, st, c, args, cont, depth, site):
    it = to_iter(I, st, args[0])
    drain(I, st, it, depth, lambda st2, x, acc, k: k(st2, acc + 1), lambda st2, p, acc: cont(st2, PANIC if p is PANIC else usize(acc)), 0)


@model(r' as (std::iter::)?(Iterator|DoubleEndedIterator)>::(position|rposition|any|all|find|find_map)::<', 'Iterator::position|any|all|find')
def m_search(I, st, c, args, cont, depth, site):
    op = re.search(r'>::(\w+)::<', c).group(1)
    r, it = get_iter(I, st, args[0]) if not isinstance(args[0], IterVal) else (None, args[0])
    if it.kind == 'byref':
        r, it = get_iter(I, st, it.src)
    clo = args[1]

    def finish(st2, it2, v):
        if r is not None:
            I.write_ref(st2, r, it2)
        cont(st2, v)

    def step(st, it, idx):
        def k(st2, it2, v):
            if v is PANIC:
                return cont(st2, PANIC)
            if v.variant == 'None':
                return finish(st2, it2, {'position': none(), 'any': z3.BoolVal(False), 'all': z3.BoolVal(True), 'find': none(), 'find_map': none()}[op])
            x = v.f[0]
            arg = I.halloc(st2, x) if op == 'find' else x

            def after(st3, res):
                if res is PANIC:
                    return cont(st3, PANIC)
                if op == 'find_map':
                    if res.variant == 'Some':
                        return finish(st3, it2, res)
                    return step(st3, it2, idx + 1)
                hit = {'position': some(usize(idx)), 'any': z3.BoolVal(True), 'find': some(x)}.get(op)
                if op == 'all':
                    return fork_bool(I, st3, res, lambda s: step(s, it2, idx + 1), lambda s: finish(s, it2, z3.BoolVal(False)))
                fork_bool(I, st3, res, lambda s: finish(s, it2, hit), lambda s: step(s, it2, idx + 1))
            I.call_closure(st2, clo, [arg], after, depth)
        iter_next(I, st, it, depth, k)
    step(st, it, 0)


# ------------------------------------------------------------------ clone / mem / eq / conversions
@model(r'^<.* as Clone>::clone$', 'Clone::clone (plain data)')
def m_clone(I, st, c, args, cont, depth, site):
    a = args[0]
    if not isinstance(a, Ref):
        return cont(st, a)
    v = I.read_ref(st, a)
    if isinstance(v, Ref) and c.startswith('<Box<'):
        return cont(st, I.halloc(st, I.read_ref(st, v)))
    cont(st, v)


@model(r'^(std|core)::mem::(take|replace|swap)::<', 'mem::take|replace|swap')
def m_mem(I, st, c, args, cont, depth, site):
    op = re.search(r'mem::(\w+)::<', c).group(1)
    old = I.read_ref(st, args[0])
    if op == 'replace':
        I.write_ref(st, args[0], args[1])
        return cont(st, old)
    if op == 'swap':
        other = I.read_ref(st, args[1])
        I.write_ref(st, args[0], other)
        I.write_ref(st, args[1], old)
        return cont(st, unit())
    if isinstance(old, VecVal):
        new = VecVal((), old.kind)
    elif isinstance(old, MapVal):
        new = MapVal((), old.kind)
    elif isinstance(old, Enum) and old.ty == 'Option':
        new = none()
    elif isinstance(old, Opaque):
        new = Opaque('default(%s)' % old.name)
    elif isinstance(old, Struct):
        tk = I.defs.tykey(old.ty)
        cands = [f for f in I.by_last.get('default', []) if not f.params and I.defs.tykey(f.ret) == tk]
        if len(cands) != 1:
            raise Inconclusive('mem::take of %s: no unique Default impl' % tk)

        def after(st2, new):
            I.write_ref(st2, args[0], new)
            cont(st2, old)
        return I.run(cands[0], [], st, after, depth + 1)
    else:
        raise Inconclusive('mem::take of %r' % (old,))
    I.write_ref(st, args[0], new)
    cont(st, old)


@model(r'^<.* as PartialEq(<.*>)?>::(eq|ne)$', 'PartialEq::eq|ne (structural)')
def m_eq(I, st, c, args, cont, depth, site):
    if I.resolve_local(c, args, st) is not None:
        return NotImplemented          # the crate has its own (derived or hand-written) impl: interpret the real code
    e = values_eq(I, st, args[0], args[1])
    cont(st, z3.Not(e) if c.endswith('::ne') else e)


@model(r'^<(u8|u16|u32|u64|usize|i32|i64|u128) as (From|Into)<(u8|u16|u32|u64|usize|i32|i64|bool|u128)>>::(from|into)$|^<(u8|u16|u32|u64|usize) as TryFrom', 'integer From/Into')
def m_int_from(I, st, c, args, cont, depth, site):
    m = re.match(r'^<(\w+) as (From|Into|TryFrom)<(\w+)>>', c)
    a, kind, b = m.group(1), m.group(2), m.group(3)
    dst = a if kind in ('From', 'TryFrom') else b
    x = args[0]
    if isinstance(x, z3.BoolRef):
        return cont(st, BV(z3.If(x, z3.BitVecVal(1, INT_W[dst]), z3.BitVecVal(0, INT_W[dst])), dst))
    w0, w1 = x.t.size(), INT_W[dst]
    if kind == 'TryFrom':
        if w1 >= w0:
            return cont(st, ok(BV(z3.ZeroExt(w1 - w0, x.t) if w1 > w0 else x.t, dst)))
        fits = z3.ULT(x.t, z3.BitVecVal(1 << w1, w0))
        return fork_bool(I, st, fits, lambda s: cont(s, ok(BV(z3.Extract(w1 - 1, 0, x.t), dst))), lambda s: cont(s, err(Opaque('TryFromIntError'))))
    if w1 < w0:
        raise Inconclusive('narrowing From')
    t = x.t if w1 == w0 else (z3.SignExt(w1 - w0, x.t) if x.ty in SIGNED else z3.ZeroExt(w1 - w0, x.t))
    cont(st, BV(t, dst))


@model(r'^<(.*) as (Into|From)<(.*)>>::(into|from)$', 'identity Into/From (same type, strings, boxes)')
def m_into_id(I, st, c, args, cont, depth, site):
    m = re.match(r'^<(.*) as (Into|From)<(.*)>>::(into|from)$', c)
    a, b = strip_generics(m.group(1)).strip(), strip_generics(m.group(3)).strip()
    x = args[0]
    if a == b:
        return cont(st, x)
    pair = {a, b}
    if pair <= {'String', '&str', 'str', 'Cow', 'std::string::String', 'Box<str>'}:
        return cont(st, x)
    if re.search(r'Cow<', c):
        return cont(st, x)
    return NotImplemented


@model(r'^<(str|String|&str|std::string::String) as (ToString|ToOwned|std::string::ToString)>::(to_string|to_owned)$|^<(String|std::string::String) as (std::ops::|std::borrow::|std::convert::)?(Deref|AsRef<.*>|Borrow<.*>)>::(deref|as_ref|borrow)$|^(std::string::)?String::(as_str|into_boxed_str|from_utf8_lossy)$|^<.* as AsRef<(str|\[u8\])>>::as_ref$|^core::str::<impl str>::(as_bytes|to_string|to_owned)$|^<(String|&str) as Into<Cow<', 'string conversions (identity on the opaque token)')
def m_str_id(I, st, c, args, cont, depth, site):
    x = args[0]
    v = I.deref(st, x) if isinstance(x, Ref) else x
    cont(st, v if isinstance(v, Opaque) else x)


@model(r'^core::num::<impl (u8|u16|u32|u64|usize|i32|i64)>::(leading_zeros|trailing_zeros|count_ones|wrapping_add|wrapping_sub|wrapping_mul|saturating_sub|saturating_add|checked_add|checked_sub|checked_mul|min|max|is_power_of_two|pow|abs_diff|next_power_of_two)$|^<(u8|u16|u32|u64|usize|i32|i64) as Ord>::(min|max)$|^std::cmp::(min|max)::<(u8|u16|u32|u64|usize|i32|i64)>$', 'integer intrinsics')
def m_intops(I, st, c, args, cont, depth, site):
    op = re.search(r'(\w+?)(::<\w+>)?$', c).group(1)
    x = args[0]
    w = x.t.size()
    s = x.ty in SIGNED
    if op in ('leading_zeros', 'trailing_zeros', 'count_ones'):
        bits = [z3.Extract(i, i, x.t) for i in range(w)]
        if op == 'count_ones':
            t = z3.BitVecVal(0, 32)
            for b in bits:
                t = t + z3.ZeroExt(31, b)
            return cont(st, BV(t, 'u32'))
        order = list(reversed(bits)) if op == 'leading_zeros' else bits
        t = z3.BitVecVal(w, 32)
        for i in range(len(order) - 1, -1, -1):
            t = z3.If(order[i] == z3.BitVecVal(1, 1), z3.BitVecVal(i, 32), t)
        return cont(st, BV(t, 'u32'))
    y = args[1] if len(args) > 1 else None
    if op == 'wrapping_add':
        return cont(st, BV(x.t + y.t, x.ty))
    if op == 'wrapping_sub':
        return cont(st, BV(x.t - y.t, x.ty))
    if op == 'wrapping_mul':
        return cont(st, BV(x.t * y.t, x.ty))
    if op == 'saturating_sub' and not s:
        return cont(st, BV(z3.If(z3.ULT(x.t, y.t), z3.BitVecVal(0, w), x.t - y.t), x.ty))
    if op == 'saturating_add' and not s:
        return cont(st, BV(z3.If(z3.BVAddNoOverflow(x.t, y.t, False), x.t + y.t, z3.BitVecVal((1 << w) - 1, w)), x.ty))
    if op in ('checked_add', 'checked_sub', 'checked_mul') and not s:
        if op == 'checked_add':
            good, r = z3.BVAddNoOverflow(x.t, y.t, False), x.t + y.t
        elif op == 'checked_sub':
            good, r = z3.UGE(x.t, y.t), x.t - y.t
        else:
            good, r = z3.BVMulNoOverflow(x.t, y.t, False), x.t * y.t
        return fork_bool(I, st, good, lambda s_: cont(s_, some(BV(r, x.ty))), lambda s_: cont(s_, none()))
    if op == 'min':
        lt = (x.t < y.t) if s else z3.ULT(x.t, y.t)
        return cont(st, BV(z3.If(lt, x.t, y.t), x.ty))
    if op == 'max':
        lt = (x.t < y.t) if s else z3.ULT(x.t, y.t)
        return cont(st, BV(z3.If(lt, y.t, x.t), x.ty))
    if op == 'is_power_of_two':
        return cont(st, z3.And(x.t != 0, (x.t & (x.t - 1)) == 0))
    if op == 'abs_diff' and not s:
        return cont(st, BV(z3.If(z3.ULT(x.t, y.t), y.t - x.t, x.t - y.t), x.ty))
    raise Inconclusive('integer op ' + op)


@model(r'^core::f(32|64)::<impl f(32|64)>::(from_bits|to_bits)$|^(std::)?f(32|64)::(from_bits|to_bits)$', 'f32/f64 from_bits/to_bits (bit-pattern identity)')
def m_fbits(I, st, c, args, cont, depth, site):
    x = args[0]
    w = x.t.size()
    if c.endswith('from_bits'):
        return cont(st, BV(x.t, 'f%d' % w))
    cont(st, BV(x.t, 'u%d' % w))


@model(r'^((std|core)::hint::)?must_use::<', 'hint::must_use (identity)')
def m_must_use(I, st, c, args, cont, depth, site):
    cont(st, args[0])


@model(r'^(std|core)::mem::(drop|forget)::<|^(std|core)::ptr::drop_in_place::<|^(std|core)::hint::(black_box|assert_unchecked)|^(std|core)::intrinsics::(cold_path|assume|likely|unlikely)', 'drop/forget/hints (no-op)')
def m_dropfn(I, st, c, args, cont, depth, site):
    if re.search(r'likely|black_box', c):
        return cont(st, args[0])
    cont(st, unit())


@model(r'^<\{closure@[^}]*\} as (std::ops::)?Fn(Mut|Once)?<.*>>::call(_mut|_once)?$|^<&(mut )?\{closure@[^}]*\} as (std::ops::)?Fn(Mut|Once)?<.*>>::call(_mut|_once)?$', 'closure call (interpreted from its own MIR)')
def m_closure_call(I, st, c, args, cont, depth, site):
    tupv = args[1]
    I.call_closure(st, args[0], list(tupv.f) if isinstance(tupv, Struct) else [tupv], cont, depth)


@model(r'^<(for<.*> )?fn\(.*\{.*\} as (std::ops::)?Fn(Mut|Once)?<.*>>::call(_mut|_once)?$', 'fn item call')
def m_fnitem_call(I, st, c, args, cont, depth, site):
    tupv = args[1]
    I.call_closure(st, args[0], list(tupv.f), cont, depth)


@model(r'^<id_arena::Id<.*> as (std::hash::)?Hash>::hash::<|^<.* as (std::hash::)?Hash>::hash::<', 'Hash::hash (no-op)')
def m_hash(I, st, c, args, cont, depth, site):
    cont(st, unit())


@model(r'^id_arena::Id::<.*>::index$', 'Id::index')
def m_id_index(I, st, c, args, cont, depth, site):
    x = I.deref(st, args[0]) if isinstance(args[0], Ref) else args[0]
    if isinstance(x, BV):
        return cont(st, BV(z3.ZeroExt(32, x.t), 'usize'))
    raise Inconclusive('Id::index of %r' % (x,))


# ------------------------------------------------------------------ id_arena::Arena (structurally concrete)
def new_arena(items=(), arena_id=0):
    return Struct('Arena', (VecVal(items), bv(arena_id, 'u32')), ('items', 'arena_id'))


def arena_at(I, st, r):
    cur = r
    for _ in range(20):
        v = I.read_ref(st, cur)
        if isinstance(v, Ref):
            cur = v
            continue
        if isinstance(v, Struct) and v.ty == 'Arena':
            return cur, v
        raise Inconclusive('expected an arena, got %r' % (v,))
    raise Inconclusive('ref chain')


def id_of(n, kind='?'):
    return bv(n, 'Id<%s>' % kind)


def index_split(I, st, idx, n, k_hit, k_miss):
    """case split of a (possibly symbolic) index over a concrete length"""
    if is_concrete(idx):
        i = conc(idx)
        return k_hit(st, i) if i < n else k_miss(st)
    w = idx.t.size()

    def go(i, st):
        if i >= n:
            st.pc.append(z3.UGE(idx.t, z3.BitVecVal(n, w)))
            if I.feasible(st):
                k_miss(st)
            return
        cnd = idx.t == z3.BitVecVal(i, w)
        if I.feasible(st, cnd):
            s2 = st.fork()
            s2.pc.append(cnd)
            k_hit(s2, i)
        st.pc.append(z3.Not(cnd))
        go(i + 1, st)
    go(0, st)


@model(r'^(id_arena::)?Arena::<.*>::(new|with_capacity)$|^<(id_arena::)?Arena<.*> as Default>::default$', 'id_arena::Arena::new')
def m_arena_new(I, st, c, args, cont, depth, site):
    cont(st, new_arena())


@model(r'^(id_arena::)?Arena::<.*>::(alloc|alloc_with_id|next_id|len|get|get_mut|iter|iter_mut)(::<.*>)?$', 'id_arena::Arena ops (contract: ids are consecutive indices, never reused)')
def m_arena_ops(I, st, c, args, cont, depth, site):
    op = re.search(r'::(\w+)(::<.*>)?$', c).group(1)
    r, a = arena_at(I, st, args[0])
    items = a.f[0].items
    kind = re.search(r'Arena::<(.*?)[,>]', c)
    kind = kind.group(1).split('::')[-1] if kind else '?'
    if op == 'alloc':
        I.write_ref(st, r, a.with_field(0, VecVal(items + (args[1],))))
        return cont(st, id_of(len(items), kind))
    if op == 'alloc_with_id':
        nid = id_of(len(items), kind)

        def after(st2, v):
            if v is PANIC:
                return cont(st2, PANIC)
            r2, a2 = arena_at(I, st2, args[0])
            I.write_ref(st2, r2, a2.with_field(0, VecVal(a2.f[0].items + (v,))))
            cont(st2, nid)
        return I.call_closure(st, args[1], [nid], after, depth)
    if op == 'next_id':
        return cont(st, id_of(len(items), kind))
    if op == 'len':
        return cont(st, usize(len(items)))
    if op in ('get', 'get_mut'):
        base = Ref(r.key, r.path + (('field', 0),))
        return index_split(I, st, args[1], len(items), lambda s, i: cont(s, some(elem_ref(base, i))), lambda s: cont(s, none()))
    if op in ('iter', 'iter_mut'):
        return cont(st, IterVal('arena', src=Ref(r.key, r.path + (('field', 0),)), pos=0, end=len(items), idkind=kind))
    raise Inconclusive('arena op ' + op)


@model(r'^<(id_arena::)?Arena<.*> as (std::ops::)?(Index|IndexMut)<.*>>::(index|index_mut)$', 'id_arena::Arena indexing')
def m_arena_index(I, st, c, args, cont, depth, site):
    r, a = arena_at(I, st, args[0])
    base = Ref(r.key, r.path + (('field', 0),))

    def miss(s):
        I.event(s, 'PANIC', 'arena index out of bounds', site.fn.name[:80] if site else '')
        cont(s, PANIC)
    index_split(I, st, args[1], len(a.f[0].items), lambda s, i: cont(s, elem_ref(base, i)), miss)


def _arena_iter_next(I, st, it, depth, k):
    if it.pos >= it.kw['end']:
        return k(st, it, none())
    k(st, it.at(it.pos + 1), some(tup(id_of(it.pos, it.kw.get('idkind', '?')), elem_ref(it.src, it.pos))))


# ------------------------------------------------------------------ hash / btree containers (association lists)
def map_at(I, st, r):
    cur = r
    for _ in range(20):
        if not isinstance(cur, Ref):
            if isinstance(cur, MapVal):
                return None, cur
            raise Inconclusive('expected a map, got %r' % (cur,))
        v = I.read_ref(st, cur)
        if isinstance(v, Ref):
            cur = v
            continue
        if isinstance(v, MapVal):
            return cur, v
        raise Inconclusive('expected a map, got %r' % (v,))
    raise Inconclusive('ref chain')


MAPTY = r'(std::collections::)?(hash_map::|hash_set::|btree_map::|btree_set::)?(HashMap|HashSet|BTreeMap|BTreeSet)'


@model(r'^' + MAPTY + r'::<.*>::(new|with_capacity|with_hasher|with_capacity_and_hasher|default)$|^<' + MAPTY + r'<.*> as Default>::default$', 'HashMap/HashSet/BTreeMap::new')
def m_map_new(I, st, c, args, cont, depth, site):
    cont(st, MapVal((), 'btree' if 'BTree' in c else 'map'))


def key_eq(I, st, a, b, depth, k):
    """k(st, z3 Bool): equality of two container keys; uses the crate's own PartialEq impl when the key type has one"""
    av = I.deref(st, a) if isinstance(a, Ref) else a
    if isinstance(av, (Struct, Enum)):
        tk = I.defs.tykey(av.ty)
        cands = [f for f in I.by_last.get('eq', []) if len(f.params) == 2 and I.fninfo(f)['selfty'] == tk]
        if len(cands) == 1:
            ra = a if isinstance(a, Ref) else I.halloc(st, a)
            rb = b if isinstance(b, Ref) else I.halloc(st, b)
            return I.run(cands[0], [ra, rb], st, lambda s2, r: k(s2, r), depth + 1)
    k(st, values_eq(I, st, a, b))


def map_lookup(I, st, m, key, k_hit, k_miss, depth=0):
    """fork over which entry (if any) equals key"""
    def go(i, st):
        if i >= len(m.items):
            return k_miss(st)

        def decided(st, e):
            if e is PANIC:
                raise Inconclusive('key comparison panicked')
            e = z3.simplify(e)
            if z3.is_true(e):
                return k_hit(st, i)
            if z3.is_false(e):
                return go(i + 1, st)
            if I.feasible(st, e):
                s2 = st.fork()
                s2.pc.append(e)
                k_hit(s2, i)
            st.pc.append(z3.Not(e))
            if I.feasible(st):
                go(i + 1, st)
        key_eq(I, st, m.items[i][0], key, depth, decided)
    go(0, st)


@model(r'^(std::vec::)?Vec::<.*>::drain::<(std::ops::)?RangeFull>$', 'Vec::drain(..): an owning iterator over all elements; the vector is left empty')
def m_vec_drain_all(I, st, c, args, cont, depth, site):
    r, v = vec_at(I, st, args[0])
    items = tuple(v.items)
    I.write_ref(st, r, VecVal([], v.kind))
    cont(st, IterVal('owned', None, 0, items=items))


@model(r'^' + MAPTY + r'::<.*>::retain::<', 'map/set retain (the predicate is interpreted on every entry)')
def m_map_retain(I, st, c, args, cont, depth, site):
    is_set = bool(re.search(r'(HashSet|BTreeSet)::<', c))
    r, m = map_at(I, st, args[0])
    n = len(m.items)

    def step(i, st, keep):
        if i >= n:
            r2, m2 = map_at(I, st, args[0])
            I.write_ref(st, r2, MapVal(tuple(m2.items[j] for j in keep), m2.kind))
            return cont(st, unit())
        kref = Ref(r.key, r.path + (('mapkey', i),))
        vref = Ref(r.key, r.path + (('mapval', i),))

        def got(s2, b):
            if b is PANIC:
                return cont(s2, PANIC)
            fork_bool(I, s2, b, lambda s3: step(i + 1, s3, keep + (i,)), lambda s3: step(i + 1, s3, keep))
        I.call_closure(st, args[1], [kref] if is_set else [kref, vref], got, depth)
    step(0, st, ())


@model(r'^' + MAPTY + r'::<.*>::(insert|contains|contains_key|get|get_mut|remove|len|is_empty|reserve|clear|iter|keys|values|iter_mut|values_mut)(::<.*>)?$', 'hash/btree container ops (association list, lookups fork on key equality)')
def m_map_ops(I, st, c, args, cont, depth, site):
    op = re.search(r'::(\w+)(::<.*>)?$', c).group(1)
    is_set = bool(re.search(r'(HashSet|BTreeSet)::<', c))
    r, m = map_at(I, st, args[0])
    if op == 'len':
        return cont(st, usize(len(m.items)))
    if op == 'is_empty':
        return cont(st, z3.BoolVal(not m.items))
    if op == 'reserve':
        return cont(st, unit())
    if op == 'clear':
        I.write_ref(st, r, MapVal((), m.kind))
        return cont(st, unit())
    if op in ('iter', 'keys', 'values', 'iter_mut', 'values_mut'):
        return cont(st, IterVal('mapiter', src=r, pos=0, end=len(m.items), mode=('set' if is_set else op)))
    key = args[1]
    keyv = I.deref(st, key) if isinstance(key, Ref) else key
    if op in ('contains', 'contains_key'):
        return map_lookup(I, st, m, keyv, lambda s, i: cont(s, z3.BoolVal(True)), lambda s: cont(s, z3.BoolVal(False)))
    if op in ('get', 'get_mut'):
        return map_lookup(I, st, m, keyv,
                          lambda s, i: cont(s, some(Ref(r.key, r.path + (('mapval', i),)))),
                          lambda s: cont(s, none()))
    if op == 'insert':
        val = unit() if is_set else args[2]

        def hit(s, i):
            r2, m2 = map_at(I, s, args[0])
            items = list(m2.items)
            old = items[i][1]
            items[i] = (items[i][0], val)
            I.write_ref(s, r2, MapVal(items, m2.kind))
            cont(s, z3.BoolVal(False) if is_set else some(old))

        def miss(s):
            map_insert(I, s, args[0], keyv, val, depth, lambda s2, i: cont(s2, z3.BoolVal(True) if is_set else none()))
        return map_lookup(I, st, m, keyv, hit, miss, depth)
    if op == 'remove':
        def hit(s, i):
            r2, m2 = map_at(I, s, args[0])
            items = list(m2.items)
            old = items.pop(i)
            I.write_ref(s, r2, MapVal(items, m2.kind))
            cont(s, z3.BoolVal(True) if is_set else some(old[1]))
        return map_lookup(I, st, m, keyv, hit, lambda s: cont(s, z3.BoolVal(False) if is_set else none()))
    raise Inconclusive('map op ' + op)


@model(r'^<' + MAPTY + r'<.*> as (std::ops::)?Index<.*>>::index$', 'HashMap indexing')
def m_map_index(I, st, c, args, cont, depth, site):
    r, m = map_at(I, st, args[0])
    key = I.deref(st, args[1]) if isinstance(args[1], Ref) else args[1]

    def miss(s):
        I.event(s, 'PANIC', 'HashMap index: key not found', site.fn.name[:80] if site else '')
        cont(s, PANIC)
    map_lookup(I, st, m, key, lambda s, i: cont(s, Ref(r.key, r.path + (('mapval', i),))), miss)


def _map_iter_next(I, st, it, depth, k):
    if it.pos >= it.kw['end']:
        return k(st, it, none())
    r = it.src
    mode = it.kw['mode']
    i = it.pos
    # hash containers have no defined iteration order: the order is a parameter of the run (identity / reversed /
    # rotated), B-tree containers iterate in key order (kept sorted on insertion)
    _, mv = map_at(I, st, r)
    order = getattr(I, 'map_order', 'id')
    n = it.kw['end']
    if mv.kind != 'btree' and order != 'id' and n > 1:
        perm = list(range(n))
        if order == 'rev':
            perm.reverse()
        elif order == 'rot':
            perm = perm[1:] + perm[:1]
        i = perm[it.pos]
    kref = Ref(r.key, r.path + (('mapkey', i),))
    vref = Ref(r.key, r.path + (('mapval', i),))
    if mode in ('set', 'keys'):
        v = kref
    elif mode in ('values', 'values_mut'):
        v = vref
    else:
        v = tup(kref, vref)
    k(st, it.at(it.pos + 1), some(v))


def install_iter_hooks(I):
    I.iter_hooks = {'arena': _arena_iter_next, 'mapiter': _map_iter_next}


@model(r'^<(u8|u16|u32|u64|usize|i32|i64|bool|String|std::string::String|PhantomData<.*>|std::marker::PhantomData<.*>|Option<.*>|std::option::Option<.*>|\(\)|BuildHasherDefault<.*>|std::hash::BuildHasherDefault<.*>|Box<\[.*\]>) as Default>::default$', 'Default::default for primitives')
def m_default_prim(I, st, c, args, cont, depth, site):
    t = re.match(r'^<(.*) as Default>', c).group(1)
    if t in INT_W:
        return cont(st, bv(0, t))
    if t == 'bool':
        return cont(st, z3.BoolVal(False))
    if 'Option<' in t:
        return cont(st, none())
    if 'String' in t:
        return cont(st, Opaque('str:""'))
    if t.startswith('Box<['):
        return cont(st, I.halloc(st, VecVal((), 'boxed')))
    cont(st, unit())


@model(r'^<gimli::.* as Default>::default$', 'gimli defaults (opaque)')
def m_default_gimli(I, st, c, args, cont, depth, site):
    cont(st, Opaque('gimli-default'))


@model(r"^<([A-Z]\w*|impl (for<.*> )?Fn.*|&(mut )?[A-Z]\w*|&(mut )?impl (for<.*> )?Fn.*) as (std::ops::)?Fn(Mut|Once)?<.*>>::call(_mut|_once)?$", 'generic closure call (dispatch on the closure value)')
def m_generic_call(I, st, c, args, cont, depth, site):
    tupv = args[1]
    I.call_closure(st, args[0], list(tupv.f) if isinstance(tupv, Struct) else [tupv], cont, depth)


# ------------------------------------------------------------------ ordering / sorting
def ordering(v):
    return Enum('Ordering', v)


def cmp_values(I, st, a, b, depth, k):
    """k(st, 'Less'|'Equal'|'Greater'); forks on symbolic comparisons; uses the crate's own Ord impl for its types"""
    a0 = I.deref(st, a) if isinstance(a, Ref) else a
    b0 = I.deref(st, b) if isinstance(b, Ref) else b
    if isinstance(a0, BV) and isinstance(b0, BV):
        s = a0.ty in SIGNED
        lt = (a0.t < b0.t) if s else z3.ULT(a0.t, b0.t)
        eq = a0.t == b0.t
        return fork_bool(I, st, lt, lambda s1: k(s1, 'Less'), lambda s2: fork_bool(I, s2, eq, lambda s3: k(s3, 'Equal'), lambda s4: k(s4, 'Greater')))
    if isinstance(a0, z3.BoolRef):
        return cmp_values(I, st, BV(z3.If(a0, z3.BitVecVal(1, 8), z3.BitVecVal(0, 8)), 'u8'), BV(z3.If(b0, z3.BitVecVal(1, 8), z3.BitVecVal(0, 8)), 'u8'), depth, k)
    if isinstance(a0, Struct) and a0.ty in ('Reverse', 'std::cmp::Reverse', 'core::cmp::Reverse'):
        return cmp_values(I, st, b0.f[0], a0.f[0], depth, k)
    if isinstance(a0, (Struct, Enum)) and a0.ty not in ('tuple', '()'):
        tk = I.defs.tykey(a0.ty)
        cands = [f for f in I.by_last.get('cmp', []) if len(f.params) == 2 and I.fninfo(f)['selfty'] == tk]
        if len(cands) == 1:
            ra = a if isinstance(a, Ref) else I.halloc(st, a0)
            rb = b if isinstance(b, Ref) else I.halloc(st, b0)
            def got(s2, r):
                if isinstance(r, Enum) and r.ty == 'Ordering':
                    return k(s2, r.variant)
                if isinstance(r, Enum) and r.ty == 'Option' and r.variant == 'Some':
                    return k(s2, r.f[0].variant)
                raise Inconclusive('cmp impl %s returned %r' % (cands[0].name[-60:], r))
            return I.run(cands[0], [ra, rb], st, got, depth + 1)
        if isinstance(a0, Enum) and isinstance(b0, Enum) and tk in ('Option',):
            if a0.variant != b0.variant:
                return k(st, 'Less' if a0.variant == 'None' else 'Greater')
            if a0.variant == 'None':
                return k(st, 'Equal')
            return cmp_values(I, st, a0.f[0], b0.f[0], depth, k)
    if isinstance(a0, Struct) and isinstance(b0, Struct) and len(a0.f) == len(b0.f):
        def go(i, st):
            if i >= len(a0.f):
                return k(st, 'Equal')
            cmp_values(I, st, a0.f[i], b0.f[i], depth, lambda s2, r: k(s2, r) if r != 'Equal' else go(i + 1, s2))
        return go(0, st)
    if isinstance(a0, VecVal) and isinstance(b0, VecVal):
        def go2(i, st):
            if i >= len(a0.items) or i >= len(b0.items):
                la, lb = len(a0.items), len(b0.items)
                return k(st, 'Equal' if la == lb else ('Less' if la < lb else 'Greater'))
            cmp_values(I, st, a0.items[i], b0.items[i], depth, lambda s2, r: k(s2, r) if r != 'Equal' else go2(i + 1, s2))
        return go2(0, st)
    if isinstance(a0, Opaque) and isinstance(b0, Opaque) and a0.name.startswith('str:"') and b0.name.startswith('str:"'):
        x, y = a0.name, b0.name
        return k(st, 'Equal' if x == y else ('Less' if x < y else 'Greater'))
    raise Inconclusive('ordering of %r and %r' % (a0, b0))


@model(r'^<.* as (Ord|PartialOrd(<.*>)?)>::(cmp|partial_cmp|lt|le|gt|ge)$|^core::cmp::impls::<impl (Ord|PartialOrd) for \w+>::(cmp|partial_cmp|lt|le|gt|ge)$', 'Ord::cmp (bit-vector comparison / crate Ord impls)')
def m_cmp(I, st, c, args, cont, depth, site):
    if I.resolve_local(c, args, st) is not None:
        return NotImplemented
    op = c.rsplit('::', 1)[1]

    def k(st2, r):
        if op == 'cmp':
            return cont(st2, ordering(r))
        if op == 'partial_cmp':
            return cont(st2, some(ordering(r)))
        cont(st2, z3.BoolVal({'lt': r == 'Less', 'le': r != 'Greater', 'gt': r == 'Greater', 'ge': r != 'Less'}[op]))
    cmp_values(I, st, args[0], args[1], depth, k)


@model(r'^(alloc::|core::)?slice::<impl \[.*\]>::(sort_by_key|sort_unstable_by_key|sort|sort_unstable|sort_by|sort_unstable_by)(::<.*>)?$', 'slice sort (insertion sort over a concrete-length slice; comparisons fork when symbolic)')
def m_sort(I, st, c, args, cont, depth, site):
    op = re.search(r'>::(\w+?)(::<.*>)?$', c).group(1)
    r, v = vec_at(I, st, args[0])
    items = list(v.items)
    n = len(items)
    if n <= 1:
        return cont(st, unit())

    def with_keys(st, keys):
        # insertion sort on indices, stable
        order = []

        def insert(i, st):
            if i >= n:
                I.write_ref(st, r, VecVal([items[j] for j in order_final[0]], v.kind))
                return cont(st, unit())

            def place(pos, st, cur):
                # cur: current ordered index list; find the position of i scanning from the right
                if pos == 0:
                    return nxt(st, [i] + cur)

                def decided(st2, res):
                    if res == 'Less':
                        return place(pos - 1, st2, cur)
                    nxt(st2, cur[:pos] + [i] + cur[pos:])
                compare(st, i, cur[pos - 1], decided)

            def nxt(st, newlist):
                order_final[0] = newlist
                insert2(i + 1, st, newlist)
            place(len(order_cur[0]), st, order_cur[0])

        # explicit state threading (no shared mutable lists across forks)
        def insert2(i, st, cur):
            if i >= n:
                I.write_ref(st, r, VecVal([items[j] for j in cur], v.kind))
                return cont(st, unit())

            def place(pos, st):
                if pos == 0:
                    return insert2(i + 1, st, [i] + cur)

                def decided(st2, res):
                    if res == 'Less':
                        return place(pos - 1, st2)
                    insert2(i + 1, st2, cur[:pos] + [i] + cur[pos:])
                compare(st, i, cur[pos - 1], decided)
            place(len(cur), st)

        def compare(st, i, j, k):
            if keys is not None:
                return cmp_values(I, st, keys[i], keys[j], depth, k)
            if op in ('sort_by', 'sort_unstable_by'):
                ai = I.halloc(st, items[i])
                aj = I.halloc(st, items[j])
                return I.call_closure(st, args[1], [ai, aj], lambda s2, rr: k(s2, rr.variant), depth)
            return cmp_values(I, st, items[i], items[j], depth, k)
        order_final = [None]
        order_cur = [[]]
        insert2(1, st, [0])

    if op in ('sort_by_key', 'sort_unstable_by_key'):
        def keystep(i, st, keys):
            if i >= n:
                return with_keys(st, list(keys))
            I.call_closure(st, args[1], [elem_ref(r, i)], lambda s2, kv: keystep(i + 1, s2, keys + (kv,)), depth)
        return keystep(0, st, ())
    with_keys(st, None)


@model(r'^(std|core)::cmp::Ordering::(then_with::<|then$|reverse$|is_eq$|is_ne$|is_lt$|is_gt$|is_le$|is_ge$)', 'Ordering combinators')
def m_ordering(I, st, c, args, cont, depth, site):
    op = re.search(r'Ordering::(\w+)', c).group(1)
    v = args[0].variant
    if op == 'then_with':
        if v != 'Equal':
            return cont(st, args[0])
        return I.call_closure(st, args[1], [], cont, depth)
    if op == 'then':
        return cont(st, args[0] if v != 'Equal' else args[1])
    if op == 'reverse':
        return cont(st, ordering({'Less': 'Greater', 'Greater': 'Less', 'Equal': 'Equal'}[v]))
    cont(st, z3.BoolVal({'is_eq': v == 'Equal', 'is_ne': v != 'Equal', 'is_lt': v == 'Less', 'is_gt': v == 'Greater', 'is_le': v != 'Greater', 'is_ge': v != 'Less'}[op]))


def map_insert(I, st, mref, key, val, depth, k):
    """append (hash maps: insertion order = one admissible iteration order) or insert at the sorted position (btree); k(st, index)"""
    r, m = map_at(I, st, mref)
    if m.kind != 'btree' or not m.items:
        I.write_ref(st, r, MapVal(m.items + ((key, val),), m.kind))
        return k(st, len(m.items))

    def go(pos, st):
        if pos >= len(m.items):
            I.write_ref(st, r, MapVal(m.items + ((key, val),), m.kind))
            return k(st, len(m.items))

        def decided(st2, res):
            if res == 'Less':
                items = m.items[:pos] + ((key, val),) + m.items[pos:]
                I.write_ref(st2, r, MapVal(items, m.kind))
                return k(st2, pos)
            go(pos + 1, st2)
        cmp_values(I, st, key, m.items[pos][0], depth, decided)
    go(0, st)


@model(r'^' + MAPTY + r'::<.*>::entry$', 'map entry()')
def m_map_entry(I, st, c, args, cont, depth, site):
    cont(st, Struct('MapEntry', (args[0], args[1])))


@model(r'^(std::collections::)?(hash_map|btree_map)::Entry::<.*>::(or_default|or_insert_with|or_insert)(::<.*>)?$', 'map Entry::or_default|or_insert_with|or_insert')
def m_entry_or(I, st, c, args, cont, depth, site):
    op = re.search(r'Entry::<.*>::(\w+)', c).group(1)
    ent = args[0]
    mref, key = ent.f
    r, m = map_at(I, st, mref)

    def hit(s, i):
        cont(s, Ref(r.key, r.path + (('mapval', i),)))

    def miss(s):
        def with_val(s2, v):
            if v is PANIC:
                return cont(s2, PANIC)
            map_insert(I, s2, mref, key, v, depth, lambda s3, i: cont(s3, Ref(r.key, r.path + (('mapval', i),))))
        if op == 'or_insert':
            return with_val(s, args[1])
        if op == 'or_insert_with':
            return I.call_closure(s, args[1], [], with_val, depth)
        vt = generic_tail(c)
        if vt.startswith('Vec<') or vt.startswith('std::vec::Vec<'):
            return with_val(s, VecVal())
        if re.match(r'(u8|u16|u32|u64|usize)$', vt):
            return with_val(s, bv(0, vt))
        raise Inconclusive('or_default for value type ' + vt)
    map_lookup(I, st, m, key, hit, miss, depth)


def generic_tail(c):
    """last generic argument of Entry::<'_, K, V>"""
    m = re.search(r'Entry::<(.*)>::\w+', c)
    from .mir import split_top
    parts = split_top(m.group(1)) if m else []
    return parts[-1].strip() if parts else ''


@model(r'^(std|core)::mem::size_of::<(u8|u16|u32|u64|usize|i32|i64|u128)>$', 'mem::size_of::<int>')
def m_size_of(I, st, c, args, cont, depth, site):
    t = re.search(r'size_of::<(\w+)>', c).group(1)
    cont(st, usize(INT_W[t] // 8))


@model(r'^(std::option::)?Option::<(u8|u16|u32|u64|usize|i32|i64|bool)>::unwrap_or_default$', 'Option<int>::unwrap_or_default')
def m_unwrap_or_default(I, st, c, args, cont, depth, site):
    v = _opt(I, st, args[0])
    t = re.search(r'Option::<(\w+)>', c).group(1)
    if v.variant == 'Some':
        return cont(st, v.f[0])
    cont(st, z3.BoolVal(False) if t == 'bool' else bv(0, t))


@model(r'^(std::option::)?Option::<.*>::(filter|or|or_else|xor|zip)(::<.*>)?$', 'Option::filter|or')
def m_opt_filter(I, st, c, args, cont, depth, site):
    op = re.search(r'>::(\w+)(::<.*>)?$', c).group(1)
    v = _opt(I, st, args[0])
    if op == 'filter':
        if v.variant == 'None':
            return cont(st, v)
        x = v.f[0]
        return I.call_closure(st, args[1], [I.halloc(st, x)], lambda s2, r: cont(s2, PANIC) if r is PANIC else fork_bool(I, s2, r, lambda s3: cont(s3, v), lambda s3: cont(s3, none())), depth)
    if op == 'or':
        return cont(st, v if v.variant == 'Some' else args[1])
    if op == 'or_else':
        if v.variant == 'Some':
            return cont(st, v)
        return I.call_closure(st, args[1], [], cont, depth)
    raise Inconclusive('Option::' + op)


@model(r'^(std::string::)?String::new$', 'String::new')
def m_string_new(I, st, c, args, cont, depth, site):
    cont(st, Opaque('str:""'))


@model(r'^(std::result::)?Result::<.*>::and_then::<', 'Result::and_then')
def m_res_and_then(I, st, c, args, cont, depth, site):
    v = _opt(I, st, args[0])
    if v.variant == 'Err':
        return cont(st, v)
    I.call_closure(st, args[1], [v.f[0]], cont, depth)


@model(r'^(core|std)::slice::<impl \[.*\]>::partition_point::<', 'slice::partition_point (contract on a partitioned slice: index of the first element for which the predicate is false; left-to-right scan)')
def m_partition_point(I, st, c, args, cont, depth, site):
    r, v = vec_at(I, st, args[0])
    n = len(v.items)

    def step(i, st):
        if i >= n:
            return cont(st, usize(n))

        def got(s2, b):
            if b is PANIC:
                return cont(s2, PANIC)
            fork_bool(I, s2, b, lambda s3: step(i + 1, s3), lambda s3: cont(s3, usize(i)))
        I.call_closure(st, args[1], [elem_ref(r, i)], got, depth)
    step(0, st)


@model(r'^(core|std)::slice::<impl \[.*\]>::(binary_search_by_key|binary_search_by|binary_search)(::<.*>)?$', 'slice::binary_search* (contract on a sorted slice: Ok(i) of an equal element, else Err(insertion point); evaluated by a left-to-right scan)')
def m_binary_search(I, st, c, args, cont, depth, site):
    op = re.search(r'\]>::(\w+)', c).group(1)
    r, v = vec_at(I, st, args[0])
    n = len(v.items)

    def step(i, st):
        if i >= n:
            return cont(st, err(usize(n)))

        def decided(st2, res):
            # res: ordering of element i relative to the target
            if res == 'Equal':
                return cont(st2, ok(usize(i)))
            if res == 'Less':
                return step(i + 1, st2)
            cont(st2, err(usize(i)))
        if op == 'binary_search_by':
            I.call_closure(st, args[1], [elem_ref(r, i)], lambda s2, o: cont(s2, PANIC) if o is PANIC else decided(s2, o.variant), depth)
        elif op == 'binary_search_by_key':
            key = I.deref(st, args[1]) if isinstance(args[1], Ref) else args[1]
            I.call_closure(st, args[2], [elem_ref(r, i)], lambda s2, kv: cont(s2, PANIC) if kv is PANIC else cmp_values(I, s2, kv, key, depth, decided), depth)
        else:
            key = I.deref(st, args[1]) if isinstance(args[1], Ref) else args[1]
            cmp_values(I, st, elem_ref(r, i), key, depth, decided)
    step(0, st)
