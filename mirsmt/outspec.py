"""Turn the module recorded by the wasm-encoder sinks back into a module description (for the second round trip of C08):
the codec correspondence table is used in the Instruction -> Operator direction."""
import re

import z3

from .values import *
from . import pipeline, common, modcmp
from .pipeline import Spec, S


def _vt_in(vt):
    return vt


def cexpr_op(c):
    from obligations.scen import OP, u32, ieee32, ieee64, heap
    k, a = c
    if k == 'i32_const':
        return OP('I32Const', value=a)
    if k == 'i64_const':
        return OP('I64Const', value=a)
    if k == 'f32_const':
        return OP('F32Const', value=ieee32(BV(a.t, 'u32')))
    if k == 'f64_const':
        return OP('F64Const', value=ieee64(BV(a.t, 'u64')))
    if k == 'v128_const':
        return OP('V128Const', value=Struct('wasmparser::V128', (VecVal([BV(z3.Extract(8 * i + 7, 8 * i, a.t), 'u8') for i in range(16)], 'array'),)))
    if k == 'global_get':
        return OP('GlobalGet', global_index=u32(a))
    if k == 'ref_func':
        return OP('RefFunc', function_index=u32(a))
    if k == 'ref_null':
        return OP('RefNull', hty=heap(a))
    raise Inconclusive('const expr kind ' + k)


def instr_to_op(ins, table_by_instr):
    from obligations.scen import OP, u32
    from obligations.c03 import flatten_op, render_type
    if not isinstance(ins, Enum):
        m = re.search(r'Instruction(?:::<.*?>)?::(\w+)', repr(ins))
        ins = Enum('wasm_encoder::Instruction', m.group(1) if m else repr(ins))
    name = ins.variant
    label = None
    for x in ins.f:
        if isinstance(x, Enum) and x.ty.endswith('BlockType'):
            label = {'Empty': 'empty', 'Result': 'result', 'FunctionType': 'functype'}[x.variant]
    ents = table_by_instr.get(name)
    if not ents:
        raise Inconclusive('no codec entry for instruction ' + name)
    e = ents[0]
    if label:
        for x in ents:
            if x['instruction'].endswith('#' + label):
                e = x
    fout = flatten_op(ins)
    D = common_defs()
    opdef = {n: fl for _, n, fl in D.ops}[e['operator']]
    vals = {}
    for okey, marker in e['op_fields'].items():
        hits = [k for k, m in e['instr_fields'].items() if m == marker]
        if len(hits) > 1:
            suf = okey.split('.')[-1]
            hits = [k for k in hits if k.split('.')[-1].startswith(suf[:5])] or hits
        if not hits:
            continue
        ikey = hits[0]
        v = fout.get(ikey)
        if v is None and '.' in ikey:
            v = fout.get(re.sub(r'^\w+\.', '0.', ikey))
        if v is None and len(fout) == 1:
            v = list(fout.values())[0]
        vals[okey] = v
    fields = []
    names = []
    for fname, fty in opdef:
        names.append(fname)
        if fty == 'MemArg':
            al = vals[fname + '.align']
            fields.append(Struct('wasmparser::MemArg', (BV(z3.Extract(7, 0, al.t), 'u8'), bv(4, 'u8'), vals[fname + '.offset'], vals[fname + '.memory']), ('align', 'max_align', 'offset', 'memory')))
        elif fty == 'Ieee32':
            fields.append(Struct('wasmparser::Ieee32', (BV(vals[fname].t, 'u32'),)))
        elif fty == 'Ieee64':
            fields.append(Struct('wasmparser::Ieee64', (BV(vals[fname].t, 'u64'),)))
        elif fty == 'V128':
            a = vals[fname]
            fields.append(Struct('wasmparser::V128', (VecVal([BV(z3.Extract(8 * i + 7, 8 * i, a.t), 'u8') for i in range(16)], 'array'),)))
        elif fty == 'BlockType':
            b = vals[fname]
            if b.variant == 'Empty':
                fields.append(Enum('wasmparser::BlockType', 'Empty'))
            elif b.variant == 'Result':
                fields.append(Enum('wasmparser::BlockType', 'Type', (pipeline.wp_valtype(render_type(b.f[0])),)))
            else:
                fields.append(Enum('wasmparser::BlockType', 'FuncType', (b.f[0],)))
        elif fty == 'BrTable<\'a>' or fty.startswith('BrTable'):
            fields.append(Struct('BrTable', (tuple(vals['targets'].items), vals['default'])))
        elif fty == 'ValType':
            fields.append(pipeline.wp_valtype(render_type(vals[fname])))
        elif fty == 'HeapType':
            from obligations.scen import heap
            fields.append(heap(render_type(vals[fname])))
        elif fty == '[u8; 16]':
            fields.append(VecVal([x if isinstance(x, BV) else x.f[0] for x in vals[fname].items], 'array'))
        else:
            v = vals[fname]
            if isinstance(v, Struct) and len(v.f) == 1:
                v = v.f[0]
            fields.append(v)
    return Enum('wasmparser::Operator', e['operator'], fields, names)


_D = {}


def common_defs():
    if 'd' not in _D:
        from . import defs
        _D['d'] = defs.Defs(common.REPO)
    return _D['d']


def spec_from_out(OUT, table):
    """normalised output module -> Spec (the description of walrus's own output)"""
    from obligations.scen import u32
    by_instr = {}
    for op, ents in table.items():
        for e in ents:
            by_instr.setdefault(e['instruction'].split('#')[0], []).append(e)
    sp = Spec()
    sp.types = [(list(p), list(r)) for p, r in OUT['types']]
    for i in OUT['imports']:
        d = {'module': Opaque(i['module']), 'name': Opaque(i['name']), 'kind': i['kind']}
        d.update({k: v for k, v in i.items() if k not in ('module', 'name', 'kind')})
        sp.imports.append(d)
    sp.tables = [dict(t) for t in OUT['tables']]
    sp.memories = [dict(m) for m in OUT['memories']]
    sp.globals = [dict(ty=g['ty'], mutable=g['mutable'], shared=g['shared'], init=cexpr_op(g['init'])) for g in OUT['globals']]
    sp.exports = [dict(name=Opaque(e['name']), kind=e['kind'], index=u32(e['index'])) for e in OUT['exports']]
    sp.start = None if OUT['start'] is None else u32(OUT['start'])
    for e in OUT['elements']:
        if e['items'][0] == 'funcs':
            items = ('funcs', [u32(i) for i in e['items'][1]])
        else:
            items = ('exprs', e['items'][1], [cexpr_op(c) for c in e['items'][2]])
        d = {'mode': e['mode'], 'items': items}
        if e['mode'] == 'active':
            d['table'] = None if e['table'] is None else u32(e['table'])
            d['offset'] = cexpr_op(e['offset'])
        sp.elements.append(d)
    for x in OUT['data']:
        d = {'mode': x['mode'], 'data': Opaque(x['data'])}
        if x['mode'] == 'active':
            d['memory'] = u32(x['memory'])
            d['offset'] = cexpr_op(x['offset'])
        sp.data.append(d)
    sp.data_count = None if OUT['data_count'] is None else u32(OUT['data_count'])
    for f, body in zip(OUT['funcs'], OUT['code']):
        sp.funcs.append(dict(type=f['type'], locals=[(c, vt) for c, vt in body['locals']], ops=[instr_to_op(i, by_instr) for i in body['instrs']]))
    sp.customs = [dict(name=Opaque(n), data=Opaque(d), place='end') for n, d in OUT['customs']]
    if OUT['names'] is not None:
        nm = {}
        for k, v in OUT['names'].items():
            if k == 'module':
                nm[k] = Opaque(v)
            elif k == 'locals':
                nm[k] = {fi: {li: Opaque(n) for li, n in m.items()} for fi, m in v.items()}
            else:
                nm[k] = {i: Opaque(n) for i, n in v.items()}
        sp.names = nm
    if OUT['producers'] is not None:
        sp.producers = [(Opaque(f), [(Opaque(a), Opaque(b)) for a, b in vals]) for f, vals in OUT['producers']]
    return sp


def canon(OUT):
    """hashable / comparable rendering of a normalised module (terms by their simplified s-expression)"""
    def r(v):
        if isinstance(v, BV):
            return z3.simplify(v.t).sexpr()
        if isinstance(v, z3.ExprRef):
            return z3.simplify(v).sexpr()
        if isinstance(v, (Struct, Enum)):
            return (v.ty.split('::')[-1], getattr(v, 'variant', ''), tuple(r(x) for x in v.f))
        if isinstance(v, VecVal):
            return tuple(r(x) for x in v.items)
        if isinstance(v, dict):
            return tuple(sorted((str(k), r(x)) for k, x in v.items() if k not in ('slice', 'k', 'start', 'prefixed')))
        if isinstance(v, (list, tuple)):
            return tuple(r(x) for x in v)
        if isinstance(v, Opaque):
            return v.name
        if isinstance(v, MapVal):
            return ('map', tuple((r(a), r(b)) for a, b in v.items))
        return v
    return r(OUT)
