"""Immutable value domain of the MIR symbolic interpreter."""
import z3

INT_W = {'u8': 8, 'i8': 8, 'u16': 16, 'i16': 16, 'u32': 32, 'i32': 32, 'u64': 64, 'i64': 64, 'u128': 128, 'i128': 128,
         'usize': 64, 'isize': 64, 'char': 32, 'f32': 32, 'f64': 64}
SIGNED = {'i8', 'i16', 'i32', 'i64', 'i128', 'isize'}


class BudgetExhausted(Exception):
    """the exploration budget (wall clock) of a scenario is used up; paths completed so far stay valid"""


class Inconclusive(Exception):
    pass


class _Panic:
    def __repr__(self):
        return 'PANIC'


PANIC = _Panic()


class BV:
    """bit-vector term with its rust type (ints, char, float bit patterns, ids as 'Id<Kind>')"""
    __slots__ = ('t', 'ty')

    def __init__(self, t, ty):
        self.t = t
        self.ty = ty

    def __repr__(self):
        return '%s:%s' % (z3.simplify(self.t), self.ty)


def width(ty):
    if ty in INT_W:
        return INT_W[ty]
    if ty.startswith('Id<'):
        return 32
    raise Inconclusive('width of ' + ty)


def bv(val, ty):
    return BV(z3.BitVecVal(val, width(ty)), ty)


def sym(name, ty):
    return BV(z3.BitVec(name, width(ty)), ty)


def usize(n):
    return bv(n, 'usize')


class Struct:
    __slots__ = ('ty', 'f', 'names')

    def __init__(self, ty, fields, names=None):
        self.ty = ty
        self.f = tuple(fields)
        self.names = tuple(names) if names else None

    def with_field(self, i, v):
        f = list(self.f)
        while len(f) <= i:
            f.append(None)
        f[i] = v
        return Struct(self.ty, f, self.names)

    def get(self, name):
        return self.f[self.names.index(name)]

    def __repr__(self):
        if self.names:
            return '%s{%s}' % (self.ty, ', '.join('%s: %r' % (n, v) for n, v in zip(self.names, self.f)))
        return '%s(%s)' % (self.ty, ', '.join(map(repr, self.f)))


def unit():
    return Struct('()', ())


def tup(*xs):
    return Struct('tuple', xs)


class Enum:
    __slots__ = ('ty', 'variant', 'f', 'names')

    def __init__(self, ty, variant, fields=(), names=None):
        self.ty = ty
        self.variant = variant
        self.f = tuple(fields)
        self.names = tuple(names) if names else None

    def with_field(self, i, v):
        f = list(self.f)
        while len(f) <= i:
            f.append(None)
        f[i] = v
        return Enum(self.ty, self.variant, f, self.names)

    def get(self, name):
        return self.f[self.names.index(name)]

    def __repr__(self):
        if self.names:
            return '%s::%s{%s}' % (self.ty, self.variant, ', '.join('%s: %r' % (n, v) for n, v in zip(self.names, self.f)))
        return '%s::%s(%s)' % (self.ty, self.variant, ', '.join(map(repr, self.f)))


def some(x):
    return Enum('Option', 'Some', (x,))


def none():
    return Enum('Option', 'None')


def ok(x):
    return Enum('Result', 'Ok', (x,))


def err(x):
    return Enum('Result', 'Err', (x,))


class Ref:
    """reference / Box / raw pointer: a store key plus a projection path"""
    __slots__ = ('key', 'path')

    def __init__(self, key, path=()):
        self.key = key
        self.path = tuple(path)

    def __repr__(self):
        return '&%s%s' % (self.key, ''.join('.%s' % (p[1] if len(p) > 1 else '*') for p in self.path))


class VecVal:
    """structurally concrete sequence (Vec, Box<[T]>, arrays, slices own no storage: they are Refs to one of these)"""
    __slots__ = ('items', 'kind')

    def __init__(self, items=(), kind='vec'):
        self.items = tuple(items)
        self.kind = kind

    def __repr__(self):
        return '%s%r' % (self.kind, list(self.items))


class MapVal:
    """structurally concrete association list standing for HashMap/HashSet/BTreeMap; ordered=True for BTreeMap"""
    __slots__ = ('items', 'kind')

    def __init__(self, items=(), kind='map'):
        self.items = tuple(items)    # ((key, value), ...)
        self.kind = kind

    def __repr__(self):
        return '%s%r' % (self.kind, list(self.items))


class Opaque:
    """a value the interpreter carries but cannot look into; any decision on it is INCONCLUSIVE"""
    __slots__ = ('name',)

    def __init__(self, name):
        self.name = name

    def __repr__(self):
        return '<%s>' % self.name


class IterVal:
    __slots__ = ('kind', 'src', 'pos', 'kw')

    def __init__(self, kind, src=None, pos=0, **kw):
        self.kind = kind
        self.src = src
        self.pos = pos
        self.kw = kw

    def at(self, pos, **kw):
        k = dict(self.kw)
        k.update(kw)
        return IterVal(self.kind, self.src, pos, **k)

    def __repr__(self):
        return 'Iter<%s@%s>' % (self.kind, self.pos)


class FnItem:
    __slots__ = ('path',)

    def __init__(self, path):
        self.path = path

    def __repr__(self):
        return 'fn{%s}' % self.path


def is_concrete(v):
    if isinstance(v, BV):
        return z3.is_bv_value(z3.simplify(v.t))
    return False


def conc(v):
    if isinstance(v, BV):
        t = z3.simplify(v.t)
        if z3.is_bv_value(t):
            return t.as_long()
    raise Inconclusive('need a concrete integer, got %r' % (v,))


def as_bool(v):
    if isinstance(v, (z3.BoolRef,)):
        return v
    if isinstance(v, bool):
        return z3.BoolVal(v)
    raise Inconclusive('need a bool, got %r' % (v,))


def leaves(v, out):
    """collect z3 terms contained in a value"""
    if isinstance(v, BV):
        out.append(v.t)
    elif isinstance(v, z3.ExprRef):
        out.append(v)
    elif isinstance(v, (Struct, Enum)):
        for f in v.f:
            leaves(f, out)
    elif isinstance(v, VecVal):
        for f in v.items:
            leaves(f, out)
    return out


def show(v, depth=0):
    """compact JSON-able rendering for evidence files"""
    if isinstance(v, BV):
        t = z3.simplify(v.t)
        return '%s:%s' % (t.as_long() if z3.is_bv_value(t) else t.sexpr(), v.ty)
    if isinstance(v, z3.ExprRef):
        return z3.simplify(v).sexpr()
    if isinstance(v, Struct):
        if v.names:
            return {'%s' % v.ty: {n: show(x) for n, x in zip(v.names, v.f)}}
        return {'%s' % v.ty: [show(x) for x in v.f]}
    if isinstance(v, Enum):
        if v.names:
            return {'%s::%s' % (v.ty, v.variant): {n: show(x) for n, x in zip(v.names, v.f)}}
        return {'%s::%s' % (v.ty, v.variant): [show(x) for x in v.f]} if v.f else '%s::%s' % (v.ty, v.variant)
    if isinstance(v, VecVal):
        return [show(x) for x in v.items]
    if isinstance(v, (list, tuple)):
        return [show(x) for x in v]
    return repr(v)
