"""MIR text front end: parses the output of `rustc -Zunpretty=mir` (the subset walrus produces)
into Fn objects with pre-parsed statements/terminators.  Anything unknown is kept as ('unknown', text)
and only makes an obligation INCONCLUSIVE if execution actually reaches it."""
import re
from functools import lru_cache


class Fn:
    __slots__ = ('name', 'params', 'ret', 'locals', 'blocks', 'debug', 'raw', 'line', 'parsed', 'kind', 'span')

    def __init__(self, name, params, ret, line, kind='fn'):
        self.name = name
        self.params = params      # [(local, type)]
        self.ret = ret
        self.locals = {}          # '_n' -> type string
        self.blocks = {}          # 'bbN' -> [raw statement strings..., terminator]
        self.debug = {}           # source var name -> place text
        self.line = line
        self.parsed = {}          # bb -> (stmts, term) parsed lazily
        self.kind = kind          # 'fn' | 'const' | 'static'

    def nblocks(self):
        return len(self.blocks)

    def __repr__(self):
        return '<Fn %s>' % self.name[:80]


def split_top(s, sep=','):
    """split on sep at nesting depth 0 of ()[]{}<>; string literals are opaque"""
    out = []
    depth = 0
    cur = []
    i = 0
    n = len(s)
    instr = False
    while i < n:
        c = s[i]
        if instr:
            cur.append(c)
            if c == '\\' and i + 1 < n:
                cur.append(s[i + 1])
                i += 1
            elif c == '"':
                instr = False
        elif c == '"':
            instr = True
            cur.append(c)
        elif c in '([{':
            depth += 1
            cur.append(c)
        elif c in ')]}':
            depth -= 1
            cur.append(c)
        elif c == '<':
            depth += 1
            cur.append(c)
        elif c == '>' and i > 0 and s[i - 1] not in '-=':
            depth -= 1
            cur.append(c)
        elif c == sep and depth == 0:
            out.append(''.join(cur).strip())
            cur = []
        else:
            cur.append(c)
        i += 1
    t = ''.join(cur).strip()
    if t:
        out.append(t)
    return out


def balanced(s):
    d = 0
    instr = False
    i = 0
    while i < len(s):
        c = s[i]
        if instr:
            if c == '\\':
                i += 1
            elif c == '"':
                instr = False
        elif c == '"':
            instr = True
        elif c in '([{':
            d += 1
        elif c in ')]}':
            d -= 1
            if d < 0:
                return False
        i += 1
    return d == 0


def _parse_header(head):
    """'name(params) -> ret' ; returns name, params, ret"""
    arrow = head.rfind(') -> ')
    ret = head[arrow + 5:].strip()
    depth = 0
    j = arrow
    while j >= 0:
        if head[j] == ')':
            depth += 1
        elif head[j] == '(':
            depth -= 1
            if depth == 0:
                break
        j -= 1
    name = head[:j]
    params = []
    for p in split_top(head[j + 1:arrow]):
        m = re.match(r'(?:mut )?(_\d+): (.*)$', p)
        if m:
            params.append((m.group(1), m.group(2)))
    return name, params, ret


def parse_file(path):
    """returns dict name -> [Fn] (several fns may share a printed name, e.g. macro-generated impls)"""
    fns = {}
    cur = None
    curbb = None
    with open(path) as f:
        lines = f.read().split('\n')
    for ln_no, ln in enumerate(lines):
        if cur is None:
            if ln.startswith('fn ') and ln.endswith('{'):
                name, params, ret = _parse_header(ln[3:-1].strip())
                cur = Fn(name, params, ret, ln_no + 1)
                for pn, pt in params:
                    cur.locals[pn] = pt
                fns.setdefault(name, []).append(cur)
                curbb = None
            elif ln.startswith('const ') and ln.endswith(';') and ' = const ' in ln:
                head, _, val = ln[6:-1].partition(' = const ')
                nm, _, ty = head.partition(': ')
                c = Fn(nm.strip(), [], ty.strip(), ln_no + 1, 'const')
                c.locals['_0'] = ty.strip()
                c.blocks['bb0'] = ['_0 = const %s;' % val.strip(), 'return;']
                fns.setdefault(c.name, []).append(c)
            elif (ln.startswith('const ') or ln.startswith('static ')) and ln.endswith('= {'):
                kind = 'const' if ln.startswith('const ') else 'static'
                body = ln[len(kind) + 1:-3].strip()
                if body.startswith('mut '):
                    body = body[4:]
                # name: type
                depth = 0
                idx = None
                for i, c in enumerate(body):
                    if c in '<([{':
                        depth += 1
                    elif c in '>)]}' and body[i - 1] not in '-=':
                        depth -= 1
                    elif c == ':' and depth == 0 and body[i:i + 2] == ': ' and body[i - 1] != ':':
                        idx = i
                        break
                if idx is None:
                    continue
                cur = Fn(body[:idx], [], body[idx + 2:], ln_no + 1, kind)
                fns.setdefault(cur.name, []).append(cur)
                curbb = None
            continue
        s = ln.strip()
        if ln == '}':
            cur = None
        elif s.startswith('let '):
            m = re.match(r'let (?:mut )?(_\d+): (.*);$', s)
            if m:
                cur.locals[m.group(1)] = m.group(2)
        elif s.startswith('debug '):
            m = re.match(r'debug (\S+) => (.*);$', s)
            if m:
                cur.debug[m.group(1)] = m.group(2)
        elif re.match(r'bb\d+( \(cleanup\))?: \{$', s):
            curbb = s.split(':')[0].split(' ')[0]
            cur.blocks[curbb] = []
        elif s == '}' or s.startswith('scope ') or s == '':
            pass
        elif curbb is not None:
            cur.blocks[curbb].append(s)
    return fns


# ---------------------------------------------------------------- places / operands / rvalues

@lru_cache(maxsize=None)
def parse_place(s):
    """returns (local, (projs...)); projs: ('deref',) ('field',i) ('downcast',V) ('index',local)
    ('cindex',i,from_end) ('subslice',a,b,from_end)"""
    s = s.strip()
    if re.fullmatch(r'_\d+', s):
        return (s, ())
    if s.startswith('(*') and s.endswith(')') and balanced(s[2:-1]):
        l, p = parse_place(s[2:-1])
        return (l, p + (('deref',),))
    m = re.fullmatch(r'\((.*) as (\w+)\)', s)
    if m and balanced(m.group(1)):
        l, p = parse_place(m.group(1))
        return (l, p + (('downcast', m.group(2)),))
    if s.startswith('(') and s.endswith(')') and balanced(s[1:-1]):
        inner = s[1:-1]
        depth = 0
        for i, c in enumerate(inner):
            if c in '([{':
                depth += 1
            elif c in ')]}':
                depth -= 1
            elif c == '.' and depth == 0:
                m = re.match(r'\.(\d+): ', inner[i:])
                if m:
                    l, p = parse_place(inner[:i])
                    return (l, p + (('field', int(m.group(1))),))
        raise ValueError('place? ' + s)
    m = re.fullmatch(r'(.*)\[(_\d+)\]', s)
    if m:
        l, p = parse_place(m.group(1))
        return (l, p + (('index', m.group(2)),))
    m = re.fullmatch(r'(.*)\[(-?)(\d+) of (\d+)\]', s)
    if m:
        l, p = parse_place(m.group(1))
        return (l, p + (('cindex', int(m.group(3)), m.group(2) == '-'),))
    m = re.fullmatch(r'(.*)\[(\d+):(-?)(\d*)\]', s)
    if m:
        l, p = parse_place(m.group(1))
        return (l, p + (('subslice', int(m.group(2)), int(m.group(4) or 0), m.group(3) == '-'),))
    raise ValueError('place? ' + s)


@lru_cache(maxsize=None)
def parse_operand(s):
    s = s.strip()
    if s.startswith('no_retag '):
        s = s[9:]
    if s.startswith('copy '):
        return ('copy', parse_place(s[5:]))
    if s.startswith('move '):
        return ('move', parse_place(s[5:]))
    if s.startswith('const '):
        return ('const', s[6:].strip())
    if s and not s.startswith(('_', '(', '&', '[')) and balanced(s):
        return ('const', 'FnItem: ' + s)       # bare function item passed as a value
    raise ValueError('operand? ' + s)


BINOPS = {'Gt', 'Lt', 'Ge', 'Le', 'Eq', 'Ne', 'Add', 'Sub', 'Mul', 'Div', 'Rem', 'Shl', 'Shr', 'BitAnd', 'BitOr', 'BitXor',
          'AddWithOverflow', 'SubWithOverflow', 'MulWithOverflow', 'AddUnchecked', 'SubUnchecked', 'MulUnchecked',
          'ShlUnchecked', 'ShrUnchecked', 'Offset', 'Cmp'}
UNOPS = {'Not', 'Neg', 'PtrMetadata'}


@lru_cache(maxsize=None)
def parse_rvalue(s):
    s = s.strip()
    if s.startswith('no_retag '):
        s = s[9:]
    if s.startswith(('copy ', 'move ', 'const ')):
        m = re.fullmatch(r'(.*) as (.+?) \(([A-Za-z]+(?:\(.*\))?)\)', s)
        if m and balanced(m.group(1)):
            try:
                return ('cast', parse_operand(m.group(1)), m.group(2), m.group(3))
            except ValueError:
                pass
        return ('use', parse_operand(s))
    if s.startswith('&'):
        t = s[1:].strip()
        kind = 'shared'
        for pre, k in (('raw const ', 'raw'), ('raw mut ', 'rawmut'), ('mut ', 'mut'), ('fake shallow ', 'shared'), ('fake ', 'shared')):
            if t.startswith(pre):
                t = t[len(pre):]
                kind = k
                break
        return ('ref', kind, parse_place(t))
    m = re.fullmatch(r'discriminant\((.*)\)', s)
    if m:
        return ('discr', parse_place(m.group(1)))
    m = re.fullmatch(r'Len\((.*)\)', s)
    if m:
        return ('len', parse_place(m.group(1)))
    m = re.fullmatch(r'CopyForDeref\((.*)\)', s)
    if m:
        return ('use', ('copy', parse_place(m.group(1))))
    m = re.fullmatch(r'(\w+)\((.*)\)', s)
    if m and m.group(1) in BINOPS:
        a = split_top(m.group(2))
        return ('binop', m.group(1), parse_operand(a[0]), parse_operand(a[1]))
    if m and m.group(1) in UNOPS:
        return ('unop', m.group(1), parse_operand(m.group(2)))
    if m and m.group(1) in ('SizeOf', 'AlignOf', 'UbChecks', 'ContractChecks', 'OffsetOf'):
        return ('nullop', m.group(1), m.group(2))
    m = re.fullmatch(r'ShallowInitBox\((.*), (.*)\)', s)
    if m:
        return ('use', parse_operand(m.group(1)))
    # repeat [x; N]
    if s.startswith('[') and s.endswith(']'):
        inner = s[1:-1]
        parts = split_top(inner, ';')
        if len(parts) == 2 and balanced(parts[0]):
            try:
                return ('repeat', parse_operand(parts[0]), parts[1].strip())
            except ValueError:
                pass
        return ('array', tuple(parse_operand(p) for p in split_top(inner)))
    if s.startswith('(') and s.endswith(')') and balanced(s[1:-1]):
        return ('tuple', tuple(parse_operand(p) for p in split_top(s[1:-1])))
    # closure / coroutine aggregate   {closure@...}  or {closure@...}(captures) handled below
    m = re.fullmatch(r'(\{closure@[^}]*\})(?:\((.*)\))?', s)
    if m:
        caps = tuple(parse_operand(p) for p in split_top(m.group(2))) if m.group(2) else ()
        return ('closure', m.group(1), caps)
    # struct aggregate  Path { a: x, b: y }
    m = re.fullmatch(r'(.*?) \{ (.*) \}', s)
    if m and balanced(m.group(2)):
        names = []
        vals = []
        for part in split_top(m.group(2)):
            n, _, v = part.partition(': ')
            names.append(n)
            vals.append(parse_operand(v))
        return ('struct', m.group(1).strip(), tuple(names), tuple(vals))
    m = re.fullmatch(r'(.*?) \{\{?\s*\}?\}', s)
    if m:
        return ('struct', m.group(1).strip(), (), ())
    # tuple-like ctor  Path::Variant(args) / Path(args)
    if s.endswith(')'):
        depth = 0
        j = len(s) - 1
        while j >= 0:
            if s[j] == ')':
                depth += 1
            elif s[j] == '(':
                depth -= 1
                if depth == 0:
                    break
            j -= 1
        if j > 0 and re.search(r'[\w>]$', s[:j]):
            return ('ctor', s[:j].strip(), tuple(parse_operand(a) for a in split_top(s[j + 1:-1])))
    # unit variant / unit struct path
    if re.fullmatch(r"[\w:<>' ,&\[\]\(\);+\-]+", s):
        return ('ctor', s, ())
    raise ValueError('rvalue? ' + s[:160])


NOP_STMTS = ('StorageLive', 'StorageDead', 'nop', 'FakeRead', 'PlaceMention', 'Retag', 'ConstEvalCounter', 'Coverage',
             'AscribeUserType', 'Deinit', 'BackwardIncompatibleDropHint')


@lru_cache(maxsize=None)
def parse_stmt(s):
    if s.startswith(NOP_STMTS):
        return ('nop',)
    m = re.fullmatch(r'discriminant\((.*)\) = (-?\d+);', s)
    if m:
        return ('setdiscr', parse_place(m.group(1)), int(m.group(2)))
    if s.startswith('assume('):
        return ('assume', parse_operand(s[7:-2]))
    m = re.fullmatch(r'(.*?) = (.*);', s)
    if not m:
        return ('unknown', s)
    try:
        return ('assign', parse_place(m.group(1)), parse_rvalue(m.group(2)))
    except ValueError as e:
        return ('unknown', s + '  [' + str(e)[:80] + ']')


@lru_cache(maxsize=None)
def parse_term(t):
    if t == 'return;':
        return ('return',)
    if t in ('unreachable;',):
        return ('unreachable',)
    if t.startswith('resume') or t.startswith('terminate') or t.startswith('abort'):
        return ('resume',)
    m = re.fullmatch(r'goto -> (bb\d+);', t)
    if m:
        return ('goto', m.group(1))
    m = re.fullmatch(r'falseEdge -> \[real: (bb\d+), imaginary: bb\d+\];', t) or re.fullmatch(r'falseUnwind -> \[real: (bb\d+), .*\];', t)
    if m:
        return ('goto', m.group(1))
    m = re.fullmatch(r'switchInt\((.*)\) -> \[(.*)\];', t)
    if m:
        targets = []
        other = None
        for x in split_top(m.group(2)):
            k, _, b = x.partition(': ')
            if k == 'otherwise':
                other = b
            else:
                targets.append((int(k), b))
        return ('switch', parse_operand(m.group(1)), tuple(targets), other)
    m = re.fullmatch(r'assert\((.*?), "(.*)\) -> \[success: (bb\d+), unwind.*\];', t)
    if m:
        cs = m.group(1)
        neg = cs.startswith('!')
        return ('assert', neg, parse_operand(cs[1:] if neg else cs), m.group(2)[:60], m.group(3))
    m = re.fullmatch(r'drop\((.*)\) -> \[return: (bb\d+),.*\];', t)
    if m:
        return ('drop', m.group(2))
    k = t.rfind(' -> [return: ')
    if k > 0 and ' = ' in t[:k]:
        mm = re.fullmatch(r'\[return: (bb\d+), unwind.*\];', t[k + 4:])
        dst, _, body = t[:k].partition(' = ')
        if mm and body.endswith(')'):
            depth = 0
            j = len(body) - 1
            while j >= 0:
                if body[j] == ')':
                    depth += 1
                elif body[j] == '(':
                    depth -= 1
                    if depth == 0:
                        break
                j -= 1
            try:
                return ('call', parse_place(dst), body[:j].strip(),
                        tuple(parse_operand(a) for a in split_top(body[j + 1:-1])), mm.group(1))
            except ValueError as e:
                return ('unknown', t + ' [' + str(e)[:60] + ']')
    m = re.fullmatch(r'(.*?) = (.*)\((.*)\) -> (?:unwind.*|bb\d+);', t)
    if m:
        try:
            args = tuple(parse_operand(a) for a in split_top(m.group(3)))
        except ValueError:
            args = ()
        return ('diverge', m.group(2).strip(), args)
    return ('unknown', t)


def parsed_block(fn, bb):
    p = fn.parsed.get(bb)
    if p is None:
        raw = fn.blocks[bb]
        p = (tuple(parse_stmt(s) for s in raw[:-1]), parse_term(raw[-1]))
        fn.parsed[bb] = p
    return p
