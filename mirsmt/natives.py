"""Native confirmation of module-level counterexamples: the concretised description is built by `vreplay build`, pushed
through the real walrus by `vreplay script`, and the decoded input and output are compared with the same reference
comparison (modcmp.compare_structure) on concrete values."""
import json
import os
import re

from . import common, modcmp, witness, replay
from .values import Inconclusive


def _fields(s):
    """'Name { a: 1, b: Some(2), c: X { .. } }' -> dict of top-level fields (strings)"""
    i = s.find('{')
    if i < 0:
        return {}
    body = s[i + 1:s.rindex('}')]
    out = {}
    depth = 0
    cur = ''
    parts = []
    for ch in body:
        if ch in '({[':
            depth += 1
        elif ch in ')}]':
            depth -= 1
        if ch == ',' and depth == 0:
            parts.append(cur)
            cur = ''
        else:
            cur += ch
    if cur.strip():
        parts.append(cur)
    for p in parts:
        k, _, v = p.partition(':')
        out[k.strip()] = v.strip()
    return out


def _opt(s):
    s = s.strip()
    if s == 'None':
        return None
    m = re.match(r'Some\((.*)\)$', s)
    return _val(m.group(1)) if m else _val(s)


def _val(s):
    s = s.strip()
    if s in ('true', 'false'):
        return s == 'true'
    if re.fullmatch(r'-?\d+', s):
        return int(s)
    return s


def _vt(s):
    s = s.strip()
    m = re.match(r'Ref\((.*)\)$', s)
    if m:
        s = m.group(1)
    return s.lower()


def _memtype(s):
    f = _fields(s)
    return {'memory64': _val(f['memory64']), 'shared': _val(f['shared']), 'initial': _val(f['initial']), 'maximum': _opt(f['maximum']),
            'page_size_log2': _opt(f.get('page_size_log2', 'None'))}


def _tabletype(s):
    f = _fields(s)
    return {'element_type': _vt(f['element_type']), 'table64': _val(f['table64']), 'initial': _val(f['initial']), 'maximum': _opt(f['maximum'])}


def _globaltype(s):
    f = _fields(s)
    return {'ty': _vt(f['content_type']), 'mutable': _val(f['mutable']), 'shared': _val(f['shared'])}


def _cexpr(ops):
    op = ops[0]
    name = op.split(' ')[0].split('{')[0].strip()
    f = _fields(op)
    if name == 'I32Const':
        return ('i32_const', _val(f['value']))
    if name == 'I64Const':
        return ('i64_const', _val(f['value']))
    if name in ('F32Const', 'F64Const'):
        m = re.search(r'Ieee\d+\((\d+)\)', op)
        return (name[:3].lower() + '_const', int(m.group(1)))
    if name == 'V128Const':
        return ('v128_const', op)
    if name == 'GlobalGet':
        return ('global_get', _val(f['global_index']))
    if name == 'RefFunc':
        return ('ref_func', _val(f['function_index']))
    if name == 'RefNull':
        return ('ref_null', 'externref' if re.search(r'extern', op, re.I) else 'funcref')
    return (name, op)


def dump_to_N(d):
    N = {'types': [], 'imports': [], 'funcs': [{'type': t} for t in d['functions']], 'tables': [_tabletype(t['ty']) for t in d['tables']],
         'memories': [_memtype(m) for m in d['memories']], 'globals': [], 'exports': [], 'start': d.get('start'), 'elements': [],
         'data_count': d.get('data_count'), 'data': [], 'code': d['code'], 'customs': [(c['name'], c['data']) for c in d['custom_sections']]}
    for t in d['types']:
        m = re.match(r'func \[(.*)\] -> \[(.*)\]', t)
        N['types'].append((tuple(_vt(x) for x in m.group(1).split(',') if x.strip()), tuple(_vt(x) for x in m.group(2).split(',') if x.strip())))
    for i in d['imports']:
        e = {'module': i['module'], 'name': i['name']}
        ty = i['ty']
        if ty.startswith('Func('):
            e.update(kind='func', type=int(ty[5:-1]))
        elif ty.startswith('Table('):
            e.update(kind='table', **_tabletype(ty[6:-1]))
        elif ty.startswith('Memory('):
            e.update(kind='memory', **_memtype(ty[7:-1]))
        elif ty.startswith('Global('):
            e.update(kind='global', **_globaltype(ty[7:-1]))
        N['imports'].append(e)
    for g in d['globals']:
        x = _globaltype(g['ty'])
        x['init'] = _cexpr(g['init'])
        N['globals'].append(x)
    for e in d['exports']:
        N['exports'].append({'name': e['name'], 'kind': e['kind'], 'index': e['index']})
    for e in d['elements']:
        kind = e['items_kind']
        if kind.startswith('func'):
            items = ('funcs', list(e['items']))
        else:
            ty = 'externref' if 'extern' in json.dumps(e).lower() and 'extern' in str(e.get('items_ty', e.get('ty', kind))).lower() else 'funcref'
            items = ('exprs', ty, [_cexpr(x) for x in e['items']])
        if e['mode'] == 'active':
            t = e['table']
            N['elements'].append({'mode': 'active', 'table': (t['index'] if t['explicit'] else None), 'offset': _cexpr(e['offset']), 'items': items})
        else:
            N['elements'].append({'mode': e['mode'], 'items': items})
    for x in d['data']:
        if x['mode'] == 'active':
            N['data'].append({'mode': 'active', 'memory': x['memory'], 'offset': _cexpr(x['offset']), 'data': x['bytes']})
        else:
            N['data'].append({'mode': 'passive', 'data': x['bytes']})
    return N


def match_funcs_by_body(IN, OUT, nimp_in, nimp_out):
    """native matching of local functions: by the value of the leading `i32.const <tag>`"""
    def tag(body):
        ops = body['ops']
        return ops[0] if ops else None
    pi = {}
    used = set()
    for i, b in enumerate(IN['code']):
        for j, c in enumerate(OUT['code']):
            if j not in used and tag(b) == tag(c) and len([o for o in b['ops'] if not o.startswith('Nop')]) == len(c['ops']):
                pi[nimp_in + i] = nimp_out + j
                used.add(j)
                break
    return pi


def native_keys(result, emit_index=0):
    """mismatch keys between the decoded input and the decoded output of a vreplay script run"""
    IN = dump_to_N(result['input']['dump'])
    OUT = dump_to_N(result['emits'][emit_index]['dump'])
    # local functions are matched natively by body
    C, pi = modcmp.compare_structure(None, IN, OUT, None, func_matcher=match_funcs_by_body)
    keys = [k for k, _ in C.bad]
    return keys, C.bad


def run_script(spec_j, steps=('emit',), config=None, profile='debug'):
    d = os.path.join(common.BUILD, 'scripts')
    os.makedirs(d, exist_ok=True)
    p = os.path.join(d, 'script-%d.json' % os.getpid())
    json.dump({'spec': spec_j, 'config': config or {}, 'steps': list(steps)}, open(p, 'w'))
    r = replay.run_vreplay(['script', p], profile)
    os.remove(p)
    return r


def confirm_structure(vio, pid):
    """route for module-level violations: reproduced iff the native comparison reports the same key (or a panic / parse
    error for the panic / rejection keys)"""
    spec = vio.get('spec')
    model = vio.get('model')
    if vio.get('spec_json') is not None:
        model = True
    if model is None and vio.get('pc') is not None:
        import z3
        s = z3.Solver()
        s.add(*vio['pc'])
        if s.check() == z3.sat:
            model = s.model()
    if model is None:
        import z3
        s = z3.Solver()
        s.check()
        model = s.model()
    J = vio.get('spec_json') or witness.spec_json(spec, model)
    for k, size in (vio.get('pad') or {}).items():
        # make function k's encoded body about `size` bytes long (i32.const 0; drop = 3 bytes per pair)
        ops = J['funcs'][int(k)]['ops']
        pad = []
        for _ in range(max(0, int(size) // 3)):
            pad += [{'instruction': 'I32Const', 'fields': {'0': '0'}}, {'instruction': 'Drop', 'fields': {}}]
        J['funcs'][int(k)]['ops'] = ops[:-1] + pad + ops[-1:]
    steps = vio.get('steps', ('emit',))
    config = vio.get('config')
    res = {}
    ok = []
    for profile in ('debug', 'release'):
        r = run_script(J, steps, config, profile)
        res[profile] = {'status': r.get('status'), 'error': r.get('error'), 'panic_stage': r.get('panic_stage')}
        if not r.get('input', {}).get('valid', False) and r.get('status') != 'bad-output':
            res[profile]['note'] = 'witness module is not valid (outside the property): ' + str(r.get('input', {}).get('validation_error'))
            ok.append(False)
            continue
        key = vio['key']
        if key.endswith('.panic'):
            ok.append(r.get('status') == 'panic')
        elif key == 'parse.rejects':
            ok.append(r.get('status') == 'parse-error')
        elif r.get('status') == 'ok':
            check = vio.get('native_check')
            if check is not None:
                good, info = check(r)
                res[profile]['native'] = info
                ok.append(good)
            elif key == 'malformed':
                out = r['emits'][-1]
                res[profile]['native_validity'] = {'valid': out['valid'], 'error': out.get('validation_error')}
                ok.append(not out['valid'])
            elif key.startswith('body.'):
                mm, info = native_bodies_mismatch(r, vio.get('emit_index', 0))
                res[profile]['native_body'] = info[:4]
                ok.append(mm)
            else:
                keys, bad = native_keys(r, vio.get('emit_index', 0))
                res[profile]['native_mismatches'] = bad[:8]
                ok.append(key in keys)
        else:
            ok.append(None if r.get('status') == 'bad-output' else False)
    path = replay.save_witness(pid, vio['key'], {'route': 'roundtrip-script', 'what': vio['what'], 'script': {'spec': J, 'steps': list(steps), 'config': config or {}},
                                                  'native': res, 'expect_key': vio['key']})
    vio['replay'] = path
    if all(x is True for x in ok):
        vio['reproduced'] = True
    elif any(x is None for x in ok):
        vio['reproduced'] = None
    else:
        vio['reproduced'] = False
    for k in ('spec', 'model', 'pc', 'native_check', 'spec_json', 'pad'):
        vio.pop(k, None)


def replay_script(pid, d, path):
    r = run_script(d['script']['spec'], d['script']['steps'], d['script'].get('config'))
    key = d.get('expect_key', '')
    print('status', r.get('status'), r.get('error'))
    if key.endswith('.panic'):
        hit = r.get('status') == 'panic'
    elif key == 'parse.rejects':
        hit = r.get('status') == 'parse-error'
    elif r.get('status') == 'ok' and key.startswith('body.'):
        hit, info = native_bodies_mismatch(r)
        print('  ', info[:4])
    elif r.get('status') == 'ok':
        keys, bad = native_keys(r)
        for b in bad[:10]:
            print('  mismatch', b)
        hit = key in keys
    else:
        hit = False
    if hit:
        print('VIOLATION property=%s replay=%s' % (pid, path))
        return 1
    return 0


# ------------------------------------------------------------------ native body comparison (Debug strings of wasmparser operators)
_IDX = {'function_index', 'type_index', 'table_index', 'table', 'dst_table', 'src_table', 'global_index', 'local_index', 'data_index', 'elem_index',
        'mem', 'src_mem', 'dst_mem'}


def _opname(s):
    return re.split(r'[ {(]', s, 1)[0]


_TYPES = {'in': None, 'out': None}      # 'func [..] -> [..]' strings of the run being compared (set by native_bodies_mismatch)


def _blockty_sig(bt, types):
    """signature string denoted by a block type Debug string"""
    bt = bt.strip()
    if bt == 'Empty':
        return 'func [] -> []'
    m = re.match(r'FuncType\((\d+)\)', bt)
    if m:
        i = int(m.group(1))
        return types[i] if types and i < len(types) else None
    m = re.match(r'Type\((.*)\)$', bt)
    if m:
        return 'func [] -> [%s]' % m.group(1)
    return None


def _same_dbg(a, b):
    if _opname(a) != _opname(b):
        return False
    fa, fb = _fields(a), _fields(b)
    for k in fa:
        if k in _IDX:
            continue
        if k == 'blockty' and 'FuncType' in fa[k]:
            # type indices are renumbered and inline-able signatures may be written inline: the SIGNATURE must agree
            sa, sb = _blockty_sig(fa[k], _TYPES['in']), _blockty_sig(fb.get(k, ''), _TYPES['out'])
            if sa is not None and sb is not None and sa != sb:
                return False
            continue
        if k == 'memarg':
            ma, mb = _fields(fa[k]), _fields(fb.get(k, ''))
            if any(ma.get(x) != mb.get(x) for x in ('align', 'offset')):
                return False
            continue
        if fa[k] != fb.get(k):
            return False
    return True


def native_body_ok(in_ops, out_ops):
    """same reference matching as bodycmp on Debug strings: True iff out is an admissible image of in"""
    from .bodycmp import OPENERS, UNCOND
    # liveness
    lv = []
    stack = []
    cur = {'dead': False, 'opener': None}
    has_else = {}
    for i, s in enumerate(in_ops):
        n = _opname(s)
        if n in OPENERS:
            lv.append((s, not cur['dead'], None))
            stack.append(cur)
            cur = {'dead': cur['dead'], 'opener': i, 'inh': cur['dead']}
        elif n == 'Else':
            inh = cur.get('inh', False)
            has_else[cur['opener']] = True
            lv.append((s, not inh, cur['opener']))
            cur = {'dead': inh, 'opener': cur['opener'], 'inh': inh}
        elif n == 'End':
            inh = cur.get('inh', False)
            lv.append((s, not inh, cur['opener']))
            if stack:
                cur = stack.pop()
        else:
            lv.append((s, not cur['dead'], None))
            if n in UNCOND:
                cur['dead'] = True
    j = 0
    kept = {}
    for i, (s, live, opener) in enumerate(lv):
        n = _opname(s)
        if n == 'Nop':
            if j < len(out_ops) and _opname(out_ops[j]) == 'Nop':
                j += 1
            continue
        if n == 'End' and opener is not None and _opname(in_ops[opener]) == 'If' and not has_else.get(opener) and live and j < len(out_ops) and _opname(out_ops[j]) == 'Else':
            j += 1
        if not live:
            closes = n in ('End', 'Else') and opener is not None
            if j < len(out_ops) and _same_dbg(s, out_ops[j]) and (not closes or kept.get(opener)):
                j += 1
                if n in OPENERS:
                    kept[i] = True
            continue
        if j >= len(out_ops) or not _same_dbg(s, out_ops[j]):
            return False, 'input op #%d %s vs output #%d %s' % (i, s, j, out_ops[j] if j < len(out_ops) else None)
        j += 1
    if j != len(out_ops):
        return False, 'extra output ops from #%d: %r' % (j, out_ops[j:j + 3])
    return True, ''


def native_bodies_mismatch(r, emit_index=0):
    """(mismatch?, info): some input body has no admissible image among the output bodies"""
    ins = r['input']['dump']['code']
    outs = r['emits'][emit_index]['dump']['code']
    _TYPES['in'] = r['input']['dump'].get('types')
    _TYPES['out'] = r['emits'][emit_index]['dump'].get('types')
    info = []
    used = set()
    for i, b in enumerate(ins):
        hit = None
        for j, c in enumerate(outs):
            if j in used:
                continue
            ok, why = native_body_ok(b['ops'], c['ops'])
            if ok:
                hit = j
                break
        if hit is None:
            info.append('input function %d has no admissible image in the output' % i)
        else:
            used.add(hit)
    return bool(info) or len(ins) != len(outs), info


def confirm_dwarf_skipped(vio, pid):
    """C14 flag.dwarf.skipped: DWARF is synthesised for the description (vreplay dwarf, generate_dwarf on); reproduced iff
    the input carries .debug sections and the output carries none"""
    import z3
    spec = vio.get('spec')
    J = vio.get('spec_json')
    if J is None:
        s = z3.Solver()
        s.add(*(vio.get('pc') or []))
        s.check()
        J = witness.spec_json(spec, s.model())
    J = dict(J)
    J['customs'] = [c for c in J.get('customs', []) if not c['name'].startswith('.debug')]      # real DWARF replaces the tokens
    d = os.path.join(common.BUILD, 'scripts')
    os.makedirs(d, exist_ok=True)
    res, ok = {}, []
    for profile in ('debug', 'release'):
        p = os.path.join(d, 'dwarfskip-%d.json' % os.getpid())
        json.dump({'spec': J, 'version': 4, 'gc': False}, open(p, 'w'))
        r = replay.run_vreplay(['dwarf', p], profile)
        os.remove(p)
        ins = (r.get('input') or {}).get('debug_sections') or []
        outs = (r.get('output') or {}).get('debug_sections') or []
        res[profile] = {'status': r.get('status'), 'input_debug_sections': ins, 'output_debug_sections': outs}
        ok.append(r.get('status') == 'ok' and bool(ins) and not outs)
    path = replay.save_witness(pid, vio['key'], {'route': 'dwarf', 'what': vio['what'], 'script': {'spec': J, 'version': 4, 'gc': False}, 'native': res})
    vio['replay'] = path
    vio['reproduced'] = True if all(ok) else False
    for k in ('spec', 'model', 'pc', 'native_check', 'spec_json', 'config'):
        vio.pop(k, None)


# ------------------------------------------------------------------ DWARF route (vreplay dwarf: DWARF synthesised with gimli::write)
def confirm_dwarf(vio, pid):
    spec = vio.get('spec')
    J = vio.get('spec_json')
    if J is None and spec is not None:
        import z3
        model = vio.get('model')
        if model is None:
            s = z3.Solver()
            s.add(*(vio.get('pc') or []))
            s.check()
            model = s.model()
        J = witness.spec_json(spec, model)
    if J is None:
        # a minimal three-function module is enough for kernels that do not depend on the module
        from obligations import c11
        import z3
        s = z3.Solver()
        s.check()
        J = witness.spec_json(c11.spec_for(3), s.model())
    opts = dict(vio.get('dwarf_script') or {})
    pb = vio.get('pad_brtable')
    if pb:
        flds = J['funcs'][pb['func']]['ops'][pb['op']]['fields']
        for k_, v_ in flds.items():
            if str(v_).startswith('['):
                flds[k_] = '[' + ', '.join(['0'] * pb['targets']) + ']'
    res = {}
    ok = []
    d = os.path.join(common.BUILD, 'scripts')
    os.makedirs(d, exist_ok=True)
    for profile in ('debug', 'release'):
        p = os.path.join(d, 'dwarf-%d.json' % os.getpid())
        json.dump(dict({'spec': J, 'version': 4, 'gc': False}, **opts), open(p, 'w'))
        r = replay.run_vreplay(['dwarf', p], profile)
        os.remove(p)
        summ = (r.get('checks') or {}).get('summary') or {}
        res[profile] = {'status': r.get('status'), 'error': (r.get('error') or '')[:200], 'summary': summ}
        key = vio['key']
        if key == 'dwarf.row.file-index-0' or key.endswith('.panic'):
            ok.append(r.get('status') == 'panic')
        elif r.get('status') != 'ok':
            ok.append(None)
        elif key.split('[')[0] in ('dwarf.low_pc', 'dwarf.high_pc', 'dwarf.seq_base', 'dwarf.original_range'):
            ok.append(summ.get('subprogram_mismatches', 0) > 0 or summ.get('row_mismatches', 0) > 0)
        else:
            gc_run = bool(opts.get('gc'))
            if key.endswith('.lost'):
                # rows of an emitted function disappeared (after gc, rows of removed functions are expected to go)
                ok.append((not gc_run) and summ.get('rows_lost_non_nop', 0) > 0)
            elif key == 'dwarf.dead-maps':
                ok.append(summ.get('row_mismatches', 0) > 0)
            else:
                ok.append(summ.get('row_mismatches', 0) > 0)
    path = replay.save_witness(pid, vio['key'], {'route': 'dwarf', 'what': vio['what'], 'script': dict({'spec': J, 'version': 4, 'gc': False}, **opts), 'native': res})
    vio['replay'] = path
    if all(x is True for x in ok):
        vio['reproduced'] = True
    elif any(x is None for x in ok):
        vio['reproduced'] = None
    else:
        vio['reproduced'] = False
    for k in ('spec', 'model', 'pc', 'spec_json', 'pad', 'dwarf_script', 'pad_brtable'):
        vio.pop(k, None)
