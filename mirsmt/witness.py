"""Concretise a module description under a solver model into the JSON accepted by `vreplay build` / `vreplay script`."""
import json
import os
import re

import z3

from .values import *
from . import common


def load_table():
    p = os.path.join(common.BUILD, 'codec_table.json')
    t = json.load(open(p))
    byop = {}
    for e in t['entries']:
        if e.get('ok'):
            byop.setdefault(e['operator'], []).append(e)
    return byop


class Conc:
    def __init__(self, model):
        self.m = model

    def bv(self, v, signed=None):
        if isinstance(v, int):
            return v
        t = v.t if isinstance(v, BV) else v
        if self.m is not None:
            t = self.m.eval(t, True)
        t = z3.simplify(t)
        val = t.as_long()
        ty = v.ty if isinstance(v, BV) else ''
        if (signed if signed is not None else ty in SIGNED) and val >= 1 << (t.size() - 1):
            val -= 1 << t.size()
        return val

    def boolean(self, v):
        if isinstance(v, bool):
            return v
        t = self.m.eval(v, True) if self.m is not None else z3.simplify(v)
        return z3.is_true(z3.simplify(t))

    def s(self, tok):
        n = tok.name if isinstance(tok, Opaque) else str(tok)
        m = re.match(r'str:"(.*)"$', n)
        if m:
            return m.group(1)
        return re.sub(r'[^A-Za-z0-9_.-]', '_', n.replace('str:sym:', ''))

    def bytes_hex(self, tok):
        n = tok.name if isinstance(tok, Opaque) else repr(tok)
        data = n.encode()
        if self.m is not None and self.m is not True:
            # the payload length is a symbolic quantity of the description when walrus looked at it
            try:
                ln = self.m.eval(z3.BitVec('len[%s]' % n, 64), False)
                if z3.is_bv_value(ln):
                    k = min(ln.as_long(), 4096)
                    data = (data * (k // max(1, len(data)) + 1))[:k]
            except z3.Z3Exception:
                pass
        return data.hex()


def render_ref(v):
    if isinstance(v, Struct) and v.ty == 'wasmparser::RefType':
        return common.reftype_name(v)
    if isinstance(v, Enum) and v.variant == 'Abstract':
        return {'Func': 'funcref', 'Extern': 'externref'}[v.f[-1].variant]
    if isinstance(v, Enum) and v.variant == 'Ref':
        return render_ref(v.f[0])
    if isinstance(v, Enum):
        return v.variant.lower()
    return str(v)


def op_json(op, C, table):
    """wasmparser::Operator term -> {"instruction", "fields"} (Instruction-side naming via the codec table)"""
    ents = table.get(op.variant)
    if not ents:
        raise Inconclusive('no codec entry for ' + op.variant)
    flat = {}
    label = None
    names = op.names or [str(i) for i in range(len(op.f))]
    for n, x in zip(names, op.f):
        if isinstance(x, Struct) and x.ty.endswith('MemArg'):
            for fn, fx in zip(x.names, x.f):
                flat[n + '.' + fn] = str(C.bv(fx))
        elif isinstance(x, Struct) and x.ty.endswith(('Ieee32', 'Ieee64')):
            flat[n] = str(C.bv(x.f[0], signed=False))
        elif isinstance(x, Struct) and x.ty.endswith('V128'):
            flat[n] = '[' + ', '.join(str(C.bv(b)) for b in x.f[0].items) + ']'
        elif isinstance(x, VecVal):
            flat[n] = '[' + ', '.join(str(C.bv(b)) for b in x.items) + ']'
        elif isinstance(x, BV):
            flat[n] = str(C.bv(x))
        elif isinstance(x, Enum) and x.ty.endswith('BlockType'):
            if x.variant == 'Empty':
                flat[n] = 'empty'
                label = 'empty'
            elif x.variant == 'Type':
                flat[n] = 'result:' + render_ref(x.f[0])
                label = 'result'
            else:
                flat[n] = 'functype:%d' % C.bv(x.f[0])
                label = 'functype'
        elif isinstance(x, Struct) and x.ty == 'BrTable':
            flat['targets'] = '[' + ', '.join(str(C.bv(b)) for b in x.f[0]) + ']'
            flat['default'] = str(C.bv(x.f[1]))
        else:
            flat[n] = render_ref(x)
    entry = ents[0]
    if label:
        for e in ents:
            if e['instruction'].endswith('#' + label):
                entry = e
    fields = {}
    for okey, marker in entry['op_fields'].items():
        if okey.endswith('.max_align'):
            continue
        hits = [k for k, m in entry['instr_fields'].items() if m == marker]
        if len(hits) > 1:
            suf = okey.split('.')[-1]
            hits = [k for k in hits if k.split('.')[-1].startswith(suf[:5])] or hits
        if not hits:
            continue
        if okey in flat:
            fields[hits[0]] = flat[okey]
    return {'instruction': entry['instruction'].split('#')[0], 'fields': fields}


def spec_json(spec, model, table=None):
    table = table or load_table()
    C = Conc(model)

    def optn(v):
        return None if v is None else str(C.bv(v))

    def memj(m):
        return {'memory64': C.boolean(m['memory64']), 'shared': C.boolean(m['shared']), 'initial': str(C.bv(m['initial'])), 'maximum': optn(m['maximum']),
                'page_size_log2': None if m['page_size_log2'] is None else C.bv(m['page_size_log2'])}

    def tabj(t):
        return {'element_type': t['element_type'], 'table64': C.boolean(t['table64']), 'initial': str(C.bv(t['initial'])), 'maximum': optn(t['maximum'])}

    def globj(g):
        return {'ty': g['ty'], 'mutable': C.boolean(g['mutable']), 'shared': C.boolean(g['shared'])}
    J = {'types': [{'params': list(p), 'results': list(r)} for p, r in spec.types], 'imports': [], 'funcs': [], 'tables': [tabj(t) for t in spec.tables],
         'memories': [memj(m) for m in spec.memories], 'globals': [], 'exports': [], 'start': None if spec.start is None else C.bv(spec.start), 'elements': [],
         'data_count': None if spec.data_count is None else C.bv(spec.data_count), 'data': [], 'customs': [], 'names': None, 'producers': None}
    for i in spec.imports:
        d = {'module': C.s(i['module']), 'name': C.s(i['name']), 'kind': i['kind']}
        if i['kind'] == 'func':
            d['type'] = C.bv(i['type'])
        elif i['kind'] == 'table':
            d.update(tabj(i))
        elif i['kind'] == 'memory':
            d.update(memj(i))
        else:
            d.update(globj(i))
        J['imports'].append(d)
    for f in spec.funcs:
        J['funcs'].append({'type': C.bv(f['type']), 'locals': [[C.bv(c), vt] for c, vt in f.get('locals', [])], 'ops': [op_json(o, C, table) for o in f['ops']]})
    for g in spec.globals:
        d = globj(g)
        d['init'] = op_json(g['init'], C, table)
        J['globals'].append(d)
    for e in spec.exports:
        J['exports'].append({'name': C.s(e['name']), 'kind': e['kind'].lower(), 'index': C.bv(e['index'])})
    for e in spec.elements:
        d = {'mode': e['mode']}
        if e['mode'] == 'active':
            d['table'] = None if e['table'] is None else C.bv(e['table'])
            d['offset'] = op_json(e['offset'], C, table)
        if e['items'][0] == 'funcs':
            d['items'] = {'funcs': [C.bv(x) for x in e['items'][1]]}
        else:
            d['items'] = {'exprs': {'ty': e['items'][1], 'items': [op_json(x, C, table) for x in e['items'][2]]}}
        J['elements'].append(d)
    for dd in spec.data:
        d = {'mode': dd['mode'], 'bytes': C.bytes_hex(dd['data'])}
        if dd['mode'] == 'active':
            d['memory'] = C.bv(dd['memory'])
            d['offset'] = op_json(dd['offset'], C, table)
        J['data'].append(d)
    for c in spec.customs:
        J['customs'].append({'name': C.s(c['name']), 'data': C.bytes_hex(c['data']), 'place': c.get('place', 'end')})
    if spec.names is not None:
        nj = {}
        for k, v in spec.names.items():
            if k == 'module':
                nj[k] = C.s(v)
            elif k == 'locals':
                nj[k] = {str(f): {str(l): C.s(n) for l, n in m.items()} for f, m in v.items()}
            else:
                nj[k] = {str(i): C.s(n) for i, n in v.items()}
        J['names'] = nj
    if spec.producers is not None and 'ERR' in spec.producers:
        # a partly readable producers section: complete fields followed by a truncated one, as raw bytes
        def leb(n):
            out = bytearray()
            while True:
                b = n & 0x7f
                n >>= 7
                if n:
                    out.append(b | 0x80)
                else:
                    out.append(b)
                    return bytes(out)

        def st_(x):
            b = x.encode()
            return leb(len(b)) + b
        good = [e for e in spec.producers if e != 'ERR']
        data = leb(len(good) + 1)
        for f, vals in good:
            data += st_(C.s(f)) + leb(len(vals))
            for a, b in vals:
                data += st_(C.s(a)) + st_(C.s(b))
        data += st_('broken')
        J['customs'].append({'name': 'producers', 'data': data.hex(), 'place': 'end'})
    elif spec.producers is not None:
        J['producers'] = [{'field': C.s(f), 'values': [[C.s(a), C.s(b)] for a, b in vals]} for f, vals in spec.producers]
    return J
