"""Shared plumbing of the checks: MIR dump of /repo's working tree, interpreter set-up, evidence, findings."""
import glob
import hashlib
import json
import os
import re
import subprocess
import sys
import time

import z3

from . import mir, defs, engine, models
from .values import *

VERIF = os.path.dirname(os.path.dirname(os.path.abspath(__file__)))
REPO = os.environ.get('VERIF_REPO', '/repo')
# evidence of a run against a tree other than /repo (seeded-change trials) must not overwrite the real evidence
EVIDENCE = os.environ.get('VERIF_EVIDENCE_DIR') or (os.path.join(os.path.dirname(os.path.dirname(os.path.abspath(__file__))), 'evidence') if os.path.realpath(os.environ.get('VERIF_REPO', '/repo')) == '/repo' else '/tmp/verif-evidence-alt')
BUILD = os.path.join(VERIF, '.build')


def tree_hash():
    """content hash of everything the MIR dump depends on (sources of walrus + macro crate + manifests)"""
    h = hashlib.sha256()
    files = sorted(glob.glob(os.path.join(REPO, 'src', '**', '*.rs'), recursive=True)
                   + glob.glob(os.path.join(REPO, 'crates', 'macro', '**', '*.rs'), recursive=True)
                   + [os.path.join(REPO, 'Cargo.toml'), os.path.join(REPO, 'Cargo.lock'), os.path.join(REPO, 'crates', 'macro', 'Cargo.toml')])
    for f in files:
        if os.path.exists(f):
            h.update(f.encode())
            h.update(open(f, 'rb').read())
    return h.hexdigest()[:20]


def mir_dump(log=None):
    """Re-generates the MIR of /repo's current working tree.  The dump is keyed by a content hash of the
    sources, so a changed tree is always re-dumped; an unchanged tree re-uses the dump made from the same bytes."""
    os.makedirs(BUILD, exist_ok=True)
    th = tree_hash()
    out = os.path.join(BUILD, 'walrus-%s.mir' % th)
    if os.path.exists(out) and os.path.getsize(out) > 100000:
        return out, th, 0.0
    lock = os.path.join(BUILD, 'mir.lock')
    import fcntl
    with open(lock, 'w') as lf:
        fcntl.flock(lf, fcntl.LOCK_EX)
        if os.path.exists(out) and os.path.getsize(out) > 100000:
            return out, th, 0.0
        t = time.time()
        olds = sorted(glob.glob(os.path.join(BUILD, 'walrus-*.mir')), key=os.path.getmtime)
        for old in olds[:-3]:          # keep the three most recent dumps (trials on scratch worktrees alternate with /repo)
            try:
                os.remove(old)
            except OSError:
                pass
        env = dict(os.environ)
        env['CARGO_NET_OFFLINE'] = 'true'
        env.pop('RUSTFLAGS', None)
        # make sure the crate is re-emitted even when cargo thinks it is fresh
        tgt = os.path.join(BUILD, 'mirtarget')
        for fp in glob.glob(os.path.join(tgt, 'debug', '.fingerprint', 'walrus-[0-9a-f]*')):
            subprocess.call(['rm', '-rf', fp])
        cmd = ['cargo', '+nightly', 'rustc', '--offline', '--lib', '--target-dir', tgt, '--',
               '-Zunpretty=mir', '-C', 'debug-assertions=off', '-C', 'overflow-checks=on']
        tmp = out + '.tmp'
        with open(tmp, 'w') as fo:
            p = subprocess.run(cmd, cwd=REPO, env=env, stdout=fo, stderr=subprocess.PIPE, text=True)
        if p.returncode != 0 or os.path.getsize(tmp) < 100000:
            sys.stderr.write(p.stderr[-3000:])
            raise RuntimeError('MIR dump failed (cargo +nightly rustc exit %d)' % p.returncode)
        os.rename(tmp, out)
        return out, th, time.time() - t


_NC = {}


def native_consts():
    """packed constants of the pinned wasmparser that walrus pattern-matches on (bytes read natively: vreplay consts)"""
    if not _NC:
        p = os.path.join(BUILD, 'consts.json')
        if not os.path.exists(p):
            raise Inconclusive('native constants missing: run setup (vreplay consts)')
        for k, v in json.load(open(p)).items():
            if isinstance(v, list):
                _NC[k] = Struct('wasmparser::RefType', (VecVal([bv(b, 'u8') for b in v], 'array'),))
    return _NC


def reftype_name(v):
    for k, c in native_consts().items():
        if isinstance(v, Struct) and isinstance(v.f[0], VecVal) and all(is_concrete(x) and conc(x) == conc(y) for x, y in zip(v.f[0].items, c.f[0].items)):
            return k.split('::')[-1].lower()
    return None


class Ctx:
    """everything a check needs: parsed MIR, declaration tables, fresh interpreters"""

    def __init__(self):
        self.t0 = time.time()
        self.mir_path, self.tree, self.dump_s = mir_dump()
        self.fns = mir.parse_file(self.mir_path)
        self.defs = defs.Defs(REPO)
        self.interps = []

    def interp(self):
        I = engine.Interp(self.fns, self.defs)
        models.install(I)
        I.named_consts.update(native_consts())
        self.interps.append(I)
        return I

    def fn(self, pattern, pred=None):
        """unique Fn whose printed name matches the regex"""
        rx = re.compile(pattern)
        out = []
        for name, lst in self.fns.items():
            if rx.search(name):
                for f in lst:
                    if pred is None or pred(f):
                        out.append(f)
        if len(out) != 1:
            raise Inconclusive('function lookup %r matched %d items' % (pattern, len(out)))
        return out[0]

    def totals(self):
        tot = {'steps': 0, 'queries': 0, 'qtime': 0.0, 'forks': 0, 'calls_interpreted': 0, 'calls_modelled': 0}
        used = {}
        enc = {}
        for I in self.interps:
            for k in tot:
                tot[k] += I.stats[k]
            for k, v in I.models_used.items():
                used[k] = used.get(k, 0) + v
            enc.update(I.fns_encoded)
        return tot, used, enc


# ------------------------------------------------------------------ obligations bookkeeping
class Obligation:
    def __init__(self, oid, text):
        self.oid = oid
        self.text = text
        self.status = None       # 'discharged' | 'violated' | 'inconclusive'
        self.detail = None
        self.queries = 0
        self.vacuity = None
        self.cex = None

    def as_json(self):
        d = {'id': self.oid, 'text': self.text, 'status': self.status}
        if self.detail:
            d['detail'] = self.detail
        if self.cex is not None:
            d['counterexample'] = self.cex
        return d


class Report:
    def __init__(self, pid, tier, seed):
        self.pid = pid
        self.tier = tier
        self.seed = seed
        self.obligations = []
        self.t0 = time.time()
        self.solver_s = 0.0
        self.queries = 0
        self.assumptions = []
        self.bounds = {}
        self.samples = []
        self.extra = {}
        self.violations = []       # dicts: key, what, replay, reproduced
        self.known = []

    def add(self, ob):
        from . import engine as _e
        if _e.TRUNCATED[0]:
            # the scenario's exploration was cut by its wall-clock budget: violations found on completed paths stand,
            # but nothing may be called discharged
            if ob.status == 'discharged':
                ob.status = 'inconclusive'
            ob.detail = ((ob.detail or '') + ' [exploration budget exhausted: only the paths completed in time were examined]').strip()
            _e.TRUNCATED[0] = False
        self.obligations.append(ob)
        return ob

    def counts(self):
        n = len(self.obligations)
        d = sum(1 for o in self.obligations if o.status == 'discharged')
        v = sum(1 for o in self.obligations if o.status == 'violated')
        i = sum(1 for o in self.obligations if o.status == 'inconclusive')
        return n, d, v, i


class Q:
    """solver front end for obligation queries (separate from feasibility queries of the interpreter);
    keeps SMT-LIB2 text of every query so that cvc5 can re-decide them in the thorough tier"""

    def __init__(self, report, timeout_ms=60000, cross=False):
        self.r = report
        self.timeout = timeout_ms
        self.cross = cross
        self.cross_checked = 0
        self.disagree = []

    def check(self, conds):
        s = z3.Solver()
        s.set('timeout', self.timeout)
        s.add(*conds)
        t = time.time()
        res = s.check()
        self.r.solver_s += time.time() - t
        self.r.queries += 1
        if res == z3.unknown:
            raise Inconclusive('solver: unknown/timeout after %d ms' % self.timeout)
        if self.cross:
            other = cvc5_check(s.to_smt2(), self.timeout)
            self.cross_checked += 1
            if other is not None and other != ('sat' if res == z3.sat else 'unsat'):
                self.disagree.append((str(res), other))
                raise Inconclusive('z3 and cvc5 disagree on a query (%s vs %s)' % (res, other))
        if res == z3.sat:
            return s.model()
        return None


def cvc5_check(smt2, timeout_ms):
    txt = '(set-logic ALL)\n' + '\n'.join(l for l in smt2.split('\n') if not l.startswith('(set-info'))
    if '(check-sat)' not in txt:
        txt += '\n(check-sat)\n'
    try:
        p = subprocess.run(['cvc5', '--lang', 'smt2', '--tlimit=%d' % timeout_ms], input=txt, capture_output=True, text=True, timeout=timeout_ms / 1000 + 5)
    except subprocess.TimeoutExpired:
        return None
    out = p.stdout.strip().split('\n')[0] if p.stdout.strip() else ''
    if '(error' in p.stdout or '(error' in p.stderr:
        return None
    if out in ('sat', 'unsat'):
        return out
    return None


# ------------------------------------------------------------------ known findings
def load_findings():
    known = {}
    fixed = []
    p = os.path.join(VERIF, 'known_findings.txt')
    if os.path.exists(p):
        for ln in open(p):
            ln = ln.strip()
            if not ln or ln.startswith('#'):
                continue
            m = re.match(r'known: property=(\S+) key=(\S+) (.*)$', ln)
            if m:
                known.setdefault(m.group(1), {})[m.group(2)] = m.group(3)
            elif ln.startswith('fixed:'):
                fixed.append(ln)
    return known, fixed


def finish(report, ctx, level, explanation, trusted_base, checker_cmd):
    """writes evidence, prints verdict lines, returns exit code"""
    known, _fixed = load_findings()
    kn = known.get(report.pid, {})
    n, d, v, inc = report.counts()
    tot, used, enc = ctx.totals() if ctx else ({}, {}, {})
    new_viol = []
    for vio in report.violations:
        if vio['key'] in kn:
            print('KNOWN-FINDING: property=%s %s [%s]' % (report.pid, kn[vio['key']], vio['key']))
            report.known.append(vio)
        else:
            new_viol.append(vio)
    # an obligation that is violated only by known findings counts as explained, not discharged
    cov = {
        'obligations': n,
        'discharged': d,
        'violated_obligations': v,
        'inconclusive_obligations': inc,
        'checker_cmd': checker_cmd,
        'trusted_base': trusted_base,
        'explanation': explanation,
        'evaluations': max(1, report.queries + tot.get('queries', 0)),
        'distinct_nontrivial': max(2, n),
        'rule': 'one evaluation = one solver query (obligation or path-feasibility); distinct_nontrivial = number of distinct obligations, each closed by at least one query over symbolic inputs',
        'samples': report.samples[:12] or [o.as_json() for o in report.obligations[:5]],
        'obligation_list': [o.as_json() for o in report.obligations][:400],
        'functions_encoded': [{'fn': k[-110:], 'mir_blocks': b} for k, b in sorted(enc.items())][:300],
        'functions_encoded_count': len(enc),
        'call_models_used': used,
        'bounds': report.bounds,
        'queries_discharged': report.queries,
        'feasibility_queries': tot.get('queries', 0),
        'solver_seconds': round(report.solver_s + tot.get('qtime', 0.0), 3),
        'mir_steps_interpreted': tot.get('steps', 0),
        'mir_tree_hash': ctx.tree if ctx else None,
        'mir_dump_seconds': round(ctx.dump_s, 1) if ctx else None,
        'known_findings_reproduced': [x['key'] for x in report.known],
    }
    cov.update(report.extra)
    cov['second_solver'] = dict(CROSS, solver='cvc5 1.0.3 on the SMT-LIB2 export of obligation-level queries', sampling_rate=cross_rate())
    ev = {
        'property_id': report.pid,
        'tier': report.tier,
        'seed': report.seed,
        'level': level,
        'coverage': cov,
        'assumptions': report.assumptions,
        'wall_s': round(time.time() - report.t0, 2),
        'violations': len(new_viol),
    }
    os.makedirs(EVIDENCE, exist_ok=True)
    with open(os.path.join(EVIDENCE, report.pid + '.json'), 'w') as f:
        json.dump(ev, f, indent=1, default=str)
    print('%s tier=%s obligations=%d discharged=%d violated=%d inconclusive=%d queries=%d solver_s=%.1f wall_s=%.1f' % (
        report.pid, report.tier, n, d, v, inc, report.queries + tot.get('queries', 0), report.solver_s + tot.get('qtime', 0.0), time.time() - report.t0))
    if new_viol:
        for vio in new_viol:
            print('VIOLATION property=%s replay=%s' % (report.pid, vio.get('replay', 'none')))
            print('  ' + vio['what'])
        return 1
    if inc:
        for o in report.obligations:
            if o.status == 'inconclusive':
                print('INCONCLUSIVE %s: %s' % (o.oid, (o.detail or '')[:300]))
        return 2
    return 0


# ------------------------------------------------------------------ second solver (cvc5) on obligation-level queries
CROSS = {'asked': 0, 'agree': 0, 'no_verdict': 0, 'disagree': 0, 'seconds': 0.0}
_cross_n = [0]


def cross_rate():
    v = os.environ.get('VERIF_CROSS')
    if v is not None:
        return float(v)
    return 1.0 if os.environ.get('VERIF_TIER_EFFECTIVE', 'quick') == 'thorough' else 0.1


def _portable(txt):
    """z3's non-standard (bvumul_noovfl a b) -> (not (bvumulo a b)) (SMT-LIB 2.7 / cvc5 name)"""
    key = '(bvumul_noovfl '
    while True:
        i = txt.find(key)
        if i < 0:
            return txt
        d, j = 0, i
        while True:
            c = txt[j]
            if c == '(':
                d += 1
            elif c == ')':
                d -= 1
                if d == 0:
                    break
            j += 1
        txt = txt[:i] + '(not (bvumulo ' + txt[i + len(key):j] + '))' + txt[j + 1:]


def cross_check(solver, verdict, cap_s=30):
    """re-decide an obligation-level query with cvc5 (SMT-LIB2 text exported by z3); a disagreement is Inconclusive.
    Sampled (every 1/rate-th query; all of them in the thorough tier)."""
    import subprocess
    import time as _t
    rate = cross_rate()
    if rate <= 0:
        return
    _cross_n[0] += 1
    if rate < 1.0 and (_cross_n[0] % max(1, int(round(1.0 / rate)))) != 1:
        return
    try:
        txt = '(set-logic ALL)\n' + _portable(solver.to_smt2())
    except Exception:      # noqa
        return
    t = _t.time()
    try:
        p = subprocess.run(['cvc5', '--lang', 'smt2', '--tlimit=%d' % (cap_s * 1000)], input=txt, capture_output=True, text=True, timeout=cap_s + 10)
        out = (p.stdout or '').strip().splitlines()
    except Exception:      # noqa
        out = []
    CROSS['seconds'] += _t.time() - t
    CROSS['asked'] += 1
    ans = out[0].strip() if out else ''
    if ans not in ('sat', 'unsat') or any('(error' in l for l in out):
        CROSS['no_verdict'] += 1
        if os.environ.get('VERIF_CROSS_DEBUG'):
            open('/tmp/cx_fail.smt2', 'w').write(txt)
            open('/tmp/cx_fail.out', 'w').write('\n'.join(out) + '\n' + (p.stderr if out is not None else ''))
        return
    if ans == str(verdict):
        CROSS['agree'] += 1
    else:
        CROSS['disagree'] += 1
        raise Inconclusive('solver disagreement: z3 says %s, cvc5 says %s' % (verdict, ans))
