"""E3 glue: turn solver counterexamples into native runs of the real walrus build (vreplay) and keep only what reproduces."""
import json
import os
import re
import subprocess
import time

from . import common

RTARGET = os.path.join(common.BUILD, 'replay-target')
_built = {}


def vreplay_bin(profile='debug'):
    """(re)build /verif/replay against /repo's current working tree (hooks off: ordinary cargo build)"""
    if profile in _built:
        return _built[profile]
    env = dict(os.environ)
    env['CARGO_NET_OFFLINE'] = 'true'
    env.pop('RUSTFLAGS', None)
    manifest = os.path.join(common.VERIF, 'replay', 'Cargo.toml')
    target = RTARGET
    if os.path.realpath(common.REPO) != '/repo':
        # checking a tree other than /repo (VERIF_REPO=<worktree>): a copy of the replayer crate whose walrus
        # dependency points at that tree, with a target directory of its own
        import hashlib
        import shutil
        tag = hashlib.sha1(os.path.realpath(common.REPO).encode()).hexdigest()[:10]
        alt = os.path.join(common.BUILD, 'replay-alt-' + tag)
        if os.path.isdir(alt):
            shutil.rmtree(alt)
        shutil.copytree(os.path.join(common.VERIF, 'replay'), alt, ignore=shutil.ignore_patterns('target'))
        mt = open(os.path.join(alt, 'Cargo.toml')).read().replace('path = "/repo"', 'path = "%s"' % os.path.realpath(common.REPO))
        open(os.path.join(alt, 'Cargo.toml'), 'w').write(mt)
        manifest = os.path.join(alt, 'Cargo.toml')
        target = os.path.join(common.BUILD, 'replay-target-alt-' + tag)
    cmd = ['cargo', 'build', '--offline', '--manifest-path', manifest, '--target-dir', target]
    if profile == 'release':
        cmd.append('--release')
    p = subprocess.run(cmd, env=env, capture_output=True, text=True)
    if p.returncode != 0:
        raise common.Inconclusive('vreplay build failed: ' + p.stderr[-1500:])
    b = os.path.join(target, profile, 'vreplay')
    _built[profile] = b
    return b


def run_vreplay(args, profile='debug', timeout=120):
    b = vreplay_bin(profile)
    p = subprocess.run([b] + args, capture_output=True, text=True, timeout=timeout)
    out = p.stdout.strip()
    try:
        return json.loads(out[out.index('{'):])
    except (ValueError, json.JSONDecodeError):
        return {'status': 'bad-output', 'stdout': out[-500:], 'stderr': p.stderr[-500:], 'rc': p.returncode}


_TAG = ['']


def save_witness(pid, key, obj):
    d = os.path.join(common.EVIDENCE, 'replays', pid)
    os.makedirs(d, exist_ok=True)
    name = re.sub(r'[^A-Za-z0-9_.=+-]', '_', key)[:100] + (('.' + _TAG[0]) if _TAG[0] else '') + '.json'
    path = os.path.join(d, name)
    with open(path, 'w') as f:
        json.dump(obj, f, indent=1, default=str)
    return path


def confirm_op(vio, pid):
    """replay an operator-level witness through the real parse->emit; reproduced iff the target operator differs"""
    wit = dict(vio['witness'])
    path = save_witness(pid, vio['key'], {'route': 'op-roundtrip', 'witness': wit, 'what': vio['what']})
    wfile = path + '.in'
    with open(wfile, 'w') as f:
        json.dump(wit, f)
    results = {}
    for profile in ('debug', 'release'):
        r = run_vreplay(['op-roundtrip', wfile], profile)
        results[profile] = r
    os.remove(wfile)
    rep = []
    for profile, r in results.items():
        if r.get('status') == 'panic':
            rep.append(True)
        elif r.get('status') == 'ok':
            rep.append(not r.get('same', True))
        else:
            rep.append(None)
    with open(path, 'w') as f:
        json.dump({'route': 'op-roundtrip', 'witness': wit, 'what': vio['what'], 'native': results}, f, indent=1, default=str)
    vio['replay'] = path
    if all(x is True for x in rep):
        vio['reproduced'] = True
    elif any(x is None for x in rep):
        vio['reproduced'] = None
        vio['replay_note'] = 'no native context could be built: ' + json.dumps({k: v.get('status') for k, v in results.items()})
    else:
        vio['reproduced'] = False


def confirm(report, tag=''):
    """replays every violation that carries a witness; drops non-reproducing ones into an inconclusive obligation"""
    _TAG[0] = tag
    keep = []
    seen = {}
    uniq = []
    for vio in report.violations:
        if vio['key'] in seen:
            seen[vio['key']]['count'] = seen[vio['key']].get('count', 1) + 1
            continue
        seen[vio['key']] = vio
        uniq.append(vio)
    for vio in uniq:
        if 'reproduced' in vio and vio.get('replay'):
            keep.append(vio)          # already confirmed (in the worker that found it)
            continue
        route = None
        if 'witness' in vio and vio['witness'] and 'instruction' in vio['witness']:
            route = confirm_op
        elif vio['key'] == 'flag.dwarf.skipped':
            from . import natives
            route = natives.confirm_dwarf_skipped
        elif vio['key'].startswith('dwarf.'):
            from . import natives
            route = natives.confirm_dwarf
        elif vio.get('spec') is not None or vio.get('spec_json') is not None:
            from . import natives
            route = natives.confirm_structure
        if route is None:
            # no native route for this obligation kind: keep the solver counterexample itself as the replay artefact
            vio['replay'] = save_witness(report.pid, vio['key'], {'route': 'solver-model-only', 'what': vio['what'], 'detail': vio.get('detail')})
            vio['reproduced'] = None
            keep.append(vio)
            continue
        try:
            route(vio, report.pid)
        except common.Inconclusive as ex:
            vio['reproduced'] = None
            vio['replay_note'] = str(ex)[:300]
            vio.setdefault('replay', save_witness(report.pid, vio['key'], {'route': 'failed', 'what': vio['what'], 'note': str(ex)[:300]}))
        if vio.get('reproduced') is False:
            ob = common.Obligation('replay:' + vio['key'], 'native replay of the counterexample for ' + vio['key'])
            ob.status = 'inconclusive'
            ob.detail = 'solver counterexample did NOT reproduce on the real build (encoding or stub wrong): ' + vio['what'][:200]
            report.add(ob)
        else:
            keep.append(vio)
    report.violations = keep
    report.extra['replayed_natively'] = sum(1 for v in keep if v.get('reproduced') is True)
    report.extra['not_replayable'] = sum(1 for v in keep if v.get('reproduced') is None)


def replay_file(pid, path):
    d = json.load(open(path))
    print(json.dumps(d, indent=1)[:4000])
    if d.get('route') == 'op-roundtrip':
        wfile = path + '.in'
        json.dump(d['witness'], open(wfile, 'w'))
        r = run_vreplay(['op-roundtrip', wfile])
        os.remove(wfile)
        print(json.dumps(r, indent=1)[:4000])
        if r.get('status') == 'panic' or (r.get('status') == 'ok' and not r.get('same', True)):
            print('VIOLATION property=%s replay=%s' % (pid, path))
            return 1
        return 0
    if d.get('route') == 'dwarf':
        sp = os.path.join(common.BUILD, 'scripts')
        os.makedirs(sp, exist_ok=True)
        sf = os.path.join(sp, 'dwarf-replay-%d.json' % os.getpid())
        json.dump(d['script'], open(sf, 'w'))
        r = run_vreplay(['dwarf', sf])
        os.remove(sf)
        summ = (r.get('checks') or {}).get('summary') or {}
        print(json.dumps({'status': r.get('status'), 'error': r.get('error'), 'summary': summ, 'subprogram_mismatches': (r.get('checks') or {}).get('subprogram_mismatches'),
                          'row_mismatches': (r.get('checks') or {}).get('row_mismatches')}, indent=1)[:4000])
        if r.get('status') == 'panic' or summ.get('subprogram_mismatches', 0) or summ.get('row_mismatches', 0) or summ.get('rows_lost_non_nop', 0):
            print('VIOLATION property=%s replay=%s' % (pid, path))
            return 1
        return 0
    if d.get('route') == 'roundtrip-script':
        from . import natives
        return natives.replay_script(pid, d, path)
    return 0
