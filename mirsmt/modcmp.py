"""Reference comparison of a module description (Spec) with the module recorded by the wasm-encoder sinks:
structural equality up to a consistent renumbering that is recovered from the output itself (never from walrus's maps).
Independent of walrus: it only knows the WebAssembly module structure."""
import re

import z3

from .values import *
from . import common

VT_OUT = {'I32': 'i32', 'I64': 'i64', 'F32': 'f32', 'F64': 'f64', 'V128': 'v128'}


class Mismatch(Exception):
    pass


def tok(v):
    """string/bytes token identity"""
    if isinstance(v, Opaque):
        return v.name
    if isinstance(v, VecVal) and not v.items:
        return 'bytes:empty'
    return repr(v)


def out_valtype(v):
    if isinstance(v, Enum):
        if v.variant in VT_OUT:
            return VT_OUT[v.variant]
        if v.variant == 'Ref':
            return out_reftype(v.f[0])
    raise Mismatch('output value type %r' % (v,))


def out_reftype(v):
    if isinstance(v, Opaque):
        m = re.search(r'RefType::(\w+)', v.name)
        if m:
            return m.group(1).lower()
    if isinstance(v, Struct) and v.names and 'heap_type' in v.names:
        return out_heaptype(v.get('heap_type'))
    raise Mismatch('output ref type %r' % (v,))


def out_heaptype(v):
    if isinstance(v, Enum) and v.variant == 'Abstract':
        t = v.f[-1]
        return {'Func': 'funcref', 'Extern': 'externref'}.get(t.variant, t.variant)
    raise Mismatch('output heap type %r' % (v,))


def optv(v):
    if isinstance(v, Enum) and v.ty == 'Option':
        return None if v.variant == 'None' else v.f[0]
    raise Mismatch('expected Option, got %r' % (v,))


def idx(v):
    if isinstance(v, int):
        return v
    return conc(v)


def out_cexpr(v):
    """recorded wasm_encoder::ConstExpr -> (kind, arg)"""
    if isinstance(v, Struct) and v.ty == 'wasm_encoder::ConstExpr':
        kind = v.f[0].name.split(':')[-1]
        arg = v.f[1] if len(v.f) > 1 else None
        if kind == 'ref_null':
            return ('ref_null', out_heaptype(arg))
        if kind in ('global_get', 'ref_func'):
            return (kind, idx(arg))
        return (kind, arg)
    raise Mismatch('output const expr %r' % (v,))


def in_cexpr(op):
    """described initial operator (wasmparser::Operator term) -> (kind, arg)"""
    n = op.variant
    if n == 'I32Const':
        return ('i32_const', op.f[0])
    if n == 'I64Const':
        return ('i64_const', op.f[0])
    if n == 'F32Const':
        return ('f32_const', op.f[0].f[0])
    if n == 'F64Const':
        return ('f64_const', op.f[0].f[0])
    if n == 'V128Const':
        return ('v128_const', op.f[0].f[0])
    if n == 'GlobalGet':
        return ('global_get', idx(op.f[0]))
    if n == 'RefFunc':
        return ('ref_func', idx(op.f[0]))
    if n == 'RefNull':
        h = op.f[0]
        return ('ref_null', {'Func': 'funcref', 'Extern': 'externref'}[h.f[-1].variant])
    raise Mismatch('described const expr %r' % (op,))


def out_memtype(v):
    return {'initial': v.get('minimum'), 'maximum': optv(v.get('maximum')), 'memory64': v.get('memory64'), 'shared': v.get('shared'),
            'page_size_log2': optv(v.get('page_size_log2'))}


def out_tabletype(v):
    d = {'initial': v.get('minimum'), 'maximum': optv(v.get('maximum')), 'table64': v.get('table64'), 'element_type': out_reftype(v.get('element_type'))}
    if 'shared' in v.names:
        d['shared'] = v.get('shared')
    return d


def out_globaltype(v):
    return {'ty': out_valtype(v.get('val_type')), 'mutable': v.get('mutable'), 'shared': v.get('shared')}


def out_module(rec):
    """recorded enc:Module -> normalised dict"""
    N = {'types': [], 'imports': [], 'funcs': [], 'tables': [], 'memories': [], 'globals': [], 'exports': [], 'start': None, 'elements': [],
         'data_count': None, 'data': [], 'code': [], 'customs': [], 'names': None, 'producers': None, 'section_order': []}
    if not (isinstance(rec, Struct) and rec.ty == 'enc:Module'):
        raise Mismatch('emit_wasm did not return the recorded module: %r' % (rec,))
    for e in rec.f[0].items:
        if e[0] == 'new':
            continue
        if e[0] != 'section':
            raise Mismatch('unexpected call on wasm_encoder::Module: %s' % e[0])
        sec = e[1]
        kind = sec.ty[4:] if isinstance(sec, Struct) and sec.ty.startswith('enc:') else (sec.ty if isinstance(sec, Struct) else repr(sec))
        kind = kind.split('::')[-1]
        N['section_order'].append(kind)
        ents = [x for x in sec.f[0].items if x[0] != 'new'] if isinstance(sec, Struct) and sec.ty.startswith('enc:') else []
        if kind == 'TypeSection':
            for x in ents:
                if x[0] != 'function':
                    raise Mismatch('type section entry ' + x[0])
                N['types'].append((tuple(out_valtype(p) for p in x[1].items), tuple(out_valtype(r) for r in x[2].items)))
        elif kind == 'ImportSection':
            for x in ents:
                ent = x[3]
                d = {'module': tok(x[1]), 'name': tok(x[2])}
                if ent.variant == 'Function':
                    d.update(kind='func', type=idx(ent.f[0]))
                elif ent.variant == 'Table':
                    d.update(kind='table', **out_tabletype(ent.f[0]))
                elif ent.variant == 'Memory':
                    d.update(kind='memory', **out_memtype(ent.f[0]))
                elif ent.variant == 'Global':
                    d.update(kind='global', **out_globaltype(ent.f[0]))
                else:
                    raise Mismatch('import entity ' + ent.variant)
                N['imports'].append(d)
        elif kind == 'FunctionSection':
            for x in ents:
                N['funcs'].append({'type': idx(x[1])})
        elif kind == 'TableSection':
            for x in ents:
                N['tables'].append(out_tabletype(x[1]))
        elif kind == 'MemorySection':
            for x in ents:
                N['memories'].append(out_memtype(x[1]))
        elif kind == 'GlobalSection':
            for x in ents:
                d = out_globaltype(x[1])
                d['init'] = out_cexpr(x[2])
                N['globals'].append(d)
        elif kind == 'ExportSection':
            for x in ents:
                N['exports'].append({'name': tok(x[1]), 'kind': x[2].variant if isinstance(x[2], Enum) else re.sub(r'.*::', '', repr(x[2])).strip('<>'), 'index': idx(x[3])})
        elif kind == 'StartSection':
            N['start'] = idx(sec.get('function_index'))
        elif kind == 'ElementSection':
            for x in ents:
                els = x[-1]
                if els.variant == 'Functions':
                    items = ('funcs', [idx(i) for i in els.f[0].items])
                else:
                    items = ('exprs', out_reftype(els.f[0]), [out_cexpr(c) for c in els.f[1].items])
                if x[0] == 'active':
                    t = optv(x[1])
                    N['elements'].append({'mode': 'active', 'table': None if t is None else idx(t), 'offset': out_cexpr(x[2]), 'items': items})
                else:
                    N['elements'].append({'mode': x[0], 'items': items})
        elif kind == 'DataCountSection':
            N['data_count'] = idx(sec.get('count'))
        elif kind == 'DataSection':
            for x in ents:
                if x[0] == 'active':
                    N['data'].append({'mode': 'active', 'memory': idx(x[1]), 'offset': out_cexpr(x[2]), 'data': tok(x[3])})
                else:
                    N['data'].append({'mode': 'passive', 'data': tok(x[1])})
        elif kind == 'CodeSection':
            for x in ents:
                if x[0] != 'raw':
                    raise Mismatch('code section entry ' + x[0])
                sl = x[1]
                if not (isinstance(sl, Struct) and sl.ty in ('ByteBuf', 'ByteSlice')):
                    raise Mismatch('code section entry is not an encoded function: %r' % (sl,))
                what = sl.get('what')
                fn = what[1]
                ent0 = fn.f[0].items[0]
                locs = [(idx(t.f[0]), out_valtype(t.f[1])) for t in ent0[1].items] if len(ent0) > 1 else []
                N['code'].append({'locals': locs, 'instrs': [i[1] for i in fn.f[0].items if i[0] == 'instruction'], 'slice': sl, 'k': fn.f[1],
                                  'prefixed': what[0] == 'len-prefixed-function', 'start': sl.get('start') if sl.ty == 'ByteSlice' else None})
        elif kind == 'CustomSection':
            N['customs'].append((tok(sec.get('name')), tok(sec.get('data'))))
        elif kind == 'NameSection':
            N['names'] = out_names(ents)
        elif kind == 'ProducersSection':
            N['producers'] = [(tok(x[1]), [(tok(v[1]), tok(v[2])) for v in x[2].f[0].items if v[0] == 'value']) for x in ents if x[0] == 'field']
        else:
            N.setdefault('other_sections', []).append(kind)
    return N


def out_names(ents):
    names = {}
    for x in ents:
        sub = x[0]
        if sub == 'module':
            names['module'] = tok(x[1])
        elif sub == 'locals':
            m = {}
            for y in x[1].f[0].items:
                if y[0] == 'append':
                    m[idx(y[1])] = {idx(z[1]): tok(z[2]) for z in y[2].f[0].items if z[0] == 'append'}
            names['locals'] = m
        elif sub == 'data':
            pass
        else:
            names[sub] = {idx(y[1]): tok(y[2]) for y in x[1].f[0].items if y[0] == 'append'}
    for x in ents:
        if x[0] == 'data' and len(x) > 1 and isinstance(x[1], Struct) and x[1].ty == 'enc:NameMap':
            names['data'] = {idx(y[1]): tok(y[2]) for y in x[1].f[0].items if y[0] == 'append'}
    return names


# ------------------------------------------------------------------ description side
def in_module(spec):
    N = {'types': [(tuple(p), tuple(r)) for p, r in spec.types], 'imports': [], 'funcs': [{'type': f['type']} for f in spec.funcs], 'tables': [],
         'memories': [], 'globals': [], 'exports': [], 'start': None if spec.start is None else idx(spec.start), 'elements': [], 'data_count': None if spec.data_count is None else idx(spec.data_count),
         'data': [], 'code': [], 'customs': [(tok(c['name']), tok(c['data'])) for c in spec.customs]}
    for i in spec.imports:
        d = {'module': tok(i['module']), 'name': tok(i['name']), 'kind': i['kind']}
        if i['kind'] == 'func':
            d['type'] = i['type']
        elif i['kind'] == 'table':
            d.update({k: i[k] for k in ('element_type', 'table64', 'initial', 'maximum')})
        elif i['kind'] == 'memory':
            d.update({k: i[k] for k in ('memory64', 'shared', 'initial', 'maximum', 'page_size_log2')})
        else:
            d.update({k: i[k] for k in ('ty', 'mutable', 'shared')})
        N['imports'].append(d)
    for t in spec.tables:
        N['tables'].append({k: t[k] for k in ('element_type', 'table64', 'initial', 'maximum')})
    for m in spec.memories:
        N['memories'].append({k: m[k] for k in ('memory64', 'shared', 'initial', 'maximum', 'page_size_log2')})
    for g in spec.globals:
        N['globals'].append({'ty': g['ty'], 'mutable': g['mutable'], 'shared': g['shared'], 'init': in_cexpr(g['init'])})
    for e in spec.exports:
        N['exports'].append({'name': tok(e['name']), 'kind': e['kind'], 'index': idx(e['index'])})
    for e in spec.elements:
        if e['items'][0] == 'funcs':
            items = ('funcs', [idx(i) for i in e['items'][1]])
        else:
            items = ('exprs', e['items'][1], [in_cexpr(c) for c in e['items'][2]])
        if e['mode'] == 'active':
            N['elements'].append({'mode': 'active', 'table': None if e['table'] is None else idx(e['table']), 'offset': in_cexpr(e['offset']), 'items': items})
        else:
            N['elements'].append({'mode': e['mode'], 'items': items})
    for d in spec.data:
        if d['mode'] == 'active':
            N['data'].append({'mode': 'active', 'memory': idx(d['memory']), 'offset': in_cexpr(d['offset']), 'data': tok(d['data'])})
        else:
            N['data'].append({'mode': 'passive', 'data': tok(d['data'])})
    return N


# ------------------------------------------------------------------ comparison
class Cmp:
    """collects (description, negated-equality condition) pairs; concrete mismatches are recorded directly"""

    def __init__(self):
        self.todo = []       # (what, z3 condition whose satisfiability is a violation)
        self.bad = []        # (key, what) concrete structural mismatches
        self.checked = 0

    def term_eq(self, what, a, b, key):
        self.checked += 1
        if a is None or b is None:
            if a is not b:
                self.bad.append((key, '%s: %r vs %r' % (what, a, b)))
            return
        if isinstance(a, BV) and isinstance(b, BV):
            if a.t.size() != b.t.size():
                self.bad.append((key, '%s: width %d vs %d' % (what, a.t.size(), b.t.size())))
                return
            c = z3.simplify(a.t != b.t)
            if z3.is_false(c):
                return
            self.todo.append((key, what, c))
            return
        if isinstance(a, z3.BoolRef) or isinstance(b, z3.BoolRef):
            a = a if isinstance(a, z3.BoolRef) else z3.BoolVal(bool(a))
            b = b if isinstance(b, z3.BoolRef) else z3.BoolVal(bool(b))
            c = z3.simplify(a != b)
            if z3.is_false(c):
                return
            self.todo.append((key, what, c))
            return
        if isinstance(a, VecVal) and isinstance(b, (VecVal, BV)):
            from obligations.c03 import leaf_bytes
            xa, xb = leaf_bytes(a), leaf_bytes(b)
            c = z3.simplify(z3.Or(*[x != y for x, y in zip(xa, xb)])) if len(xa) == len(xb) else z3.BoolVal(True)
            if z3.is_false(c):
                return
            self.todo.append((key, what, c))
            return
        if isinstance(a, BV) and isinstance(b, VecVal):
            return self.term_eq(what, b, a, key)
        if isinstance(a, str) and isinstance(b, str):
            a, b = a.lower(), b.lower()
        if isinstance(a, BV) and isinstance(b, int) or isinstance(b, BV) and isinstance(a, int):
            raise Mismatch('mixed symbolic/concrete comparison of ' + what)
        if a != b:
            self.bad.append((key, '%s: %r vs %r' % (what, a, b)))

    def cexpr_eq(self, what, a, b, pi, key):
        if a[0] != b[0]:
            self.bad.append((key, '%s: %s vs %s' % (what, a[0], b[0])))
            return
        if a[0] == 'global_get':
            self.idx_eq(what, a[1], b[1], pi['global'], key)
        elif a[0] == 'ref_func':
            self.idx_eq(what, a[1], b[1], pi['func'], key)
        elif a[0] == 'ref_null':
            if a[1] != b[1]:
                self.bad.append((key, '%s: ref.null %s vs %s' % (what, a[1], b[1])))
        else:
            self.term_eq(what, a[1], b[1], key)

    def idx_eq(self, what, i_in, i_out, pim, key):
        self.checked += 1
        want = pim.get(i_in)
        if want is None:
            self.bad.append((key, '%s: input index %r has no counterpart in the output' % (what, i_in)))
        elif want != i_out:
            self.bad.append((key, '%s: index %r should be renumbered to %r but the output has %r' % (what, i_in, want, i_out)))


def leaves_names(v, out):
    for t in leaves(v, []):
        for s in _syms(t):
            out.add(s)
    return out


def _syms(t, acc=None, seen=None):
    acc = acc if acc is not None else set()
    seen = seen if seen is not None else set()
    if t.get_id() in seen:
        return acc
    seen.add(t.get_id())
    if z3.is_const(t) and t.decl().kind() == z3.Z3_OP_UNINTERPRETED:
        acc.add(t.decl().name())
    for c in t.children():
        _syms(c, acc, seen)
    return acc


def compare_structure(spec, IN, OUT, func_tags=None, func_matcher=None, keep=None):
    """returns (Cmp, pi) ; pi[kind][input index] = output index, recovered by matching contents.
    keep (optional): {kind: set of input indices expected to survive} - entities outside it must be absent."""
    C = Cmp()
    pi = {k: {} for k in ('type', 'func', 'table', 'memory', 'global', 'element', 'data')}

    def kept(kind, i):
        return keep is None or i in keep.get(kind, ())
    # ---- types: de-duplicated and re-ordered; every (kept) described signature must exist in the output
    for i, sig in enumerate(IN['types']):
        hits = [j for j, s in enumerate(OUT['types']) if s == sig]
        if not kept('type', i):
            continue
        pi['type'][i] = hits[0] if hits else None
        if len(hits) > 1:
            C.bad.append(('types.dup', 'signature %r appears %d times in the output type section' % (sig, len(hits))))
        if not hits:
            C.bad.append(('types.dropped', 'type %d %r is missing from the output' % (i, sig)))
    if keep is not None:
        want = set(IN['types'][i] for i in keep.get('type', ()))
        for j, s in enumerate(OUT['types']):
            if s not in want:
                C.bad.append(('types.extra', 'output type %d %r is not needed by anything that is kept' % (j, s)))
    # ---- imports: same order
    nin = {'func': 0, 'table': 0, 'memory': 0, 'global': 0}
    nout = {'func': 0, 'table': 0, 'memory': 0, 'global': 0}
    in_imps = []
    for a in IN['imports']:
        k = a['kind']
        if kept(k, nin[k]):
            in_imps.append((nin[k], a))
        nin[k] += 1
    if len(in_imps) != len(OUT['imports']):
        C.bad.append(('imports.count', 'imports: %d expected, %d emitted (%r)' % (len(in_imps), len(OUT['imports']), [(b['module'], b['name']) for b in OUT['imports']])))
    for k, ((orig, a), b) in enumerate(zip(in_imps, OUT['imports'])):
        key = 'import[%d]' % k
        for f in ('module', 'name', 'kind'):
            if a[f] != b[f]:
                C.bad.append(('import.' + f, '%s.%s: %r vs %r' % (key, f, a[f], b[f])))
        if a['kind'] == b['kind']:
            kind = a['kind']
            pi[kind][orig] = nout[kind]
            if kind == 'func':
                C.idx_eq(key + '.type', a['type'], b['type'], pi['type'], 'import.func.type')
            else:
                for f in a:
                    if f in ('module', 'name', 'kind'):
                        continue
                    C.term_eq('%s.%s' % (key, f), a[f], b.get(f), 'import.%s.%s' % (kind, f))
        nout[b['kind']] += 1
    nimp = dict(nin)
    nimp_out = dict(nout)
    # ---- local tables / memories / globals: same order
    loc = {}
    for kind, sec in (('table', 'tables'), ('memory', 'memories'), ('global', 'globals')):
        ents = [(nimp[kind] + k, a) for k, a in enumerate(IN[sec]) if kept(kind, nimp[kind] + k)]
        loc[kind] = ents
        if len(ents) != len(OUT[sec]):
            C.bad.append((sec + '.count', '%s: %d expected, %d emitted' % (sec, len(ents), len(OUT[sec]))))
        for k, (orig, a) in enumerate(ents[:len(OUT[sec])]):
            pi[kind][orig] = nimp_out[kind] + k
    # ---- local functions: re-ordered; recover the permutation from the tags carried by the bodies
    in_funcs = [(nimp['func'] + k, f) for k, f in enumerate(IN['funcs']) if kept('func', nimp['func'] + k)]
    nf_in, nf_out = len(in_funcs), len(OUT['funcs'])
    if nf_in != nf_out:
        C.bad.append(('funcs.count', 'functions: %d expected, %d emitted' % (nf_in, nf_out)))
    if len(OUT['code']) != nf_out:
        C.bad.append(('code.count', 'function section has %d entries, code section %d' % (nf_out, len(OUT['code']))))
    if func_tags is not None:
        for j, body in enumerate(OUT['code']):
            names = set()
            for ins in body['instrs']:
                leaves_names(ins, names)
            owners = [i for i, tg in enumerate(func_tags) if tg in names]
            if len(owners) != 1:
                C.bad.append(('code.provenance', 'emitted body %d carries the tags of functions %r' % (j, owners)))
            else:
                oi = nimp['func'] + owners[0]
                if oi in pi['func']:
                    C.bad.append(('code.dup', 'function %d emitted twice' % owners[0]))
                if not kept('func', oi):
                    C.bad.append(('funcs.extra', 'function %d (tag %s) should have been removed' % (owners[0], func_tags[owners[0]])))
                pi['func'][oi] = nimp_out['func'] + j
        for orig, f in in_funcs:
            if orig not in pi['func']:
                C.bad.append(('code.dropped', 'function %d (tag %s) is missing from the output' % (orig - nimp['func'], func_tags[orig - nimp['func']])))
    elif func_matcher is not None:
        pi['func'].update(func_matcher(IN, OUT, nimp['func'], nimp_out['func']))
        for orig, f in in_funcs:
            if orig not in pi['func']:
                C.bad.append(('code.dropped', 'function %d has no counterpart in the output' % (orig - nimp['func'])))
    else:
        for k, (orig, f) in enumerate(in_funcs[:nf_out]):
            pi['func'][orig] = nimp_out['func'] + k
    in_elems = [(k, e) for k, e in enumerate(IN['elements']) if kept('element', k)]
    in_data = [(k, d) for k, d in enumerate(IN['data']) if kept('data', k)]
    for k, (orig, e) in enumerate(in_elems[:len(OUT['elements'])]):
        pi['element'][orig] = k
    for k, (orig, d) in enumerate(in_data[:len(OUT['data'])]):
        pi['data'][orig] = k
    # ---- function signatures
    for orig, f in in_funcs:
        j = pi['func'].get(orig)
        if j is None:
            continue
        j -= nimp_out['func']
        if 0 <= j < len(OUT['funcs']):
            C.idx_eq('function[%d].type' % (orig - nimp['func']), f['type'], OUT['funcs'][j]['type'], pi['type'], 'func.type')
    # ---- attributes of local entities
    for kind, sec in (('table', 'tables'), ('memory', 'memories')):
        for (orig, a), b in zip(loc[kind], OUT[sec]):
            for f in a:
                C.term_eq('%s[%d].%s' % (sec, orig, f), a[f], b.get(f), '%s.%s' % (kind, f))
    for (orig, a), b in zip(loc['global'], OUT['globals']):
        for f in ('ty', 'mutable', 'shared'):
            C.term_eq('globals[%d].%s' % (orig, f), a[f], b.get(f), 'global.%s' % f)
        C.cexpr_eq('globals[%d].init' % orig, a['init'], b['init'], pi, 'global.init')
    # ---- exports
    if len(IN['exports']) != len(OUT['exports']):
        C.bad.append(('exports.count', 'exports: %d described, %d emitted' % (len(IN['exports']), len(OUT['exports']))))
    for k, (a, b) in enumerate(zip(IN['exports'], OUT['exports'])):
        if a['name'] != b['name']:
            C.bad.append(('export.name', 'exports[%d].name: %r vs %r' % (k, a['name'], b['name'])))
        if a['kind'].lower() != b['kind'].lower():
            C.bad.append(('export.kind', 'exports[%d].kind: %r vs %r' % (k, a['kind'], b['kind'])))
        else:
            kk = {'func': 'func', 'table': 'table', 'memory': 'memory', 'global': 'global'}[a['kind'].lower()]
            C.idx_eq('exports[%d].index' % k, a['index'], b['index'], pi[kk], 'export.index')
    # ---- start
    if (IN['start'] is None) != (OUT['start'] is None):
        C.bad.append(('start', 'start function: %r described, %r emitted' % (IN['start'], OUT['start'])))
    elif IN['start'] is not None:
        C.idx_eq('start', IN['start'], OUT['start'], pi['func'], 'start')
    # ---- element segments
    if len(in_elems) != len(OUT['elements']):
        C.bad.append(('elements.count', 'element segments: %d expected, %d emitted' % (len(in_elems), len(OUT['elements']))))
    for (orig, a), b in zip(in_elems, OUT['elements']):
        key = 'elements[%d]' % orig
        if a['mode'] != b['mode']:
            C.bad.append(('element.mode', '%s.mode: %s vs %s' % (key, a['mode'], b['mode'])))
            continue
        if a['mode'] == 'active':
            ti = 0 if a['table'] is None else a['table']
            to = 0 if b['table'] is None else b['table']
            C.idx_eq(key + '.table', ti, to, pi['table'], 'element.table')
            C.cexpr_eq(key + '.offset', a['offset'], b['offset'], pi, 'element.offset')
        ia, ib = a['items'], b['items']
        if ia[0] != ib[0]:
            C.bad.append(('element.items.kind', '%s.items: %s vs %s' % (key, ia[0], ib[0])))
            continue
        if ia[0] == 'funcs':
            if len(ia[1]) != len(ib[1]):
                C.bad.append(('element.items.count', '%s: %d items described, %d emitted' % (key, len(ia[1]), len(ib[1]))))
            for n, (x, y) in enumerate(zip(ia[1], ib[1])):
                C.idx_eq('%s.items[%d]' % (key, n), x, y, pi['func'], 'element.items')
        else:
            if ia[1] != ib[1]:
                C.bad.append(('element.items.ty', '%s element type: %s vs %s' % (key, ia[1], ib[1])))
            if len(ia[2]) != len(ib[2]):
                C.bad.append(('element.items.count', '%s: %d items described, %d emitted' % (key, len(ia[2]), len(ib[2]))))
            for n, (x, y) in enumerate(zip(ia[2], ib[2])):
                C.cexpr_eq('%s.items[%d]' % (key, n), x, y, pi, 'element.items')
    # ---- data segments
    if len(in_data) != len(OUT['data']):
        C.bad.append(('data.count', 'data segments: %d expected, %d emitted' % (len(in_data), len(OUT['data']))))
    for (orig, a), b in zip(in_data, OUT['data']):
        key = 'data[%d]' % orig
        if a['mode'] != b['mode']:
            C.bad.append(('data.mode', '%s.mode: %s vs %s' % (key, a['mode'], b['mode'])))
            continue
        if a['data'] != b['data']:
            C.bad.append(('data.bytes', '%s payload: %s vs %s' % (key, a['data'], b['data'])))
        if a['mode'] == 'active':
            C.idx_eq(key + '.memory', a['memory'], b['memory'], pi['memory'], 'data.memory')
            C.cexpr_eq(key + '.offset', a['offset'], b['offset'], pi, 'data.offset')
    return C, pi
