"""Whole-pipeline symbolic execution at MIR level on a structurally concrete module.

The input is a *module description* (Spec): concrete structure (how many entities of each kind, which operators in
which order), symbolic contents (every attribute, immediate and index that the property quantifies over).  It is
presented to the REAL `Module::parse` as the stream of `wasmparser::Payload`s that `Parser::parse_all` would yield; the
wasmparser readers and the validator are the only modelled parts (contracts: readers yield the described items,
validator calls succeed because the description is assumed valid).  The REAL `emit_wasm` then runs on the resulting
`Module` value; the wasm-encoder builders are modelled as sinks that record their arguments, so the result is an
"output module" of terms that is compared with the description."""
import re

import z3

from .values import *
from .models import fork_bool, values_eq, vec_at, drain, to_iter, elem_ref, iter_next
from .defs import strip_generics


def S(s):
    """concrete string token"""
    return Opaque('str:"%s"' % s)


def symstr(name):
    return Opaque('str:sym:' + name)


class Spec:
    """module description; every list element is a dict of terms (see builders below)"""

    def __init__(self):
        self.types = []        # (params [vt], results [vt])  vt in 'i32','i64','f32','f64','v128','funcref','externref'
        self.imports = []      # dict(module, name, kind, ...)
        self.funcs = []        # dict(type=int, locals=[(count:int, vt)], ops=[Enum Operator], positions=[...])
        self.tables = []
        self.memories = []
        self.globals = []
        self.exports = []
        self.start = None
        self.elements = []
        self.data = []
        self.data_count = None
        self.customs = []      # dict(name=Opaque, data=Opaque, place=str)
        self.names = None
        self.producers = None
        self.tail_payloads = []


WP_VT = {'i32': 'I32', 'i64': 'I64', 'f32': 'F32', 'f64': 'F64', 'v128': 'V128'}


def wp_valtype(vt):
    if vt in WP_VT:
        return Enum('wasmparser::ValType', WP_VT[vt])
    return Enum('wasmparser::ValType', 'Ref', (wp_reftype(vt),))


def wp_reftype(vt):
    from .common import native_consts
    return native_consts()['wasmparser::RefType::' + vt.upper()]


def section(items):
    return Struct('SectionLimited', (VecVal(items),), ('items',))


def rng(a, b):
    return Struct('Range', (a, b), ('start', 'end'))


def opt(v):
    return none() if v is None else some(v)


def const_expr(op):
    """wasmparser::ConstExpr holding one operator followed by End"""
    return Struct('wasmparser::ConstExpr', (VecVal([op, Enum('wasmparser::Operator', 'End')]),), ('ops',))


def validity(spec):
    """limits facts the validator enforces (the description stands for VALID modules only): initial <= maximum; 32-bit
    memories <= 2^16 pages, 64-bit <= 2^48; 32-bit tables < 2^32 entries; shared memories have a maximum; memarg
    alignment <= natural alignment"""
    pre = []

    def lim(m, is_mem):
        ini, mx = m['initial'].t, (m['maximum'].t if m.get('maximum') is not None else None)
        f64 = m['memory64'] if is_mem else m['table64']
        cap32 = z3.BitVecVal(1 << 16 if is_mem else (1 << 32) - 1, 64)
        cap64 = z3.BitVecVal(1 << 48, 64) if is_mem else z3.BitVecVal((1 << 64) - 1, 64)
        cap = z3.If(f64, cap64, cap32)
        pre.append(z3.ULE(ini, cap))
        if not is_mem:
            pre.append(z3.ULE(ini, z3.BitVecVal(10000000, 64)))      # wasmparser MAX_WASM_TABLE_ENTRIES
        if mx is not None:
            pre.append(z3.ULE(mx, cap))
            pre.append(z3.ULE(ini, mx))
        elif is_mem:
            pre.append(z3.Not(m['shared']))
    for m in list(spec.memories) + [i for i in spec.imports if i['kind'] == 'memory']:
        lim(m, True)
    for t in list(spec.tables) + [i for i in spec.imports if i['kind'] == 'table']:
        lim(t, False)
    for f in spec.funcs:
        for op in f['ops']:
            for x in getattr(op, 'f', ()):
                if isinstance(x, Struct) and x.ty.endswith('MemArg'):
                    a, ma = x.get('align'), x.get('max_align')
                    if isinstance(a, BV) and isinstance(ma, BV):
                        pre.append(z3.ULE(a.t, ma.t))
                    # offsets >= 2^32 are admitted only on 64-bit memories
                    mems = [i for i in spec.imports if i['kind'] == 'memory'] + list(spec.memories)
                    mi = x.get('memory')
                    off = x.get('offset')
                    if isinstance(off, BV) and isinstance(mi, BV) and z3.is_bv_value(z3.simplify(mi.t)):
                        k = z3.simplify(mi.t).as_long()
                        if k < len(mems):
                            pre.append(z3.Or(mems[k]['memory64'], z3.ULT(off.t, z3.BitVecVal(1 << 32, 64))))
    return [z3.simplify(c) for c in pre if not z3.is_true(z3.simplify(c))]


class Pipeline:
    """installs the reader/validator/sink models on an interpreter and drives parse / emit"""

    def __init__(self, ctx, I):
        self.ctx = ctx
        self.I = I
        self.mk = lambda _tyname, **kw: mk_struct(I, _tyname, **kw)
        self.install()

    # ------------------------------------------------------------------ payloads from a Spec
    def payloads(self, spec):
        I = self.I
        P = lambda v, *f, **kw: Enum('wasmparser::Payload', v, f, kw.pop('names', None))
        out = []
        r0 = rng(usize(0), usize(8))
        out.append(Enum('wasmparser::Payload', 'Version', (bv(1, 'u16'), Enum('wasmparser::Encoding', 'Module'), r0), ('num', 'encoding', 'range')))
        customs_at = lambda place: [c for c in spec.customs if c.get('place', 'end') == place]

        def emit_customs(place):
            for c in customs_at(place):
                out.append(P('CustomSection', self.custom_reader(c)))
        emit_customs('start')
        if spec.types:
            out.append(P('TypeSection', section([Struct('wasmparser::FuncType', (VecVal([wp_valtype(p) for p in ps]), VecVal([wp_valtype(r) for r in rs])), ('params', 'results')) for ps, rs in spec.types])))
        if spec.imports:
            out.append(P('ImportSection', section([self.import_item(i) for i in spec.imports])))
        if spec.funcs:
            out.append(P('FunctionSection', section([bv(f['type'], 'u32') if isinstance(f['type'], int) else f['type'] for f in spec.funcs])))
        if spec.tables:
            out.append(P('TableSection', section([self.mk('wasmparser::Table', ty=self.table_type(t), init=Enum('wasmparser::TableInit', 'RefNull')) for t in spec.tables])))
        if spec.memories:
            out.append(P('MemorySection', section([self.memory_type(m) for m in spec.memories])))
        if spec.globals:
            out.append(P('GlobalSection', section([self.mk('wasmparser::Global', ty=self.global_type(g), init_expr=const_expr(g['init'])) for g in spec.globals])))
        if spec.exports:
            out.append(P('ExportSection', section([self.mk('wasmparser::Export', name=e['name'], kind=Enum('wasmparser::ExternalKind', e['kind']), index=e['index']) for e in spec.exports])))
        if spec.start is not None:
            out.append(Enum('wasmparser::Payload', 'StartSection', (spec.start, r0), ('func', 'range')))
        if spec.elements:
            out.append(P('ElementSection', section([self.element_item(e) for e in spec.elements])))
        if spec.data_count is not None:
            out.append(Enum('wasmparser::Payload', 'DataCountSection', (spec.data_count, r0), ('count', 'range')))
        emit_customs('before-code')
        if spec.funcs:
            cs = spec.code_start if hasattr(spec, 'code_start') else usize(100)
            out.append(Enum('wasmparser::Payload', 'CodeSectionStart', (bv(len(spec.funcs), 'u32'), rng(cs, BV(cs.t + 1000, 'usize')), bv(1000, 'u32')), ('count', 'range', 'size')))
            for k, f in enumerate(spec.funcs):
                out.append(P('CodeSectionEntry', self.function_body(f, k)))
        if spec.data:
            out.append(P('DataSection', section([self.data_item(d) for d in spec.data])))
        if spec.names is not None:
            out.append(P('CustomSection', self.custom_reader({'name': S('name'), 'data': Opaque('name-section-bytes'), 'names': spec.names})))
        if spec.producers is not None:
            out.append(P('CustomSection', self.custom_reader({'name': S('producers'), 'data': Opaque('bytes:producers-section#%d' % (abs(hash(repr(spec.producers))) % 100000)), 'producers': spec.producers})))
        emit_customs('end')
        out.extend(spec.tail_payloads)
        out.append(P('End', usize(5000)))
        return out

    def custom_reader(self, c):
        return Struct('CustomSectionReader', (c['name'], c['data'], c.get('names'), c.get('producers')), ('name', 'data', 'names', 'producers'))

    def memory_type(self, m):
        return self.mk('wasmparser::MemoryType', memory64=m['memory64'], shared=m['shared'], initial=m['initial'], maximum=opt(m['maximum']),
                       page_size_log2=opt(m['page_size_log2']))

    def table_type(self, t):
        kw = dict(element_type=wp_reftype(t['element_type']), table64=t['table64'], initial=t['initial'], maximum=opt(t['maximum']))
        sd = self.I.defs.struct_of('wasmparser::TableType')
        if 'shared' in sd.names():
            kw['shared'] = t.get('shared', z3.BoolVal(False))
        return self.mk('wasmparser::TableType', **kw)

    def global_type(self, g):
        return self.mk('wasmparser::GlobalType', content_type=wp_valtype(g['ty']), mutable=g['mutable'], shared=g['shared'])

    def import_item(self, i):
        k = i['kind']
        if k == 'func':
            ty = Enum('wasmparser::TypeRef', 'Func', (i['type'] if not isinstance(i['type'], int) else bv(i['type'], 'u32'),))
        elif k == 'table':
            ty = Enum('wasmparser::TypeRef', 'Table', (self.table_type(i),))
        elif k == 'memory':
            ty = Enum('wasmparser::TypeRef', 'Memory', (self.memory_type(i),))
        else:
            ty = Enum('wasmparser::TypeRef', 'Global', (self.global_type(i),))
        return self.mk('wasmparser::Import', module=i['module'], name=i['name'], ty=ty)

    def element_item(self, e):
        if e['mode'] == 'active':
            kind = Enum('wasmparser::ElementKind', 'Active', (opt(e['table']), const_expr(e['offset'])), ('table_index', 'offset_expr'))
        elif e['mode'] == 'passive':
            kind = Enum('wasmparser::ElementKind', 'Passive')
        else:
            kind = Enum('wasmparser::ElementKind', 'Declared')
        if e['items'][0] == 'funcs':
            items = Enum('wasmparser::ElementItems', 'Functions', (section(list(e['items'][1])),))
        else:
            items = Enum('wasmparser::ElementItems', 'Expressions', (wp_reftype(e['items'][1]), section([const_expr(x) for x in e['items'][2]])))
        return self.mk('wasmparser::Element', kind=kind, items=items, range=rng(usize(0), usize(0)))

    def data_item(self, d):
        if d['mode'] == 'active':
            kind = Enum('wasmparser::DataKind', 'Active', (d['memory'], const_expr(d['offset'])), ('memory_index', 'offset_expr'))
        else:
            kind = Enum('wasmparser::DataKind', 'Passive')
        return self.mk('wasmparser::Data', kind=kind, data=d['data'], range=rng(usize(0), usize(0)))

    def function_body(self, f, k):
        toks = [('u32', bv(len(f.get('locals', [])), 'u32'), None)]
        base = f.get('start', usize(200 + 100 * k))
        pos = 1
        for cnt, vt in f.get('locals', []):
            toks.append(('u32', cnt if not isinstance(cnt, int) else bv(cnt, 'u32'), BV(base.t + pos, 'usize')))
            toks.append(('valtype', wp_valtype(vt), BV(base.t + pos + 1, 'usize')))
            pos += 2
        positions = f.get('positions')
        for j, op in enumerate(f['ops']):
            p = positions[j] if positions else BV(base.t + pos + j, 'usize')
            toks.append(('op', op, p))
        end = f.get('end', BV(base.t + pos + len(f['ops']), 'usize'))
        return Struct('FunctionBody', (tuple(toks), base, end, bv(k, 'u32')), ('toks', 'start', 'end', 'k'))

    # ------------------------------------------------------------------ models
    def install(self):
        I = self.I
        add = I.add_model
        pl = self
        I.bounds.update({'flen': (1, (1 << 32) - 1), 'leb128_len': (1, 10), 'bytes_before_code_section': (8, (1 << 32) - 1)})
        for n_ in range(0, 40):
            I.bounds['bytes_after_code_section_%d' % n_] = (8, (1 << 32) - 1)
            I.bounds['module_bytes_%d_sections' % n_] = (8, (1 << 32) - 1)
        I.axioms_hook = leb_range_axioms
        I.len_hook = lambda I_, st, v: BV(module_len(I_, st, v), 'usize') if isinstance(v, Struct) and v.ty == 'enc:Module' else None

        # ---- parser / validator
        def m_parser_new(I, st, c, args, cont, depth, site):
            cont(st, Opaque('Parser'))
        add(r'^wasmparser::Parser::(new|set_features)$', m_parser_new, 'wasmparser::Parser::new/set_features (opaque)')

        def m_parse_all(I, st, c, args, cont, depth, site):
            cont(st, IterVal('owned', None, 0, items=tuple(ok(p) for p in st.meta['payloads'])))
        add(r'^wasmparser::Parser::parse_all$', m_parse_all, 'Parser::parse_all = the described payload stream [the description is a well-formed binary]')

        def m_validator(I, st, c, args, cont, depth, site):
            name = c.rsplit('::', 1)[1]
            I.event(st, 'validator', name)
            n = st.meta.get('validator_calls', 0)
            st.meta['validator_calls'] = n + 1
            if name != 'new_with_features' and st.meta.get('validator_fail_at') == n:
                I.event(st, 'validator-rejects', name)
                return cont(st, err(Opaque('BinaryReaderError')))
            if name == 'new_with_features':
                st.meta['validator_features'] = args[0]
                return cont(st, Opaque('Validator'))
            if name == 'code_section_entry':
                return cont(st, ok(Opaque('FuncToValidate')))
            cont(st, ok(unit()))
        add(r'^(wasmparser::)?Validator::\w+$', m_validator, 'Validator::* = Ok (the described module is valid; each call is recorded as an event)')
        add(r'^(wasmparser::)?FuncToValidate::<.*>::into_validator$|^<FuncValidatorAllocations as Default>::default$',
            lambda I, st, c, args, cont, depth, site: cont(st, Opaque('FuncValidator')), 'FuncToValidate::into_validator (opaque)')

        def m_fval(I, st, c, args, cont, depth, site):
            name = c.rsplit('::', 1)[1]
            if name == 'op':
                I.event(st, 'validator', 'op', I.deref(st, args[2]))
            else:
                I.event(st, 'validator', name)
            cont(st, ok(unit()))
        add(r'^(wasmparser::)?FuncValidator::<.*>::(op|finish|define_locals)$', m_fval, 'FuncValidator::op/finish/define_locals = Ok (recorded)')

        # ---- feature flags (bitflags): a 32-bit word, insert = or
        def m_feat(I, st, c, args, cont, depth, site):
            name = c.rsplit('::', 1)[1]
            if name == 'empty':
                return cont(st, Struct('WasmFeatures', (bv(0, 'u32'),)))
            if name == 'insert':
                cur = I.read_ref(st, args[0])
                add_ = args[1]
                I.write_ref(st, args[0], Struct('WasmFeatures', (tuple(sorted(set(_featset(cur)) | set(_featset(add_)))),)))
                return cont(st, unit())
            raise Inconclusive('WasmFeatures::' + name)
        add(r'WasmFeatures>::(empty|insert)$', m_feat, 'WasmFeatures::empty/insert (set of named flags)')

        # ---- section readers
        def m_sec_iter(I, st, c, args, cont, depth, site):
            v = args[0]
            if isinstance(v, Ref):
                v = I.read_ref(st, v)
            if v.names and 'raw_results' in v.names:
                return cont(st, IterVal('owned', None, 0, items=tuple(v.get('items').items)))
            cont(st, IterVal('owned', None, 0, items=tuple(ok(x) for x in v.get('items').items)))
        add(r'^<(wasmparser::)?SectionLimited<.*> as IntoIterator>::into_iter$|into_iter_err_on_gc_types$', m_sec_iter, 'SectionLimited iteration = the described items, each Ok')

        def m_sec_count(I, st, c, args, cont, depth, site):
            v = I.deref(st, args[0])
            cont(st, bv(len(v.get('items').items), 'u32'))
        add(r'^(wasmparser::)?SectionLimited::<.*>::count$', m_sec_count, 'SectionLimited::count')

        def m_functype(I, st, c, args, cont, depth, site):
            r = args[0]
            i = 0 if c.endswith('params') else 1
            cont(st, Ref(r.key, r.path + (('field', i),)))
        add(r'^wasmparser::FuncType::(params|results)$', m_functype, 'FuncType::params/results')

        def m_ce_reader(I, st, c, args, cont, depth, site):
            v = I.deref(st, args[0])
            cont(st, Struct('OperatorsReader', (v.get('ops').items, 0), ('ops', 'pos')))
        add(r'^wasmparser::ConstExpr::<.*>::get_operators_reader$', m_ce_reader, 'ConstExpr::get_operators_reader')

        def m_ops_read(I, st, c, args, cont, depth, site):
            r = I.read_ref(st, args[0])
            ops, pos = r.f
            name = c.rsplit('::', 1)[1]
            if name == 'ensure_end':
                return cont(st, ok(unit()) if pos >= len(ops) else err(Opaque('BinaryReaderError')))
            if pos >= len(ops):
                return cont(st, err(Opaque('BinaryReaderError')))
            I.write_ref(st, args[0], Struct('OperatorsReader', (ops, pos + 1), ('ops', 'pos')))
            cont(st, ok(ops[pos]))
        add(r'^(wasmparser::)?OperatorsReader::<.*>::(read|ensure_end)$', m_ops_read, 'OperatorsReader::read/ensure_end')

        # ---- br_table immediates
        def m_brtable(I, st, c, args, cont, depth, site):
            v = I.deref(st, args[0])
            name = c.rsplit('::', 1)[1]
            if name == 'len':
                return cont(st, bv(len(v.f[0]), 'u32'))
            if name == 'default':
                return cont(st, v.f[1])
            if name == 'targets':
                return cont(st, IterVal('owned', None, 0, items=tuple(ok(t) for t in v.f[0])))
            raise Inconclusive(c)
        add(r'^wasmparser::binary_reader::<impl wasmparser::BrTable<.*>>::(len|default|targets)$|^wasmparser::BrTable::<.*>::(len|default|targets)$', m_brtable, 'wasmparser::BrTable::len/default/targets = the described targets')

        # ---- function bodies
        def m_body_reader(I, st, c, args, cont, depth, site):
            b = I.deref(st, args[0])
            cont(st, Struct('BinaryReader', (b.get('toks'), 0, b.get('start'), b.get('end')), ('toks', 'pos', 'start', 'end')))
        add(r'^(wasmparser::)?FunctionBody::<.*>::get_binary_reader$', m_body_reader, 'FunctionBody::get_binary_reader')

        def m_breader(I, st, c, args, cont, depth, site):
            m = re.search(r'BinaryReader::<.*?>::(\w+)', c)
            name = m.group(1)
            r = I.read_ref(st, args[0])
            if isinstance(r, Opaque):
                if name == 'new':
                    return cont(st, Opaque('BinaryReader'))
                raise Inconclusive('BinaryReader op on opaque reader: ' + name)
            toks, pos, start, end = r.f
            if name == 'range':
                return cont(st, rng(start, end))
            if name == 'eof':
                return cont(st, z3.BoolVal(pos >= len(toks)))
            if name == 'original_position':
                if pos < len(toks) and toks[pos][2] is not None:
                    return cont(st, toks[pos][2])
                return cont(st, end)
            if name in ('read_var_u32', 'read', 'read_operator'):
                want = {'read_var_u32': 'u32', 'read': 'valtype', 'read_operator': 'op'}[name]
                if pos >= len(toks) or toks[pos][0] != want:
                    raise Inconclusive('BinaryReader::%s at token %d of %r' % (name, pos, [t[0] for t in toks]))
                I.write_ref(st, args[0], Struct('BinaryReader', (toks, pos + 1, start, end), ('toks', 'pos', 'start', 'end')))
                return cont(st, ok(toks[pos][1]))
            raise Inconclusive('BinaryReader::' + name)
        add(r'^(wasmparser::)?BinaryReader::<.*>::(range|eof|original_position|read_var_u32|read_operator|read)(::<.*>)?$', m_breader, 'BinaryReader over the described token stream')
        add(r'^(wasmparser::)?BinaryReader::<.*>::new$', lambda I, st, c, args, cont, depth, site: cont(st, Struct('RawReader', (args[0],))), 'BinaryReader::new (custom section payload)')

        # ---- custom sections
        def m_custom(I, st, c, args, cont, depth, site):
            v = I.deref(st, args[0])
            name = c.rsplit('::', 1)[1]
            if name == 'name':
                return cont(st, v.get('name'))
            if name == 'data':
                d = v.get('data')
                prod = v.get('producers')
                if prod is None and isinstance(d, Opaque) and d.name in PRODUCERS_REGISTRY:
                    prod = PRODUCERS_REGISTRY[d.name]
                if v.get('names') is not None or prod is not None:
                    if prod is not None and isinstance(d, Opaque):
                        PRODUCERS_REGISTRY[d.name] = prod
                    return cont(st, Struct('SectionData', (d, v.get('names'), prod), ('data', 'names', 'producers')))
                return cont(st, d)
            if name == 'data_offset':
                return cont(st, usize(0))
            raise Inconclusive(c)
        add(r'^(wasmparser::)?CustomSectionReader::<.*>::(name|data|data_offset)$', m_custom, 'CustomSectionReader::name/data')

        # ---- producers / name section readers (items come from the description)
        def m_raw_sections(I, st, c, args, cont, depth, site):
            rd = args[0]
            src = rd.f[0] if isinstance(rd, Struct) and rd.ty == 'RawReader' else None
            if not (isinstance(src, Struct) and src.ty == 'SectionData'):
                raise Inconclusive('reader over an undescribed payload: %r' % (rd,))
            if 'ProducersField' in c:
                fields = src.get('producers')
                items = []
                for ent in fields:
                    if ent == 'ERR':
                        items.append(err(Opaque('BinaryReaderError')))
                    else:
                        f, vals = ent
                        items.append(ok(pl.mk('wasmparser::ProducersField', name=f, values=section([pl.mk('wasmparser::ProducersFieldValue', name=a, version=b) for a, b in vals]))))
                return cont(st, ok(Struct('SectionLimited', (VecVal(items), z3.BoolVal(True)), ('items', 'raw_results'))))
            names = src.get('names')
            subs = []
            KINDS = {'functions': 'Function', 'types': 'Type', 'tables': 'Table', 'memories': 'Memory', 'globals': 'Global', 'elements': 'Element', 'data': 'Data', 'labels': 'Label'}
            for k, v in names.items():
                if k == 'module':
                    subs.append(Enum('wasmparser::Name', 'Module', (v, rng(usize(0), usize(0))), ('name', 'name_range')))
                elif k == 'locals':
                    subs.append(Enum('wasmparser::Name', 'Local', (section([pl.mk('wasmparser::IndirectNaming', index=bv(fi, 'u32'), names=section([pl.mk('wasmparser::Naming', index=bv(li, 'u32'), name=n) for li, n in m.items()])) for fi, m in v.items()]),)))
                elif k == 'unknown':
                    subs.append(Enum('wasmparser::Name', 'Unknown', (bv(v, 'u8'), Opaque('bytes'), rng(usize(0), usize(0))), ('ty', 'data', 'range')))
                else:
                    subs.append(Enum('wasmparser::Name', KINDS[k], (section([pl.mk('wasmparser::Naming', index=bv(i, 'u32') if isinstance(i, int) else i, name=n) for i, n in v.items()]),)))
            cont(st, Struct('SectionLimited', (VecVal(subs),), ('items',)))
        add(r'^(wasmparser::)?SectionLimited::<.*ProducersField.*>::new$|^(wasmparser::)?Subsections::<.*Name.*>::new$', m_raw_sections, 'ProducersSectionReader/NameSectionReader::new = the described fields / subsections')
        add(r'^<(wasmparser::)?Subsections<.*> as IntoIterator>::into_iter$', m_sec_iter, 'name subsections iteration')

        def m_str_is_empty(I, st, c, args, cont, depth, site):
            v = I.deref(st, args[0]) if isinstance(args[0], Ref) else args[0]
            if isinstance(v, Opaque) and v.name.startswith('str:"'):
                return cont(st, z3.BoolVal(v.name == 'str:""'))
            if isinstance(v, Opaque):
                return cont(st, z3.Bool('is_empty[%s]' % v.name))
            raise Inconclusive('is_empty of %r' % (v,))
        add(r'^core::str::<impl str>::is_empty$|^(std::string::)?String::is_empty$', m_str_is_empty, 'str::is_empty')

        # ---- a probe custom section (stands for extension code): records what walrus hands to it
        def m_probe(I, st, c, args, cont, depth, site):
            try:
                v = I.deref(st, args[0])
            except Inconclusive:
                return NotImplemented
            if not (isinstance(v, Struct) and v.ty == 'VerifProbe'):
                return NotImplemented
            name = c.rsplit('::', 1)[1]
            if name == 'name':
                return cont(st, S('verif-probe'))
            if name == 'data':
                I.event(st, 'probe.data', pl.snap(st, args[1]))
                return cont(st, Opaque('bytes:probe'))
            if name == 'apply_code_transform':
                I.event(st, 'probe.code_transform', pl.snap(st, args[1]))
                return cont(st, unit())
            if name == 'add_gc_roots':
                return cont(st, unit())
            return NotImplemented
        add(r'^<dyn (module::)?custom::CustomSection as (module::)?(custom::)?CustomSection>::(name|data|apply_code_transform|add_gc_roots)$', m_probe,
            'probe custom section (records the IdsToIndices / CodeTransform it is given)', front=True)

        # ---- user callbacks of the configuration (recorded)
        def m_on_parse(I, st, c, args, cont, depth, site):
            tupv = args[1]
            idx = I.deref(st, tupv.f[1]) if isinstance(tupv.f[1], Ref) else tupv.f[1]
            I.event(st, 'on_parse', pl.snap(st, idx), pl.snap(st, tupv.f[0]))
            cont(st, ok(unit()))
        add(r'^<Box<dyn for<.*> Fn\(&.* mut module::Module, &.* IndicesToIds\).*> as Fn<.*>>::call$', m_on_parse, 'config.on_parse callback = recorded, returns Ok')

        def m_starts_with(I, st, c, args, cont, depth, site):
            s_ = I.deref(st, args[0]) if isinstance(args[0], Ref) else args[0]
            p = I.deref(st, args[1]) if isinstance(args[1], Ref) else args[1]
            if isinstance(s_, Opaque) and isinstance(p, Opaque) and s_.name.startswith('str:"') and p.name.startswith('str:"'):
                return cont(st, z3.BoolVal(s_.name[5:-1].startswith(p.name[5:-1])))
            if isinstance(s_, Opaque) and isinstance(p, Opaque):
                return cont(st, z3.Bool('starts_with[%s|%s]' % (s_.name, p.name)))
            raise Inconclusive('starts_with on %r' % (s_,))
        add(r'^core::str::<impl str>::starts_with::<', m_starts_with, 'str::starts_with (concrete strings decided, symbolic names get one boolean per (name, prefix))')

        def m_str_eq(I, st, c, args, cont, depth, site):
            a = I.deref(st, args[0]) if isinstance(args[0], Ref) else args[0]
            b = I.deref(st, args[1]) if isinstance(args[1], Ref) else args[1]
            e = values_eq(I, st, a, b)
            cont(st, z3.Not(e) if c.endswith('ne') else e)
        add(r'^<(str|&str|String|std::string::String) as PartialEq(<.*>)?>::(eq|ne)$|^core::str::traits::<impl PartialEq for str>::(eq|ne)$', m_str_eq, 'str equality on tokens')

        def m_bytes_empty(I, st, c, args, cont, depth, site):
            try:
                v = I.deref(st, args[0]) if isinstance(args[0], Ref) else args[0]
            except Inconclusive:
                return NotImplemented
            if isinstance(v, Struct) and v.ty == 'SectionData':
                v = v.get('data')
            if isinstance(v, Opaque) and v.name.startswith('bytes:'):
                ln = z3.BitVec('len[%s]' % v.name, 64)
                if ('lenbound', v.name) not in st.meta:
                    st.meta[('lenbound', v.name)] = True
                    st.pc.append(z3.ULT(ln, z3.BitVecVal(1 << 32, 64)))
                if c.endswith('is_empty'):
                    return cont(st, ln == 0)
                return cont(st, BV(ln, 'usize'))
            return NotImplemented
        add(r'^(core|std)::slice::<impl \[u8\]>::(is_empty|len)$|^(std::vec::)?Vec::<u8>::(is_empty|len)$|^<Cow<.*\[u8\]> as .*>::(is_empty|len)$', m_bytes_empty, 'length / emptiness of an opaque payload token = one symbolic length per token', front=True)

        def m_to_vec_u8(I, st, c, args, cont, depth, site):
            v = I.deref(st, args[0]) if isinstance(args[0], Ref) else args[0]
            if isinstance(v, Opaque):
                return cont(st, v)
            if isinstance(v, Struct) and v.ty == 'SectionData':
                return cont(st, v.get('data'))
            return NotImplemented
        add(r'^(alloc::)?slice::<impl \[u8\]>::to_vec$|^<\[u8\] as ToOwned>::to_owned$', m_to_vec_u8, '[u8]::to_vec on an opaque payload token = the same token')

        add(r'^gimli::Dwarf::<.*>::load::<', lambda I, st, c, args, cont, depth, site: cont(st, ok(Opaque('gimli::Dwarf(loaded from the captured .debug sections)'))),
            'gimli::Dwarf::load = Ok(opaque) [gimli is not encoded]')

        # ---- wasm_encoder sinks
        def m_enc_new(I, st, c, args, cont, depth, site):
            kind = re.match(r'^(?:wasm_encoder::)?(\w+)::', c).group(1)
            cont(st, Struct('enc:' + kind, (VecVal([('new',) + tuple(pl.snap(st, a) for a in args)]) if args else VecVal(),), ('entries',)))
        ENC = r'(wasm_encoder::(\w+Section|Module|NameMap|IndirectNameMap|Function)|(Name|Producers|Code|Type|Import|Function|Table|Memory|Global|Export|Start|Element|DataCount|Data)Section|NameMap|IndirectNameMap)'
        add(r'^' + ENC + r'::new(::<.*>)?$', m_enc_new, 'wasm_encoder builders: new = empty record')

        def m_enc_method(I, st, c, args, cont, depth, site):
            m = re.match(r'^(?:wasm_encoder::)?(\w+)::(\w+)', c)
            kind, meth = m.group(1), m.group(2)
            self_ref = args[0]
            cur = I.read_ref(st, self_ref)
            if not (isinstance(cur, Struct) and cur.ty.startswith('enc:')):
                raise Inconclusive('sink call %s on %r' % (c[:60], cur))

            def finish(st2, vals):
                cur2 = I.read_ref(st2, self_ref)
                ent = (meth,) + tuple(vals)
                I.write_ref(st2, self_ref, Struct(cur2.ty, (VecVal(cur2.f[0].items + (ent,)),), ('entries',)))
                I.event(st2, 'enc', kind, meth, tuple(vals))
                cont(st2, self_ref)
            pl.snap_all(st, list(args[1:]), depth, finish)
        ENC2 = r'(wasm_encoder::(\w+Section|Module|NameMap|IndirectNameMap)|(Name|Producers|Code|Type|Import|Function|Table|Memory|Global|Export|Start|Element|DataCount|Data)Section|NameMap|IndirectNameMap)'
        add(r'^' + ENC2 + r'::(?!new\b)(\w+)(::<.*>)?$', m_enc_method, 'wasm_encoder builders: every method appends (method, arguments) to the record')

        # ---- byte-level layout of the code section (contracts of wasm-encoder 0.214.0, see DESIGN.md C11)
        def flen(k, n):
            f = I.uf.get('flen')
            if f is None:
                f = z3.Function('flen', z3.BitVecSort(32), z3.BitVecSort(32), z3.BitVecSort(64))
                I.uf['flen'] = f
            return f(z3.BitVecVal(k, 32), z3.BitVecVal(n, 32))

        def m_fn_new(I, st, c, args, cont, depth, site):
            pl.nsink = getattr(pl, 'nsink', 0) + 1

            def fin(st2, vals):
                k_ = pl.nsink
                # encoded locals declaration: LEB(#groups) + per group LEB(count) + one type byte (contract of Function::new)
                try:
                    groups = vals[0].items if vals and isinstance(vals[0], VecVal) else None
                    if groups is not None:
                        ln = _leb_int(len(groups)) + sum(_leb_int(conc(g.f[0])) + 1 for g in groups)
                        st2.pc.append(flen(k_, 0) == z3.BitVecVal(ln, 64))
                except Inconclusive:
                    pass
                cont(st2, Struct('enc:Function', (VecVal([('new',) + tuple(vals)]), k_), ('entries', 'k')))
            pl.snap_all(st, list(args), depth, fin)
        add(r'^wasm_encoder::Function::new(::<.*>)?$', m_fn_new, 'wasm_encoder::Function::new(locals) = record', front=True)

        def m_fn_instr(I, st, c, args, cont, depth, site):
            cur = I.read_ref(st, args[0])
            ins = pl.snap(st, args[1])
            I.write_ref(st, args[0], Struct('enc:Function', (VecVal(cur.f[0].items + (('instruction', ins),)), cur.f[1]), ('entries', 'k')))
            I.event(st, 'instruction', ins)
            cont(st, args[0])
        add(r'^wasm_encoder::Function::instruction$', m_fn_instr, 'wasm_encoder::Function::instruction = append to the record', front=True)

        def m_fn_bytelen(I, st, c, args, cont, depth, site):
            cur = I.read_ref(st, args[0])
            n = sum(1 for e in cur.f[0].items if e[0] == 'instruction')
            k_ = cur.f[1]
            # contract: every instruction occupies at least one byte; bodies are smaller than 4 GiB
            key = ('flen-axioms', k_, n)
            if key not in st.meta:
                st.meta[key] = True
                st.pc.append(z3.ULT(flen(k_, n), z3.BitVecVal(1 << 32, 64)))
                st.pc.append(z3.UGE(flen(k_, n), z3.BitVecVal(1, 64)))
                if n > 0:
                    st.pc.append(z3.UGT(flen(k_, n), flen(k_, n - 1)))
            cont(st, BV(flen(k_, n), 'usize'))
        add(r'^wasm_encoder::Function::byte_len$', m_fn_bytelen, 'wasm_encoder::Function::byte_len = flen(function, #instructions so far) [uninterpreted, strictly increasing in #instructions]', front=True)

        def m_fn_encode(I, st, c, args, cont, depth, site):
            cur = I.deref(st, args[0])
            n = sum(1 for e in cur.f[0].items if e[0] == 'instruction')
            L = flen(cur.f[1], n)
            st.pc.append(z3.ULT(L, z3.BitVecVal(1 << 32, 64)))
            st.pc.append(z3.UGE(L, z3.BitVecVal(1, 64)))
            if n > 0:
                st.pc.append(z3.UGT(L, flen(cur.f[1], n - 1)))
            old = I.read_ref(st, args[1])
            if not (isinstance(old, VecVal) and not old.items):
                raise Inconclusive('Function::encode into a non-empty buffer')
            I.write_ref(st, args[1], Struct('ByteBuf', (BV(leblen(L) + L, 'usize'), ('len-prefixed-function', cur)), ('len', 'what')))
            cont(st, unit())
        def m_fn_raw_body(I, st, c, args, cont, depth, site):
            cur = I.deref(st, args[0]) if isinstance(args[0], Ref) else args[0]
            n = sum(1 for e in cur.f[0].items if e[0] == 'instruction')
            L = flen(cur.f[1], n)
            st.pc.append(z3.ULT(L, z3.BitVecVal(1 << 32, 64)))
            st.pc.append(z3.UGE(L, z3.BitVecVal(1, 64)))
            if n > 0:
                st.pc.append(z3.UGT(L, flen(cur.f[1], n - 1)))
            cont(st, Struct('ByteBuf', (BV(L, 'usize'), ('function-body', cur)), ('len', 'what')))
        add(r'^wasm_encoder::Function::into_raw_body$', m_fn_raw_body, 'Function::into_raw_body = the body bytes (no length prefix)', front=True)
        add(r'^<wasm_encoder::Function as (wasm_encoder::)?Encode>::encode$', m_fn_encode, 'Function::encode(sink) = LEB128(byte_len) ++ body', front=True)

        def m_bytebuf_len(I, st, c, args, cont, depth, site):
            try:
                v = I.deref(st, args[0])
            except Inconclusive:
                return NotImplemented
            if isinstance(v, Struct) and v.ty in ('ByteBuf', 'ByteSlice'):
                return cont(st, v.get('len'))
            if isinstance(v, Struct) and v.ty == 'enc:Module':
                return cont(st, BV(module_len(I, st, v), 'usize'))
            return NotImplemented
        add(r'^(std::vec::)?Vec::<u8>::len$|^(core|std)::slice::<impl \[u8\]>::len$', m_bytebuf_len, 'len of an encoded buffer (symbolic layout)', front=True)

        def m_bytebuf_index(I, st, c, args, cont, depth, site):
            try:
                v = I.deref(st, args[0])
            except Inconclusive:
                return NotImplemented
            if not (isinstance(v, Struct) and v.ty == 'ByteBuf'):
                return NotImplemented
            start = args[1].f[0]
            cont(st, I.halloc(st, Struct('ByteSlice', (BV(v.get('len').t - start.t, 'usize'), start, v.get('what')), ('len', 'start', 'what'))))
        add(r'^<Vec<u8> as (std::ops::)?Index<(std::ops::)?RangeFrom<usize>>>::index$', m_bytebuf_index, 'buf[start..] on an encoded buffer', front=True)

        def m_code_bytelen(I, st, c, args, cont, depth, site):
            cur = I.deref(st, args[0])
            cont(st, BV(code_bytes(cur), 'usize'))
        add(r'^(wasm_encoder::)?CodeSection::byte_len$', m_code_bytelen, 'CodeSection::byte_len = sum over raw entries of LEB128(len)+len', front=True)

        def m_as_slice(I, st, c, args, cont, depth, site):
            cont(st, args[0])
        add(r'^wasm_encoder::Module::as_slice$', m_as_slice, 'wasm_encoder::Module::as_slice (length tracked symbolically)', front=True)

        def m_enc_finish(I, st, c, args, cont, depth, site):
            cont(st, I.read_ref(st, args[0]) if isinstance(args[0], Ref) else args[0])
        add(r'^wasm_encoder::Module::(finish|as_slice)$', m_enc_finish, 'wasm_encoder::Module::finish = the recorded module', front=True)

        def m_ce(I, st, c, args, cont, depth, site):
            name = c.rsplit('::', 1)[1]
            cont(st, Struct('wasm_encoder::ConstExpr', (Opaque('const-expr-kind:' + name),) + tuple(pl.snap(st, a) for a in args)))
        add(r'^wasm_encoder::ConstExpr::\w+$', m_ce, 'wasm_encoder::ConstExpr::* = (constructor name, argument)')

        def m_pf(I, st, c, args, cont, depth, site):
            name = c.rsplit('::', 1)[1]
            if name == 'new':
                return cont(st, Struct('enc:ProducersField', (VecVal(),), ('entries',)))
            return m_enc_method(I, st, 'wasm_encoder::ProducersField::' + name, args, cont, depth, site)
        add(r'^wasm_encoder::ProducersField::\w+$', m_pf, 'wasm_encoder::ProducersField')

    # deep snapshot of an argument at call time (references are followed; iterators are drained)
    def snap(self, st, v, lim=0):
        I = self.I
        if lim > 12:
            return v
        if isinstance(v, Ref):
            try:
                return self.snap(st, I.read_ref(st, v), lim + 1)
            except Inconclusive:
                return Opaque('dangling')
        if isinstance(v, Struct):
            return Struct(v.ty, [self.snap(st, x, lim + 1) for x in v.f], v.names)
        if isinstance(v, Enum):
            return Enum(v.ty, v.variant, [self.snap(st, x, lim + 1) for x in v.f], v.names)
        if isinstance(v, VecVal):
            return VecVal([self.snap(st, x, lim + 1) if not isinstance(x, tuple) else x for x in v.items], v.kind)
        return v

    def snap_all(self, st, args, depth, k):
        """snapshot arguments; iterator arguments are drained (their closures are real code); fork-safe"""
        I = self.I

        def step(i, st, out):
            if i >= len(args):
                return k(st, list(out))
            a = args[i]
            if isinstance(a, IterVal):
                def each(s2, x, acc, kk):
                    kk(s2, acc + (self.snap(s2, x),))

                def done(s2, p, acc):
                    if p is PANIC:
                        raise Inconclusive('panic while draining a sink argument')
                    step(i + 1, s2, out + (VecVal(acc),))
                return drain(I, st, a, depth, each, done)
            step(i + 1, st, out + (self.snap(st, a),))
        step(0, st, ())

    # ------------------------------------------------------------------ drivers
    def run_parse(self, spec, config=None, st=None, extra_pc=()):
        """interpret the real Module::parse on the description; returns [(state, Result<Module>)]"""
        I = self.I
        st = st or engine_state()
        st.pc.extend(extra_pc)
        st.pc.extend(validity(spec))
        st.meta['payloads'] = self.payloads(spec)
        parse = self.ctx.fn(r'^module::<impl at src/module/mod\.rs:\d+:\d+: \d+:\d+>::parse$', lambda f: len(f.params) == 2)
        cfg = config if config is not None else self.default_config(st)
        cfg_ref = I.halloc(st, cfg)
        outs = []
        try:
            I.run(parse, [I.halloc(st, Opaque('wasm-bytes')), cfg_ref], st, lambda s, v: outs.append((s, v)))
        except BudgetExhausted:
            pass
        return outs

    def default_config(self, st, **flags):
        I = self.I
        f = self.ctx.fn(r'^module::config::<impl at [^>]*>::default$|^config::<impl at [^>]*>::default$', lambda f: f.ret.endswith('ModuleConfig'))
        out = []
        I.run(f, [], st, lambda s, v: out.append(v))
        cfg = out[0]
        for k, v in flags.items():
            cfg = cfg.with_field(cfg.names.index(k), v)
        return cfg

    def run_emit(self, st, module, mref=None):
        """interpret the real emit_wasm on a Module value; returns [(state, recorded wasm_encoder::Module, module ref)]"""
        I = self.I
        emit = self.ctx.fn(r'^module::<impl at src/module/mod\.rs:\d+:\d+: \d+:\d+>::emit_wasm$')
        if mref is None:
            mref = I.halloc(st, module)
        outs = []
        try:
            I.run(emit, [mref], st, lambda s, v: outs.append((s, v, mref)))
        except BudgetExhausted:
            pass          # the paths completed so far are genuine paths; engine.TRUNCATED marks the scenario
        return outs


LEB_APPS = {}


def _leb_int(n):
    k = 1
    while n >= 128:
        n >>= 7
        k += 1
    return k


def leblen(t):
    """length of the unsigned LEB128 encoding of a 64-bit term.  During interpretation it is an uninterpreted function
    with the range axiom 1 <= leb(x) <= 10 (keeps path-feasibility queries cheap); obligations that depend on its exact
    value conjoin `leb_definitions()`."""
    f = LEB_APPS.get('__f__')
    if f is None:
        f = z3.Function('leb128_len', z3.BitVecSort(64), z3.BitVecSort(64))
        LEB_APPS['__f__'] = f
    from . import lin as _lin
    t = _lin.canon(t)                 # arithmetically equal arguments give the same application
    if z3.is_bv_value(t):
        return z3.BitVecVal(_leb_int(t.as_long()), 64)
    app = f(t)
    LEB_APPS[app.get_id()] = (app, t)
    return app


def leblen_exact(t):
    w = t.size()
    r = z3.BitVecVal(10 if w == 64 else 5, w)
    for k in range(9 if w == 64 else 4, 0, -1):
        r = z3.If(z3.ULT(t, z3.BitVecVal(1 << (7 * k), w)), z3.BitVecVal(k, w), r)
    return r


def _leb_apps_in(terms):
    f = LEB_APPS.get('__f__')
    out = {}
    if f is None:
        return out
    seen = set()
    stack = list(terms)
    while stack:
        t = stack.pop()
        i = t.get_id()
        if i in seen:
            continue
        seen.add(i)
        if z3.is_app(t):
            if t.decl().eq(f):
                out[i] = t
            stack.extend(t.children())
    return out


def leb_range_axioms(terms):
    return [z3.And(z3.UGE(app, z3.BitVecVal(1, 64)), z3.ULE(app, z3.BitVecVal(10, 64))) for app in _leb_apps_in(terms).values()]


def leb_definitions(terms):
    return [app == leblen_exact(app.arg(0)) for app in _leb_apps_in(terms).values()]


def code_bytes(sec):
    tot = z3.BitVecVal(0, 64)
    for e in sec.f[0].items:
        if e[0] == 'raw':
            ln = e[1].get('len').t
            tot = tot + leblen(ln) + ln
        elif e[0] != 'new':
            raise Inconclusive('CodeSection entry %r' % (e[0],))
    return tot


def module_len(I, st, mod):
    """byte length of the recorded wasm_encoder::Module.  Only the code section's layout is exact:
    len = P + [1 + LEB(S) + S] + Q with S = LEB(count) + code bytes; P (header and all earlier sections) and Q (later
    sections) are single bounded symbols."""
    secs = [e[1] for e in mod.f[0].items if e[0] == 'section']
    ci = [i for i, sec in enumerate(secs) if isinstance(sec, Struct) and sec.ty == 'enc:CodeSection']
    def symlen(name):
        v = z3.BitVec(name, 64)
        if name not in st.meta:
            st.meta[name] = True
            st.pc.append(z3.ULT(v, z3.BitVecVal(1 << 32, 64)))
            st.pc.append(z3.UGE(v, z3.BitVecVal(8, 64)))
        return v
    if not ci:
        return symlen('module_bytes_%d_sections' % len(secs))
    sec = secs[ci[0]]
    n = sum(1 for x in sec.f[0].items if x[0] == 'raw')
    size = leblen(z3.BitVecVal(n, 64)) + code_bytes(sec)
    tot = symlen('bytes_before_code_section') + 1 + leblen(size) + size
    if ci[0] != len(secs) - 1:
        tot = tot + symlen('bytes_after_code_section_%d' % (len(secs) - ci[0] - 1))
    return tot


def add_probe(pl, st, mref):
    """module.customs.add(probe): appended structurally to the arena of custom sections"""
    I = pl.I
    m = I.read_ref(st, mref)
    customs = m.get('customs')
    ta = customs.get('arena')
    inner = ta.get('inner')
    items = inner.f[0].items + (some(I.halloc(st, Struct('VerifProbe', ()))),)
    inner2 = inner.with_field(0, VecVal(items))
    ta2 = ta.with_field(ta.names.index('inner'), inner2)
    customs2 = customs.with_field(customs.names.index('arena'), ta2)
    I.write_ref(st, mref, m.with_field(m.names.index('customs'), customs2))


def run_gc(pl, st, mref):
    """interpret the real passes::gc::run(&mut module); returns [(state, result)]"""
    I = pl.I
    gc = pl.ctx.fn(r'^passes::gc::run$|^gc::run$')
    outs = []
    try:
        I.run(gc, [mref], st, lambda s, v: outs.append((s, v)))
    except BudgetExhausted:
        pass
    return outs


PRODUCERS_REGISTRY = {}


def _featset(v):
    if isinstance(v, Struct) and v.ty == 'WasmFeatures':
        x = v.f[0]
        if isinstance(x, tuple):
            return x
        return ()
    if isinstance(v, Opaque):
        m = re.search(r'WasmFeatures::(\w+)', v.name)
        if m:
            return (m.group(1),)
    raise Inconclusive('feature flag %r' % (v,))


def mk_struct(I, tyname, **kw):
    sd = I.defs.struct_of(tyname)
    if sd is None:
        raise Inconclusive('no struct definition for ' + tyname)
    vals = []
    for n in sd.names():
        vals.append(kw[n] if n in kw else Opaque('%s.%s' % (tyname, n)))
    extra = set(kw) - set(sd.names())
    if extra:
        raise Inconclusive('struct %s has no field(s) %s (source changed?)' % (tyname, sorted(extra)))
    return Struct(tyname, vals, sd.names())


def engine_state():
    from .engine import State
    return State()
