"""walrus-specific contracts and symbolic input builders shared by the obligations."""
import re

import z3

from .values import *
from .models import fork_bool, values_eq, vec_at, new_arena, id_of
from .defs import strip_generics

KINDS = ['func', 'type', 'table', 'memory', 'global', 'local', 'data', 'element']
KIND_OF_TYPE = {'Function': 'func', 'Type': 'type', 'Table': 'table', 'Memory': 'memory', 'Global': 'global', 'Local': 'local',
                'Data': 'data', 'Element': 'element'}


def install_index_maps(I, id_width=32):
    """IndicesToIds::get_K(i) = Ok(parse_K(i)) and IdsToIndices::get_K_index(id) = emit_K(id): uninterpreted functions.
    The validator has accepted every index before walrus looks it up, so the lookup succeeds (assumption A-idx)."""
    def m_get(I, st, c, args, cont, depth, site):
        kind = re.search(r'get_(\w+)$', c).group(1)
        idx = args[-1]
        if kind == 'local':
            # get_local(func_id, index)
            t = I.ufapp('parse_local', idx.t)
        else:
            t = I.ufapp('parse_' + kind, idx.t)
        I.event(st, 'lookup_parse', kind, idx)
        cont(st, ok(BV(t, 'Id<%s>' % kind)))
    I.add_model(r'^(parse::)?IndicesToIds::get_(\w+)$', m_get, 'IndicesToIds::get_K = Ok(parse_K(i)) [validator accepted the index]')

    def m_get_index(I, st, c, args, cont, depth, site):
        kind = re.search(r'get_(\w+)_index$', c).group(1)
        idv = args[-1]
        if not isinstance(idv, BV):
            raise Inconclusive('id argument %r' % (idv,))
        I.event(st, 'lookup_emit', kind, idv)
        cont(st, BV(I.ufapp('emit_' + kind, idv.t), 'u32'))
    I.add_model(r'^(emit::)?IdsToIndices::get_(\w+)_index$', m_get_index, 'IdsToIndices::get_K_index = emit_K(id) [uninterpreted]')


def install_encoder_sinks(I):
    """wasm_encoder::Function::instruction(&mut f, &instr) -> event ('instruction', Instruction term)"""
    def m_instr(I, st, c, args, cont, depth, site):
        v = I.deref(st, args[1])
        I.event(st, 'instruction', v)
        cont(st, args[0])
    I.add_model(r'^wasm_encoder::Function::instruction$', m_instr, 'wasm_encoder::Function::instruction -> output event')

    def m_bytelen(I, st, c, args, cont, depth, site):
        n = sum(1 for e in st.events if e[0] == 'instruction')
        cont(st, BV(I.ufapp('byte_len_after', z3.BitVecVal(n, 32), 64), 'usize'))
    I.add_model(r'^wasm_encoder::Function::byte_len$', m_bytelen, 'wasm_encoder::Function::byte_len -> uninterpreted in the number of instructions so far')


# ------------------------------------------------------------------ symbolic inputs from declarations
def sym_by_type(I, ty, name, choose=None):
    """a fully symbolic value of a (plain-data) Rust type written as in the dependency/walrus sources"""
    ty = ty.strip().replace('$crate::', '')
    D = I.defs
    if ty in INT_W:
        return sym(name, ty)
    if ty == 'bool':
        return z3.Bool(name)
    if ty in ('Ieee32', 'wasmparser::Ieee32'):
        return Struct('wasmparser::Ieee32', (sym(name, 'u32'),))
    if ty in ('Ieee64', 'wasmparser::Ieee64'):
        return Struct('wasmparser::Ieee64', (sym(name, 'u64'),))
    if ty in ('V128', 'wasmparser::V128'):
        return Struct('wasmparser::V128', (VecVal([sym('%s_b%d' % (name, i), 'u8') for i in range(16)], 'array'),))
    m = re.fullmatch(r'\[(\w+); (\d+)\]', ty)
    if m:
        return VecVal([sym('%s_%d' % (name, i), m.group(1)) for i in range(int(m.group(2)))], 'array')
    if ty in ('MemArg', 'wasmparser::MemArg'):
        return Struct('wasmparser::MemArg', (sym(name + '_align', 'u8'), sym(name + '_max_align', 'u8'), sym(name + '_offset', 'u64'),
                                              sym(name + '_memory', 'u32')), ('align', 'max_align', 'offset', 'memory'))
    if choose is not None:
        v = choose(ty, name)
        if v is not None:
            return v
    raise Inconclusive('no symbolic builder for type ' + ty)


def build_operator(I, opname, fields, choose=None):
    vals = []
    names = []
    for fname, fty in fields:
        vals.append(sym_by_type(I, fty, fname, choose))
        names.append(fname)
    return Enum('wasmparser::Operator', opname, vals, names)


def install_wasmparser_accessors(I):
    def m_bits(I, st, c, args, cont, depth, site):
        v = I.deref(st, args[0])
        cont(st, v.f[0])
    I.add_model(r'^(wasmparser::)?Ieee(32|64)::bits$', m_bits, 'wasmparser::Ieee32/64::bits = the stored bit pattern')

    def m_bytes(I, st, c, args, cont, depth, site):
        r = args[0]
        cont(st, Ref(r.key, r.path + (('field', 0),)))
    I.add_model(r'^wasmparser::V128::bytes$', m_bytes, 'wasmparser::V128::bytes = &the 16 stored bytes')

    def m_from_le(I, st, c, args, cont, depth, site):
        v = I.deref(st, args[0]) if isinstance(args[0], Ref) else args[0]
        ty = re.search(r'impl (\w+)>', c).group(1)
        items = v.items
        t = items[0].t
        for b in items[1:]:
            t = z3.Concat(b.t, t)
        cont(st, BV(t, ty))
    I.add_model(r'^core::num::<impl (u128|i128|u64|u32)>::from_le_bytes$', m_from_le, 'uN::from_le_bytes = little-endian concatenation')

    def m_to_le(I, st, c, args, cont, depth, site):
        x = args[0]
        n = x.t.size() // 8
        cont(st, VecVal([BV(z3.Extract(8 * i + 7, 8 * i, x.t), 'u8') for i in range(n)], 'array'))
    I.add_model(r'^core::num::<impl (u128|i128|u64|u32)>::to_le_bytes$', m_to_le, 'uN::to_le_bytes = little-endian split')
