"""Reference comparison of a described function body (wasmparser::Operator terms) with the emitted body
(wasm_encoder::Instruction terms).  Independent of walrus: a depth counter and a dead flag decide which input operators
are syntactically dead; the emitted list must be an order-preserving image of the input that covers every live non-nop
operator and invents nothing except the empty `else` of an else-less `if` (and the tolerated inline block-type forms)."""
import re

import z3

from .values import *
from . import common

OPENERS = ('Block', 'Loop', 'If')
UNCOND = ('Br', 'BrTable', 'Return', 'Unreachable', 'ReturnCall', 'ReturnCallIndirect')
INDEX_FIELDS = {
    'function_index': 'func', 'type_index': 'type', 'table_index': 'table', 'table': 'table', 'dst_table': 'table', 'src_table': 'table',
    'global_index': 'global', 'local_index': 'local', 'data_index': 'data', 'elem_index': 'element', 'mem': 'memory', 'src_mem': 'memory',
    'dst_mem': 'memory', 'memory': 'memory',
}


def liveness(ops):
    """[(op, live?, depth_before, opener_index or None)] ; an operator is dead when it follows an unconditional
    transfer inside the same block (up to the matching end/else)"""
    out = []
    stack = []       # frames: dict(dead, opener)
    cur = {'dead': False, 'opener': None, 'parent_dead': False}
    for i, op in enumerate(ops):
        n = op.variant
        if n in OPENERS:
            out.append((op, not cur['dead'], len(stack), None))
            stack.append(cur)
            cur = {'dead': cur['dead'], 'opener': i, 'parent_dead': cur['dead'], 'inherited': cur['dead']}
        elif n == 'Else':
            opener_dead = cur.get('inherited', False)
            out.append((op, not opener_dead, len(stack), cur['opener']))
            cur = {'dead': opener_dead, 'opener': cur['opener'], 'parent_dead': cur['parent_dead'], 'inherited': opener_dead, 'has_else': True}
        elif n == 'End':
            opener_dead = cur.get('inherited', False)
            out.append((op, not opener_dead, len(stack), cur['opener']))
            if stack:
                cur = stack.pop()
        else:
            out.append((op, not cur['dead'], len(stack), None))
            if n in UNCOND:
                cur['dead'] = True
    return out


class BodyCmp:
    def __init__(self, table, pi, C):
        self.table = table      # codec table by operator name
        self.pi = pi
        self.C = C              # modcmp.Cmp collecting mismatches
        self.local_map = {}

    def entry(self, op):
        ents = self.table.get(op.variant)
        if not ents:
            raise Inconclusive('no codec entry for ' + op.variant)
        label = None
        for n, x in zip(op.names or (), op.f):
            if isinstance(x, Enum) and x.ty.endswith('BlockType'):
                label = {'Empty': 'empty', 'Type': 'result', 'FuncType': 'functype'}[x.variant]
        if label:
            for e in ents:
                if e['instruction'].endswith('#' + label):
                    return e
        return ents[0]

    def same_op(self, where, op, ins, types):
        """structural comparison of one operator with one emitted instruction; records mismatches"""
        from obligations.c03 import flatten_op, leaf_bytes, render_type
        C = self.C
        e = self.entry(op)
        want = e['instruction'].split('#')[0]
        if not isinstance(ins, Enum):
            m = re.search(r'Instruction(?:::<.*?>)?::(\w+)', repr(ins))
            ins = Enum('wasm_encoder::Instruction', m.group(1) if m else repr(ins))
        if ins.variant != want:
            C.bad.append(('body.opcode', '%s: operator %s emitted as %s' % (where, op.variant, ins.variant)))
            return
        fin = flatten_op(op)
        fout = flatten_op(ins)
        for okey, marker in e['op_fields'].items():
            if okey.endswith('.max_align'):
                continue
            hits = [k for k, m in e['instr_fields'].items() if m == marker]
            if len(hits) > 1:
                suf = okey.split('.')[-1]
                hits = [k for k in hits if k.split('.')[-1].startswith(suf[:5])] or hits
            if not hits:
                raise Inconclusive('codec table: no Instruction field for %s.%s' % (op.variant, okey))
            ikey = hits[0]
            vin = fin.get(okey)
            vout = fout.get(ikey)
            if vout is None and '.' in ikey:
                vout = fout.get(re.sub(r'^\w+\.', '0.', ikey))
            if vout is None and len(fout) == 1:
                vout = list(fout.values())[0]
            if op.variant == 'BrTable':
                bt = op.f[0]
                if okey == 'targets':
                    vin = VecVal(list(bt.f[0]))
                elif okey == 'default':
                    vin = bt.f[1]
            if vin is None or vout is None:
                raise Inconclusive('%s: cannot locate field %s / %s' % (where, okey, ikey))
            base = okey.split('.')[-1]
            kind = INDEX_FIELDS.get(base)
            key = 'body.imm.' + op.variant + '.' + okey
            if isinstance(vin, Enum) and vin.ty.endswith('BlockType'):
                self.blocktype(where, vin, vout, types)
            elif isinstance(vin, (Enum, Opaque)) or (isinstance(vin, Struct) and vin.ty == 'wasmparser::RefType'):
                a, b = render_type(vin), render_type(vout)
                if a != b:
                    C.bad.append((key, '%s.%s: type %s emitted as %s' % (where, okey, a, b)))
            elif kind == 'local':
                i, o = conc(vin), conc(vout)
                if self.local_map.setdefault(i, o) != o or [k for k, v in self.local_map.items() if v == o and k != i]:
                    C.bad.append(('body.local', '%s: local %d is mapped inconsistently (%r)' % (where, i, self.local_map)))
            elif kind is not None:
                C.idx_eq('%s.%s' % (where, okey), conc(vin), conc(vout), self.pi[kind], 'body.index.' + kind)
            elif isinstance(vin, VecVal) and op.variant == 'BrTable':
                a = [conc(x) for x in vin.items]
                b = [conc(x) for x in vout.items]
                if a != b:
                    C.bad.append(('body.label', '%s: br_table targets %r emitted as %r' % (where, a, b)))
            elif base in ('relative_depth', 'default') and op.variant in ('Br', 'BrIf', 'BrTable'):
                if conc(vin) != conc(vout):
                    C.bad.append(('body.label', '%s: branch depth %d emitted as %d' % (where, conc(vin), conc(vout))))
            else:
                if isinstance(vout, Struct) and len(vout.f) == 1 and not isinstance(vin, Struct):
                    vout = vout.f[0]
                if isinstance(vin, BV) and isinstance(vout, BV) and vin.t.size() != vout.t.size():
                    w = max(vin.t.size(), vout.t.size())
                    vin = BV(z3.ZeroExt(w - vin.t.size(), vin.t), 'u%d' % w) if vin.t.size() < w else vin
                    vout = BV(z3.ZeroExt(w - vout.t.size(), vout.t), 'u%d' % w) if vout.t.size() < w else vout
                C.term_eq('%s.%s' % (where, okey), vin, vout, key)

    def blocktype(self, where, bin_, bout, types):
        C = self.C
        from obligations.c03 import render_type
        vi = bin_.variant
        vo = bout.variant if isinstance(bout, Enum) else re.sub(r'.*::', '', repr(bout)).strip('<>')
        if vi == 'Empty':
            if vo != 'Empty':
                C.bad.append(('body.blocktype', '%s: empty block type emitted as %s' % (where, vo)))
        elif vi == 'Type':
            if vo != 'Result' or render_type(bin_.f[0]) != render_type(bout.f[0]):
                C.bad.append(('body.blocktype', '%s: block type %r emitted as %r' % (where, bin_, bout)))
        else:
            ti = conc(bin_.f[0])
            sig = types[ti]
            if vo == 'FunctionType':
                C.idx_eq(where + '.blocktype', ti, conc(bout.f[0]), self.pi['type'], 'body.blocktype')
            elif vo == 'Empty' and sig == ((), ()):
                pass            # tolerated normalisation: []->[] in the inline form
            elif vo == 'Result' and sig[0] == () and len(sig[1]) == 1 and render_type(bout.f[0]) == sig[1][0]:
                pass            # tolerated normalisation: []->[t] in the inline form
            else:
                C.bad.append(('body.blocktype', '%s: block type index %d %r emitted as %r' % (where, ti, sig, bout)))

    def compare(self, fname, ops, outs, types):
        C = self.C
        lv = liveness(ops)
        j = 0
        n_out = len(outs)
        has_else = {}
        for i, (op, live, depth, opener) in enumerate(lv):
            if op.variant == 'Else':
                has_else[opener] = True
        i = 0
        N = len(lv)
        kept = {}
        strict = getattr(self, 'strict', False)
        while i < N:
            op, live, depth, opener = lv[i]
            live = live or strict
            nm = op.variant
            if nm == 'Nop':
                # nop removal is tolerated either way
                if j < n_out and isinstance(outs[j], Enum) and outs[j].variant == 'Nop':
                    j += 1
                i += 1
                continue
            cur = outs[j] if j < n_out else None
            cur_name = cur.variant if isinstance(cur, Enum) else (re.sub(r'.*::', '', repr(cur)).strip('<>') if cur is not None else None)
            # the empty else of an else-less if may be invented right before its end
            if nm == 'End' and opener is not None and ops[opener].variant == 'If' and not has_else.get(opener) and cur_name == 'Else' and live:
                j += 1
                cur = outs[j] if j < n_out else None
                cur_name = cur.variant if isinstance(cur, Enum) else (re.sub(r'.*::', '', repr(cur)).strip('<>') if cur is not None else None)
            if not live:
                # dead operators may be dropped or kept; the end/else of a dead construct only together with its opener
                closes = nm in ('End', 'Else') and opener is not None
                if cur_name == nm and (not closes or kept.get(opener)) and self.try_same(op, cur, types):
                    j += 1
                    if nm in OPENERS:
                        kept[i] = True
                i += 1
                continue
            if cur is None:
                C.bad.append(('body.dropped', '%s: live operator #%d %s is missing from the output (output ended)' % (fname, i, nm)))
                return
            self.same_op('%s#%d(%s)' % (fname, i, nm), op, cur, types)
            j += 1
            i += 1
        if j != n_out:
            C.bad.append(('body.invented', '%s: %d extra emitted instructions: %r' % (fname, n_out - j, [getattr(x, 'variant', x) for x in outs[j:j + 4]])))

    def try_same(self, op, ins, types):
        from . import modcmp
        save = self.C
        tmp = modcmp.Cmp()
        self.C = tmp
        lm = dict(self.local_map)
        try:
            self.same_op('dead', op, ins, types)
        except Inconclusive:
            self.C = save
            self.local_map = lm
            return False
        self.C = save
        ok = not tmp.bad and not tmp.todo
        if not ok:
            self.local_map = lm
        return ok
