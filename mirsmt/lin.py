"""Sound interval reasoning on linear forms over bounded atoms, used to decide the overflow flags of usize arithmetic
on symbolic byte lengths without a solver call.  A term is flattened into c + sum k_i * atom_i (integers); if the integer
range [lb, ub] of the form lies inside [0, 2^w) the bit-vector value equals the integer value, hence
  AddWithOverflow(x, y) overflows  iff  int(x) + int(y) >= 2^w
  SubWithOverflow(x, y) underflows iff  int(x) - int(y) < 0
and both are decided when the interval of the combined form is on one side.  Anything else falls back to the solver."""
import z3


class Lin:
    __slots__ = ('c', 'terms')

    def __init__(self, c=0, terms=None):
        self.c = c
        self.terms = terms or {}     # ast id -> (coefficient, ast)

    def add(self, other, sign=1):
        t = dict(self.terms)
        for k, (co, a) in other.terms.items():
            if k in t:
                n = t[k][0] + sign * co
                if n == 0:
                    del t[k]
                else:
                    t[k] = (n, a)
            else:
                t[k] = (sign * co, a)
        return Lin(self.c + sign * other.c, t)

    def scale(self, k):
        return Lin(self.c * k, {i: (co * k, a) for i, (co, a) in self.terms.items()})


def flatten(t, depth=0):
    """Lin or None"""
    if depth > 60:
        return None
    if z3.is_bv_value(t):
        return Lin(t.as_long())
    k = t.decl().kind() if z3.is_app(t) else None
    if k == z3.Z3_OP_BADD:
        acc = Lin()
        for ch in t.children():
            f = flatten(ch, depth + 1)
            if f is None:
                return None
            acc = acc.add(f)
        return acc
    if k == z3.Z3_OP_BSUB:
        ch = t.children()
        acc = flatten(ch[0], depth + 1)
        if acc is None:
            return None
        for c2 in ch[1:]:
            f = flatten(c2, depth + 1)
            if f is None:
                return None
            acc = acc.add(f, -1)
        return acc
    if k == z3.Z3_OP_BMUL:
        ch = t.children()
        if len(ch) == 2 and z3.is_bv_value(ch[0]):
            f = flatten(ch[1], depth + 1)
            if f is None:
                return None
            v = ch[0].as_long()
            w = t.size()
            if v >= 1 << (w - 1):
                v -= 1 << w
            return f.scale(v)
    return Lin(0, {t.get_id(): (1, t)})


def atom_bounds(a, bounds, depth=0):
    """(lb, ub) of an atom as an unsigned integer"""
    w = a.size()
    full = (0, (1 << w) - 1)
    if depth > 30 or not z3.is_app(a):
        return full
    if z3.is_bv_value(a):
        return (a.as_long(), a.as_long())
    d = a.decl()
    name = d.name()
    k = d.kind()
    if name in bounds and k == z3.Z3_OP_UNINTERPRETED:
        return bounds[name]
    if k == z3.Z3_OP_ITE:
        x = term_bounds(a.arg(1), bounds, depth + 1)
        y = term_bounds(a.arg(2), bounds, depth + 1)
        return (min(x[0], y[0]), max(x[1], y[1]))
    if k == z3.Z3_OP_ZERO_EXT:
        x = term_bounds(a.arg(0), bounds, depth + 1)
        return x
    if k == z3.Z3_OP_CONCAT and z3.is_bv_value(a.arg(0)) and a.arg(0).as_long() == 0:
        return term_bounds(a.arg(1), bounds, depth + 1)
    return full


def term_bounds(t, bounds, depth=0):
    f = flatten(t)
    w = t.size()
    if f is None:
        return (0, (1 << w) - 1)
    lo = hi = f.c
    for _, (co, a) in f.terms.items():
        l, h = atom_bounds(a, bounds, depth + 1)
        if co > 0:
            lo += co * l
            hi += co * h
        else:
            lo += co * h
            hi += co * l
    if lo < 0 or hi >= (1 << w):
        return (0, (1 << w) - 1)
    return (lo, hi)


def form_bounds(f, bounds):
    lo = hi = f.c
    for _, (co, a) in f.terms.items():
        l, h = atom_bounds(a, bounds, 1)
        if co > 0:
            lo += co * l
            hi += co * h
        else:
            lo += co * h
            hi += co * l
    return lo, hi


def add_overflows(x, y, bounds):
    """True / False / None(undecided) for unsigned x + y"""
    w = x.size()
    fx, fy = flatten(x), flatten(y)
    if fx is None or fy is None:
        return None
    bx, by = form_bounds(fx, bounds), form_bounds(fy, bounds)
    if bx[0] < 0 or by[0] < 0 or bx[1] >= 1 << w or by[1] >= 1 << w:
        return None
    lo, hi = form_bounds(fx.add(fy), bounds)
    if hi < 1 << w:
        return False
    if lo >= 1 << w:
        return True
    return None


def sub_underflows(x, y, bounds):
    w = x.size()
    fx, fy = flatten(x), flatten(y)
    if fx is None or fy is None:
        return None
    bx, by = form_bounds(fx, bounds), form_bounds(fy, bounds)
    if bx[0] < 0 or by[0] < 0 or bx[1] >= 1 << w or by[1] >= 1 << w:
        return None
    lo, hi = form_bounds(fx.add(fy, -1), bounds)
    if lo >= 0:
        return False
    if hi < 0:
        return True
    return None


def canon(t):
    """the same value as a canonical sum c + k1*a1 + ... (atoms in a fixed order), so that arithmetically equal linear
    terms become syntactically equal (mod 2^w arithmetic: the rewriting is an identity of the bit-vector ring)"""
    f = flatten(t)
    if f is None:
        return t
    w = t.size()
    acc = None
    for _, (co, a) in sorted(f.terms.items(), key=lambda kv: str(kv[1][1])):
        co %= (1 << w)
        if co == 0:
            continue
        term = a if co == 1 else z3.BitVecVal(co, w) * a
        acc = term if acc is None else acc + term
    c = f.c % (1 << w)
    if acc is None:
        return z3.BitVecVal(c, w)
    return acc if c == 0 else acc + z3.BitVecVal(c, w)
