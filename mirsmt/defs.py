"""Declaration tables read from source text on every run: enum variant order (= discriminant order),
struct field order, impl headers.  walrus definitions come from /repo's working tree; wasmparser,
wasm-encoder and gimli definitions from the pinned registry sources."""
import glob
import os
import re

from .mir import split_top

REPO = os.environ.get('VERIF_REPO', '/repo')
REG = glob.glob(os.path.expanduser('~/.cargo/registry/src/*'))[0]
EXTERN_SRC = {
    'wasmparser': os.path.join(REG, 'wasmparser-0.214.0', 'src'),
    'wasm_encoder': os.path.join(REG, 'wasm-encoder-0.214.0', 'src'),
}


def _strip_comments(s):
    s = re.sub(r'//[^\n]*', '', s)
    s = re.sub(r'/\*.*?\*/', '', s, flags=re.S)
    return s


def _match_brace(s, i):
    """s[i] == '{' -> index after matching '}'"""
    depth = 0
    j = i
    while j < len(s):
        if s[j] == '{':
            depth += 1
        elif s[j] == '}':
            depth -= 1
            if depth == 0:
                return j + 1
        j += 1
    return len(s)


def _strip_attrs(body):
    out = []
    i = 0
    while i < len(body):
        if body[i] == '#' and i + 1 < len(body) and body[i + 1] == '[':
            depth = 0
            j = i + 1
            while j < len(body):
                if body[j] == '[':
                    depth += 1
                elif body[j] == ']':
                    depth -= 1
                    if depth == 0:
                        break
                j += 1
            i = j + 1
            continue
        out.append(body[i])
        i += 1
    return ''.join(out)


class EnumDef:
    def __init__(self, name, variants):
        self.name = name
        self.variants = variants      # list of (vname, kind, [(fname, ftype)], discr)
        self.index = {v[0]: v[3] for v in variants}
        self.byname = {v[0]: v for v in variants}

    def __repr__(self):
        return 'EnumDef(%s, %d variants)' % (self.name, len(self.variants))


class StructDef:
    def __init__(self, name, fields, kind):
        self.name = name
        self.fields = fields          # [(fname, ftype)]
        self.kind = kind              # 'named' | 'tuple' | 'unit'
        self.attrs = {}               # fname -> attribute text preceding the field

    def names(self):
        return [f[0] for f in self.fields]


def _parse_fields_named(body):
    body = _strip_attrs(body)
    out = []
    for part in split_top(body):
        part = part.strip()
        if not part:
            continue
        part = re.sub(r'^pub(\([^)]*\))?\s+', '', part)
        n, _, t = part.partition(':')
        out.append((n.strip(), t.strip()))
    return out


def _parse_fields_tuple(body):
    body = _strip_attrs(body)
    out = []
    for k, part in enumerate(split_top(body)):
        part = re.sub(r'^pub(\([^)]*\))?\s+', '', part.strip())
        out.append((str(k), part))
    return out


def scan_source(text):
    """returns (enums, structs) found in one source text"""
    text = _strip_comments(text)
    enums = {}
    structs = {}
    for m in re.finditer(r'\benum\s+(\w+)\s*(<[^{]*>)?\s*(where[^{]*)?\{', text):
        name = m.group(1)
        end = _match_brace(text, m.end() - 1)
        body = _strip_attrs(text[m.end():end - 1])
        variants = []
        nxt = 0
        for part in split_top(body):
            part = part.strip()
            if not part:
                continue
            mm = re.match(r'(\w+)\s*(.*)$', part, re.S)
            if not mm:
                continue
            vname, rest = mm.group(1), mm.group(2).strip()
            discr = None
            md = re.search(r'=\s*(-?\w+)\s*$', rest)
            if md and not rest.startswith(('(', '{')):
                try:
                    discr = int(md.group(1), 0)
                except ValueError:
                    discr = None
                rest = ''
            if rest.startswith('('):
                kind = 'tuple'
                fields = _parse_fields_tuple(rest[1:rest.rindex(')')])
            elif rest.startswith('{'):
                kind = 'struct'
                fields = _parse_fields_named(rest[1:rest.rindex('}')])
            else:
                kind = 'unit'
                fields = []
            if discr is None:
                discr = nxt
            nxt = discr + 1
            variants.append((vname, kind, fields, discr))
        enums.setdefault(name, EnumDef(name, variants))
    for m in re.finditer(r'\bstruct\s+(\w+)\s*(<[^;{(]*>)?\s*(where[^{;]*)?([{(;])', text):
        name = m.group(1)
        if m.group(4) == '{':
            end = _match_brace(text, m.end() - 1)
            raw = text[m.end():end - 1]
            sd = StructDef(name, _parse_fields_named(raw), 'named')
            # keep attributes per field (e.g. #[walrus(skip_visit)])
            for fm in re.finditer(r'((?:#\[[^\]]*\]\s*)+)(?:pub(?:\([^)]*\))?\s+)?(\w+)\s*:', raw):
                sd.attrs[fm.group(2)] = fm.group(1)
            structs.setdefault(name, sd)
        elif m.group(4) == '(':
            depth = 0
            j = m.end() - 1
            while j < len(text):
                if text[j] == '(':
                    depth += 1
                elif text[j] == ')':
                    depth -= 1
                    if depth == 0:
                        break
                j += 1
            structs.setdefault(name, StructDef(name, _parse_fields_tuple(text[m.end():j]), 'tuple'))
        else:
            structs.setdefault(name, StructDef(name, [], 'unit'))
    return enums, structs


def operator_list():
    """[(proposal, Name, [(field, type)])] in declaration order, from wasmparser's for_each_operator!"""
    s = open(os.path.join(EXTERN_SRC['wasmparser'], 'lib.rs')).read()
    i = s.index('macro_rules! for_each_operator')
    body = _strip_comments(s[i:s.index('\n}\n', i)])
    ops = []
    for prop, name, fields, _visit in re.findall(r'@(\w+)\s+(\w+)\s*(\{[^}]*\})?\s*=>\s*(\w+)', body):
        fl = []
        if fields:
            for part in split_top(fields.strip()[1:-1]):
                if part.strip():
                    n, _, t = part.partition(':')
                    fl.append((n.strip(), t.strip().replace('$crate::', '')))
        ops.append((prop, name, fl))
    return ops


class Defs:
    """all declaration tables; key convention: walrus types by last path segment,
    dependency types as '<crate>::<Last>'"""

    def __init__(self, repo=REPO):
        self.repo = repo
        self.enums = {}
        self.structs = {}
        self.files = {}
        for path in glob.glob(os.path.join(repo, 'src', '**', '*.rs'), recursive=True):
            text = open(path).read()
            self.files[os.path.relpath(path, repo)] = text
            e, st = scan_source(text)
            for k, v in e.items():
                self.enums.setdefault(k, v)
            for k, v in st.items():
                self.structs.setdefault(k, v)
        for crate, d in EXTERN_SRC.items():
            for path in glob.glob(os.path.join(d, '**', '*.rs'), recursive=True):
                e, st = scan_source(open(path).read())
                for k, v in e.items():
                    self.enums.setdefault(crate + '::' + k, v)
                for k, v in st.items():
                    self.structs.setdefault(crate + '::' + k, v)
        self._instr_structs()
        self.ops = operator_list()
        opvars = [(n, 'struct' if fl else 'unit', fl, i) for i, (_, n, fl) in enumerate(self.ops)]
        self.enums['wasmparser::Operator'] = EnumDef('Operator', opvars)
        self.enums['Option'] = EnumDef('Option', [('None', 'unit', [], 0), ('Some', 'tuple', [('0', 'T')], 1)])
        self.enums['Result'] = EnumDef('Result', [('Ok', 'tuple', [('0', 'T')], 0), ('Err', 'tuple', [('0', 'E')], 1)])
        self.enums['ControlFlow'] = EnumDef('ControlFlow', [('Continue', 'tuple', [('0', 'C')], 0), ('Break', 'tuple', [('0', 'B')], 1)])
        self.enums['Cow'] = EnumDef('Cow', [('Borrowed', 'tuple', [('0', 'B')], 0), ('Owned', 'tuple', [('0', 'O')], 1)])
        self.enums['Ordering'] = EnumDef('Ordering', [('Less', 'unit', [], -1), ('Equal', 'unit', [], 0), ('Greater', 'unit', [], 1)])
        self.enums['Bound'] = EnumDef('Bound', [('Included', 'tuple', [('0', 'T')], 0), ('Excluded', 'tuple', [('0', 'T')], 1), ('Unbounded', 'unit', [], 2)])
        self.enums['log::Level'] = EnumDef('Level', [('Error', 'unit', [], 1), ('Warn', 'unit', [], 2), ('Info', 'unit', [], 3), ('Debug', 'unit', [], 4), ('Trace', 'unit', [], 5)])
        self.enums['log::LevelFilter'] = EnumDef('LevelFilter', [('Off', 'unit', [], 0), ('Error', 'unit', [], 1), ('Warn', 'unit', [], 2), ('Info', 'unit', [], 3), ('Debug', 'unit', [], 4), ('Trace', 'unit', [], 5)])
        self._impl_cache = {}

    def _instr_structs(self):
        """#[walrus_instr] turns `enum Instr { V { f: T } }` into `struct V { f: T }` + `Instr::V(V)`;
        mirror that here and keep the per-field skip_visit markers"""
        text = _strip_comments(self.files.get('src/ir/mod.rs', ''))
        m = re.search(r'\benum\s+Instr\s*\{', text)
        self.instr_fields = {}
        if not m:
            return
        end = _match_brace(text, m.end() - 1)
        body = text[m.end():end - 1]
        variants = []
        for k, part in enumerate(split_top(body)):
            part = part.strip()
            if not part:
                continue
            clean = _strip_attrs(part).strip()
            mm = re.match(r'(\w+)\s*(\{.*\})?\s*$', clean, re.S)
            if not mm:
                continue
            vname = mm.group(1)
            fields = []
            if mm.group(2):
                raw_inner = part[part.index('{') + 1:part.rindex('}')]
                for fpart in split_top(raw_inner):
                    fpart = fpart.strip()
                    if not fpart:
                        continue
                    skip = 'skip_visit' in fpart
                    fc = _strip_attrs(fpart).strip()
                    fc = re.sub(r'^pub(\([^)]*\))?\s+', '', fc)
                    n, _, t = fc.partition(':')
                    fields.append((n.strip(), t.strip(), skip))
            self.instr_fields[vname] = fields
            self.structs[vname] = StructDef(vname, [(f[0], f[1]) for f in fields], 'named')
            variants.append((vname, 'tuple', [('0', vname)], len(variants)))
        self.enums['Instr'] = EnumDef('Instr', variants)

    # ---- key normalisation
    EXTERN = ('wasmparser', 'wasm_encoder', 'gimli', 'std', 'core', 'alloc', 'id_arena', 'log', 'anyhow')
    UNIQUE_EXTERN = {'Operator': 'wasmparser::Operator', 'Instruction': 'wasm_encoder::Instruction', 'Payload': 'wasmparser::Payload',
                     'TypeRef': 'wasmparser::TypeRef', 'Level': 'log::Level', 'LevelFilter': 'log::LevelFilter',
                     'EntityType': 'wasm_encoder::EntityType', 'Name': 'wasmparser::Name', 'DataKind': 'wasmparser::DataKind',
                     'ExternalKind': 'wasmparser::ExternalKind', 'CompositeInnerType': 'wasmparser::CompositeInnerType',
                     'Encoding': 'wasmparser::Encoding', 'HeapType': 'wasmparser::HeapType', 'AbstractHeapType': 'wasmparser::AbstractHeapType',
                     'Elements': 'wasm_encoder::Elements'}

    def tykey(self, path):
        p = strip_generics(path).strip()
        p = re.sub(r'^&(mut )?', '', p)
        segs = [x for x in p.split('::') if x]
        if not segs:
            return p
        last = segs[-1]
        if len(segs) > 1 and segs[0] in self.EXTERN:
            if segs[0] in ('std', 'core', 'alloc'):
                return last
            return segs[0] + '::' + last
        if len(segs) == 1 and last not in self.enums and last not in self.structs and last in self.UNIQUE_EXTERN:
            return self.UNIQUE_EXTERN[last]
        return last

    def enum_of(self, tykey):
        e = self.enums.get(tykey)
        if e is None and '::' in tykey:
            e = self.enums.get(tykey.split('::')[-1])
        return e

    def struct_of(self, tykey):
        s = self.structs.get(tykey)
        if s is None and '::' in tykey:
            s = self.structs.get(tykey.split('::')[-1])
        return s

    def discr(self, tykey, variant):
        e = self.enum_of(tykey)
        if e is None or variant not in e.index:
            return None
        return e.index[variant]

    def variant_of_discr(self, tykey, d):
        e = self.enum_of(tykey)
        if e is None:
            return None
        for v in e.variants:
            if v[3] == d:
                return v
        return None

    # ---- impl headers
    def impl_generics(self, file, line):
        """(type parameter names, generic arguments of the self type) of the impl block at file:line"""
        text = self.files.get(file)
        if text is None:
            return [], []
        lines = text.split('\n')
        chunk = ' '.join(lines[line - 1:line + 6])
        m = re.search(r'\bimpl\b\s*(<[^>]*(?:<[^>]*>[^>]*)*>)?\s*(.*?)\s*(where\b.*?)?\{', chunk)
        if not m or not m.group(1):
            return [], []
        params = []
        for a in split_top(m.group(1)[1:-1]):
            a = a.strip()
            if a.startswith("'"):
                continue
            params.append(re.match(r'\w+', a).group(0))
        hdr = m.group(2).strip()
        if ' for ' in hdr:
            hdr = hdr.partition(' for ')[2]
        return params, generic_args(hdr)

    def impl_header(self, file, line, col=None):
        """(trait or None, self type text) of the impl block that starts at file:line (or of a #[derive] at line:col)"""
        key = (file, line, col)
        if key in self._impl_cache:
            return self._impl_cache[key]
        res = (None, None)
        text = self.files.get(file)
        if text is not None:
            lines = text.split('\n')
            first = lines[line - 1] if line - 1 < len(lines) else ''
            if 'derive(' in first and col is not None:
                m = re.match(r'\w+', first[col - 1:])
                tr = m.group(0) if m else None
                ty = None
                for l2 in lines[line - 1:line + 12]:
                    m2 = re.search(r'\b(?:struct|enum)\s+(\w+)', l2)
                    if m2:
                        ty = m2.group(1)
                        break
                res = (tr, ty)
            else:
                chunk = ' '.join(lines[line - 1:line + 6])
                m = re.search(r'\bimpl\b\s*(<[^>]*(?:<[^>]*>[^>]*)*>)?\s*(.*?)\s*(where\b.*?)?\{', chunk)
                if m:
                    hdr = m.group(2).strip()
                    if ' for ' in hdr:
                        tr, _, ty = hdr.partition(' for ')
                        res = (strip_generics(tr).strip().split('::')[-1], strip_generics(ty).strip())
                    else:
                        res = (None, strip_generics(hdr).strip())
        self._impl_cache[key] = res
        return res


def generic_args(t):
    """top-level generic arguments of the LAST path segment that has any: 'A::B<X, Y<Z>>' -> ['X', 'Y<Z>']"""
    t = t.strip()
    i = t.find('<')
    if i < 0:
        return []
    depth = 0
    j = i
    while j < len(t):
        if t[j] == '<':
            depth += 1
        elif t[j] == '>' and t[j - 1] not in '-=':
            depth -= 1
            if depth == 0:
                break
        j += 1
    return [a for a in split_top(t[i + 1:j]) if a and not a.startswith("'")]


def strip_generics(p):
    """remove every <...> group (also ::<...>)"""
    out = []
    depth = 0
    i = 0
    while i < len(p):
        c = p[i]
        if c == '<':
            depth += 1
            if out[-2:] == [':', ':']:
                out = out[:-2]
        elif c == '>' and (i == 0 or p[i - 1] not in '-='):
            depth -= 1
        elif depth == 0:
            out.append(c)
        i += 1
    return ''.join(out)
