"""E1: symbolic interpreter for rustc MIR (continuation-passing, persistent store, z3 back end)."""
import re
import sys
import time
import threading

import z3

from . import mir, lin
from .mir import split_top, parsed_block
from .defs import strip_generics, generic_args
from .values import *

sys.setrecursionlimit(1000000)


BARE_VARIANTS = {'Less': 'Ordering', 'Equal': 'Ordering', 'Greater': 'Ordering', 'None': 'Option', 'Some': 'Option', 'Ok': 'Result', 'Err': 'Result'}


TRUNCATED = [False]      # set when a scenario's exploration was cut by its budget: a 'discharged' is then downgraded


class State:
    __slots__ = ('store', 'pc', 'events', 'meta')

    def __init__(self, store=None, pc=None, events=None, meta=None):
        self.store = store if store is not None else {}
        self.pc = pc if pc is not None else []
        self.events = events if events is not None else []
        self.meta = meta if meta is not None else {}

    def fork(self):
        return State(dict(self.store), list(self.pc), list(self.events), dict(self.meta))


class CallSite:
    __slots__ = ('callee', 'fn', 'bb', 'dst_ty')

    def __init__(self, callee, fn, bb, dst_ty):
        self.callee = callee
        self.fn = fn
        self.bb = bb
        self.dst_ty = dst_ty


class Interp:
    MAX_DEPTH = 40

    def __init__(self, fns, defs):
        self.fns = fns
        self.defs = defs
        self.solver = z3.Solver()
        self.solver.set('timeout', 20000)
        self.stats = {'steps': 0, 'queries': 0, 'qtime': 0.0, 'forks': 0, 'calls_interpreted': 0, 'calls_modelled': 0}
        self.models = []            # [(regex, handler, label)]
        self.models_used = {}       # label -> count
        self.fns_encoded = {}       # fn name -> blocks
        self.nfid = 0
        self.frames = {}
        self.lenient = set()
        self.bounds = {}           # uninterpreted symbol / function name -> (lb, ub): must be implied by the path condition
        self.named_consts = {}
        self.frame_env = {}        # fid -> {type parameter: instantiation text}
        self.pyclosures = {}
        self.clo_env = {}          # closure type -> env of the frame that created it
        self.closure_of_parent = {}
        self.pending_env = None
        self.nheap = 0
        self.nsym = 0
        self.uf = {}
        self.fuel_limit = 4000
        self._blk = 0
        self.deadline = None          # wall-clock end of the exploration budget (set by the pipeline drivers)
        self.closures = {}
        self.closures_all = {}
        self.by_last = {}
        self.dispatch_hint = {}     # type variable -> type key, e.g. {'V': 'Emit'}
        for name, lst in fns.items():
            for fn in lst:
                if '{closure#' in name.split('::')[-1] and fn.params:
                    t = re.sub(r'^&(mut )?', '', fn.params[0][1]).strip()
                    self.closures.setdefault(t, fn)
                    self.closures_all.setdefault(t, []).append(fn)
                last = name.split('::')[-1]
                self.by_last.setdefault(last, []).append(fn)
        self._fninfo = {}
        self._resolve_cache = {}

    # ------------------------------------------------------------------ utilities
    def fresh(self, prefix, ty):
        self.nsym += 1
        return sym('%s!%d' % (prefix, self.nsym), ty)

    def fresh_bool(self, prefix):
        self.nsym += 1
        return z3.Bool('%s!%d' % (prefix, self.nsym))

    def halloc(self, st, v):
        self.nheap += 1
        k = ('h', self.nheap)
        st.store[k] = v
        return Ref(k, ())

    def ufapp(self, name, arg, wout=32):
        key = (name, arg.size(), wout)
        if key not in self.uf:
            self.uf[key] = z3.Function(name, z3.BitVecSort(arg.size()), z3.BitVecSort(wout))
        return self.uf[key](arg)

    def add_model(self, pattern, handler, label=None, front=True):
        ent = (re.compile(pattern), handler, label or pattern)
        if front:
            self.models.insert(0, ent)
        else:
            self.models.append(ent)

    def event(self, st, *ev):
        st.events.append(tuple(ev))

    # ------------------------------------------------------------------ solver
    def feasible(self, st, extra=None):
        conds = st.pc
        if extra is not None:
            e = z3.simplify(extra)
            if z3.is_false(e):
                return False
            if z3.is_true(e):
                if st.meta.get('pc_checked') == len(st.pc):
                    return True
                extra = None
            else:
                extra = e
        elif st.meta.get('pc_checked') == len(st.pc):
            return True
        self.stats['queries'] += 1
        t = time.time()
        # a fresh (non-incremental) solver with an explicit bit-blasting pipeline (UFs are ackermannised)
        sol = z3.Then('simplify', 'solve-eqs', 'ackermannize_bv', 'bit-blast', 'sat').solver()
        sol.set('timeout', 60000)
        sol.add(*conds)
        if extra is not None:
            sol.add(extra)
        ax = getattr(self, 'axioms_hook', None)
        if ax is not None:
            sol.add(*ax(list(conds) + ([extra] if extra is not None else [])))
        r = sol.check()
        if r == z3.unknown:
            # one retry with a longer cap and the default solver (a loaded machine makes 60 s wall-clock caps flaky)
            sol2 = z3.Solver()
            sol2.set('timeout', 240000)
            sol2.add(*sol.assertions())
            r = sol2.check()
        self.stats['qtime'] += time.time() - t
        if r == z3.unknown:
            import os
            if os.environ.get('VERIF_DUMPQ'):
                sq = z3.Solver()
                sq.add(*conds)
                if extra is not None:
                    sq.add(extra)
                if ax is not None:
                    sq.add(*ax(list(conds) + ([extra] if extra is not None else [])))
                open(os.environ['VERIF_DUMPQ'], 'w').write(sq.to_smt2())
            raise Inconclusive('solver returned unknown on a feasibility query')
        if r == z3.sat and extra is None:
            st.meta['pc_checked'] = len(st.pc)
        return r == z3.sat

    # ------------------------------------------------------------------ store access
    def read_key(self, st, key):
        if key not in st.store:
            fn = self.frames.get(key[0]) if isinstance(key[0], int) else None
            if fn is not None:
                ty = fn.locals.get(key[1], '')
                if ty.startswith('{closure@'):       # capture-less closure: a ZST that MIR never assigns
                    return self._closure_value(ty, [], fn)
                if ty == '()':
                    return unit()
                if key[0] in self.lenient:
                    if ty == 'bool':        # e.g. drop flags of the code that was cut away: irrelevant, any value
                        v = self.fresh_bool('unset_' + key[1])
                        st.store[key] = v
                        return v
                    return Opaque('unset:%s' % key[1])
            raise Inconclusive('read of unset location %r' % (key,))
        return st.store[key]

    def read_ref(self, st, ref):
        v = self.read_key(st, ref.key)
        for p in ref.path:
            v = self.project(st, v, p)
        return v

    def deref(self, st, v):
        n = 0
        while isinstance(v, Ref):
            v = self.read_ref(st, v)
            n += 1
            if n > 50:
                raise Inconclusive('reference cycle')
        return v

    def write_ref(self, st, ref, val):
        if not ref.path:
            st.store[ref.key] = val
            return
        st.store[ref.key] = self.set_path(st, st.store.get(ref.key), ref.path, val)

    def project(self, st, v, p):
        k = p[0]
        if k == 'deref':
            if isinstance(v, Ref):
                return self.read_ref(st, v)
            if isinstance(v, Opaque):
                return Opaque('*' + v.name)
            raise Inconclusive('deref of %r' % (v,))
        if k == 'field':
            if isinstance(v, (Struct, Enum)):
                if p[1] >= len(v.f) or v.f[p[1]] is None:
                    raise Inconclusive('field %d of %r' % (p[1], v))
                return v.f[p[1]]
            if isinstance(v, Opaque):
                return Opaque('%s.%d' % (v.name, p[1]))
            if isinstance(v, Ref) and p[1] == 0:
                return v          # Box / Unique / NonNull wrappers are transparent
            raise Inconclusive('field %d of %r' % (p[1], v))
        if k == 'downcast':
            if isinstance(v, Enum):
                if v.variant != p[1]:
                    raise Inconclusive('downcast %s of %r' % (p[1], v))
                return v
            if isinstance(v, Opaque):
                return Opaque('%s as %s' % (v.name, p[1]))
            raise Inconclusive('downcast of %r' % (v,))
        if k == 'elem':
            if isinstance(v, VecVal):
                if p[1] >= len(v.items):
                    raise Inconclusive('element %d of %r' % (p[1], v))
                return v.items[p[1]]
            if isinstance(v, Struct):
                return v.f[p[1]]
            raise Inconclusive('element of %r' % (v,))
        if k in ('mapkey', 'mapval'):
            if isinstance(v, MapVal):
                return v.items[p[1]][0 if k == 'mapkey' else 1]
            raise Inconclusive('map entry of %r' % (v,))
        raise Inconclusive('projection %r' % (p,))

    def set_path(self, st, v, path, new):
        if not path:
            return new
        p = path[0]
        k = p[0]
        if k == 'deref':
            if isinstance(v, Ref):
                self.write_ref(st, Ref(v.key, v.path + tuple(path[1:])), new)
                return v
            raise Inconclusive('write through %r' % (v,))
        if k == 'field':
            if v is None:
                v = Struct('?', ())
            if isinstance(v, (Struct, Enum)):
                old = v.f[p[1]] if p[1] < len(v.f) else None
                return v.with_field(p[1], self.set_path(st, old, path[1:], new))
            raise Inconclusive('field write into %r' % (v,))
        if k == 'downcast':
            if v is None:
                v = Enum('?', p[1], ())
            if isinstance(v, Enum):
                if v.variant != p[1]:
                    v = Enum(v.ty, p[1], ())
                return self.set_path(st, v, path[1:], new)
            raise Inconclusive('downcast write into %r' % (v,))
        if k == 'elem':
            if isinstance(v, VecVal):
                items = list(v.items)
                items[p[1]] = self.set_path(st, items[p[1]], path[1:], new)
                return VecVal(items, v.kind)
            raise Inconclusive('element write into %r' % (v,))
        if k == 'mapval':
            if isinstance(v, MapVal):
                items = list(v.items)
                items[p[1]] = (items[p[1]][0], self.set_path(st, items[p[1]][1], path[1:], new))
                return MapVal(items, v.kind)
            raise Inconclusive('map write into %r' % (v,))
        raise Inconclusive('write projection %r' % (p,))

    # resolve a MIR place in frame fid to (key, path) with all derefs followed
    def resolve_place(self, st, fid, place):
        local, projs = place
        key = (fid, local)
        path = ()
        for p in projs:
            if p[0] == 'deref':
                v = self.read_ref(st, Ref(key, path))
                if isinstance(v, Ref):
                    key, path = v.key, v.path
                else:
                    path = path + (p,)      # will fail or produce Opaque on read
            elif p[0] == 'index':
                idx = self.read_key(st, (fid, p[1]))
                path = path + (('elem', conc(idx)),)
            elif p[0] == 'cindex':
                if p[2]:
                    cont = self.read_ref(st, Ref(key, path))
                    n = len(cont.items) if isinstance(cont, VecVal) else len(cont.f)
                    path = path + (('elem', n - p[1]),)
                else:
                    path = path + (('elem', p[1]),)
            else:
                path = path + (p,)
        return Ref(key, path)

    def read_place(self, st, fid, place):
        local, projs = place
        if not projs:
            return self.read_key(st, (fid, local))
        return self.read_ref(st, self.resolve_place(st, fid, place))

    def write_place(self, st, fid, place, val):
        local, projs = place
        if not projs:
            st.store[(fid, local)] = val
            return
        self.write_ref(st, self.resolve_place(st, fid, place), val)

    # ------------------------------------------------------------------ operands / rvalues
    def operand(self, st, fid, op, fn=None):
        k = op[0]
        if k in ('copy', 'move'):
            return self.read_place(st, fid, op[1])
        return self.const(st, op[1], fn)

    def const(self, st, s, fn=None):
        m = re.fullmatch(r'(-?\d+)_(\w+)', s)
        if m and m.group(2) in INT_W:
            return bv(int(m.group(1)), m.group(2))
        if s == 'true':
            return z3.BoolVal(True)
        if s == 'false':
            return z3.BoolVal(False)
        if s == '()':
            return unit()
        if s == '[]':
            return VecVal((), 'array')
        if s.startswith('"') or s.startswith('b"'):
            return Opaque('str:' + s[:60])
        m = re.fullmatch(r"'(.)'", s)
        if m:
            return bv(ord(m.group(1)), 'char')
        if s.startswith('FnItem: '):
            return FnItem(s[8:])
        if s.startswith('ZeroSized: '):
            t = s[11:]
            mm = re.search(r'\{(.*)\}\s*$', t)
            if t.startswith('{closure@'):
                return self._closure_value(t.strip(), [], fn) if fn is not None else Struct(t.strip(), ())
            if mm and 'fn(' in t:
                return FnItem(mm.group(1))
            return Struct(t.strip(), ())
        if s in self.named_consts:
            return self.named_consts[s]
        m = re.fullmatch(r'(u8|u16|u32|u64|usize|i8|i16|i32|i64|isize|u128|i128)::(MAX|MIN)', s)
        if m:
            w = INT_W[m.group(1)]
            sg = m.group(1) in SIGNED
            if m.group(2) == 'MAX':
                return bv((1 << (w - 1)) - 1 if sg else (1 << w) - 1, m.group(1))
            return bv(-(1 << (w - 1)) if sg else 0, m.group(1))
        if re.fullmatch(r'[\w:]+', s) and not s.startswith(('std::', 'core::')):
            last = s.split('::')[-1]
            cands = [lst[0] for name, lst in self.fns.items() if lst[0].kind in ('const', 'static') and name.split('::')[-1] == last and 'promoted' not in name]
            if len(cands) == 1 and last.isupper():
                return self.eval_const_item(st, cands[0])
        # promoted / named constants and statics with a body in the dump
        if s in self.fns and self.fns[s][0].kind in ('const', 'static'):
            return self.eval_const_item(st, self.fns[s][0])
        m = re.fullmatch(r'(.*::promoted\[\d+\])', s)
        if m:
            for name, lst in self.fns.items():
                if lst[0].kind == 'const' and name.endswith(s.split('::')[-2] + '::' + s.split('::')[-1]):
                    return self.eval_const_item(st, lst[0])
        # aggregate constants like `ir::Drop {{  }}`
        m = re.fullmatch(r'([\w:]+) \{\{\s*\}\}', s)
        if m:
            return Struct(self.defs.tykey(m.group(1)), ())
        if s.startswith('std::option::Option::<') and s.endswith('::None'):
            return none()
        m = re.fullmatch(r'([\w:]+)::(\w+)', s)
        if m:
            e = self.defs.enum_of(self.defs.tykey(m.group(1)))
            if e is not None and m.group(2) in e.index:
                return Enum(self.defs.tykey(m.group(1)), m.group(2))
        return Opaque('const ' + s[:80])

    def eval_const_item(self, st, fn):
        out = []
        self.run(fn, [], st, lambda s2, v: out.append(v))
        if len(out) != 1 or out[0] is PANIC:
            raise Inconclusive('constant %s did not evaluate to one value' % fn.name[:60])
        v = out[0]
        return v

    def rvalue(self, st, fid, rv, fn, dst_ty):
        k = rv[0]
        if k == 'use':
            return self.operand(st, fid, rv[1], fn)
        if k == 'ref':
            return self.resolve_place(st, fid, rv[2])
        if k == 'cast':
            return self.cast(st, self.operand(st, fid, rv[1], fn), rv[2], rv[3])
        if k == 'discr':
            v = self.read_place(st, fid, rv[1])
            if isinstance(v, Enum):
                d = self.defs.discr(v.ty, v.variant)
                if d is None:
                    raise Inconclusive('no discriminant table for %s::%s' % (v.ty, v.variant))
                return bv(d, dst_ty if dst_ty in INT_W else 'isize')
            raise Inconclusive('discriminant of %r' % (v,))
        if k == 'binop':
            return self.binop(rv[1], self.operand(st, fid, rv[2], fn), self.operand(st, fid, rv[3], fn))
        if k == 'unop':
            x = self.operand(st, fid, rv[2], fn)
            if rv[1] == 'Not':
                if isinstance(x, BV):
                    return BV(~x.t, x.ty)
                return z3.Not(as_bool(x))
            if rv[1] == 'Neg' and isinstance(x, BV):
                return BV(-x.t, x.ty)
            if rv[1] == 'PtrMetadata':
                v = self.deref(st, x)
                if isinstance(v, VecVal):
                    return usize(len(v.items))
                if isinstance(v, Struct) and v.names and 'len' in v.names:
                    return v.get('len')
                hook = getattr(self, 'len_hook', None)
                if hook is not None:
                    r = hook(self, st, v)
                    if r is not None:
                        return r
            raise Inconclusive('unop %s on %r (-> %r)' % (rv[1], x, self.deref(st, x) if isinstance(x, Ref) else None))
        if k == 'tuple':
            return Struct('tuple', [self.operand(st, fid, o, fn) for o in rv[1]])
        if k == 'array':
            return VecVal([self.operand(st, fid, o, fn) for o in rv[1]], 'array')
        if k == 'repeat':
            n = re.match(r'(?:const )?(\d+)', rv[2])
            if not n:
                raise Inconclusive('repeat length ' + rv[2])
            x = self.operand(st, fid, rv[1], fn)
            return VecVal([x] * int(n.group(1)), 'array')
        if k == 'len':
            v = self.read_place(st, fid, rv[1])
            v = self.deref(st, v)
            if isinstance(v, VecVal):
                return usize(len(v.items))
            raise Inconclusive('Len of %r' % (v,))
        if k == 'closure':
            if fid in self.frame_env:
                self.clo_env[rv[1]] = self.frame_env[fid]
            # remember the creating function: macro-generated functions share one span, hence one closure type name
            return Struct(rv[1], [self.operand(st, fid, o, fn) for o in rv[2]], ['__parent__:' + fn.name] if not rv[2] else None) if False else \
                self._closure_value(rv[1], [self.operand(st, fid, o, fn) for o in rv[2]], fn)
        if k == 'struct':
            path, names, ops = rv[1], rv[2], rv[3]
            vals = [self.operand(st, fid, o, fn) for o in ops]
            parent, _, last = strip_generics(path).rpartition('::')
            pk = self.defs.tykey(parent) if parent else None
            if pk and self.defs.enum_of(pk) is not None and last in self.defs.enum_of(pk).index:
                return Enum(pk, last, vals, names)
            return Struct(self.defs.tykey(path), vals, names)
        if k == 'ctor':
            path, ops = rv[1], rv[2]
            vals = [self.operand(st, fid, o, fn) for o in ops]
            p = strip_generics(path)
            parent, _, last = p.rpartition('::')
            if not parent and dst_ty:
                dk = self.defs.tykey(dst_ty)
                de = self.defs.enum_of(dk)
                if de is not None and last in de.index:
                    return Enum(dk, last, vals)
            if not parent and last in BARE_VARIANTS:
                return Enum(BARE_VARIANTS[last], last, vals)
            pk = self.defs.tykey(parent) if parent else None
            if pk and self.defs.enum_of(pk) is not None and last in self.defs.enum_of(pk).index:
                return Enum(pk, last, vals)
            return Struct(self.defs.tykey(p), vals)
        if k == 'nullop':
            if rv[1] in ('UbChecks', 'ContractChecks'):
                return z3.BoolVal(False)
            raise Inconclusive('nullop ' + rv[1])
        raise Inconclusive('rvalue kind ' + k)

    def cast(self, st, v, ty, kind):
        ty = ty.strip()
        if kind.startswith('PointerCoercion') or kind in ('PtrToPtr', 'FnPtrToPtr', 'PointerExposeProvenance', 'PointerWithExposedProvenance'):
            return v
        if kind == 'Transmute':
            if isinstance(v, BV) and ty in INT_W and INT_W[ty] == v.t.size():
                return BV(v.t, ty)
            return v
        if kind == 'IntToInt':
            if isinstance(v, z3.BoolRef) and ty in INT_W:
                return BV(z3.If(v, z3.BitVecVal(1, INT_W[ty]), z3.BitVecVal(0, INT_W[ty])), ty)
            if isinstance(v, BV) and ty in INT_W:
                w0 = v.t.size()
                w1 = INT_W[ty]
                if w1 == w0:
                    t = v.t
                elif w1 < w0:
                    t = z3.Extract(w1 - 1, 0, v.t)
                else:
                    t = z3.SignExt(w1 - w0, v.t) if v.ty in SIGNED else z3.ZeroExt(w1 - w0, v.t)
                return BV(t, ty)
            if isinstance(v, Enum) and ty in INT_W:
                d = self.defs.discr(v.ty, v.variant)
                if d is not None:
                    return bv(d, ty)
        raise Inconclusive('cast %r as %s (%s)' % (v, ty, kind))

    def binop(self, op, x, y):
        if isinstance(x, z3.BoolRef) and isinstance(y, z3.BoolRef):
            if op == 'Eq':
                return x == y
            if op == 'Ne':
                return x != y
            if op == 'BitAnd':
                return z3.And(x, y)
            if op == 'BitOr':
                return z3.Or(x, y)
            if op == 'BitXor':
                return z3.Xor(x, y)
        if not (isinstance(x, BV) and isinstance(y, BV)):
            raise Inconclusive('binop %s on %r, %r' % (op, x, y))
        s = x.ty in SIGNED
        w = x.t.size()
        if op in ('Shl', 'Shr', 'ShlUnchecked', 'ShrUnchecked'):
            wy = y.t.size()
            sh = y.t if wy == w else (z3.Extract(w - 1, 0, y.t) if wy > w else z3.ZeroExt(w - wy, y.t))
            sh = sh & (w - 1)
            if op.startswith('Shl'):
                return BV(x.t << sh, x.ty)
            return BV((x.t >> sh) if s else z3.LShR(x.t, sh), x.ty)
        if y.t.size() != w:
            raise Inconclusive('binop width mismatch %r %r' % (x, y))
        if op == 'Gt':
            return (x.t > y.t) if s else z3.UGT(x.t, y.t)
        if op == 'Lt':
            return (x.t < y.t) if s else z3.ULT(x.t, y.t)
        if op == 'Ge':
            return (x.t >= y.t) if s else z3.UGE(x.t, y.t)
        if op == 'Le':
            return (x.t <= y.t) if s else z3.ULE(x.t, y.t)
        if op == 'Eq':
            return x.t == y.t
        if op == 'Ne':
            return x.t != y.t
        if op in ('Add', 'AddUnchecked'):
            return BV(x.t + y.t, x.ty)
        if op in ('Sub', 'SubUnchecked'):
            return BV(x.t - y.t, x.ty)
        if op in ('Mul', 'MulUnchecked'):
            return BV(x.t * y.t, x.ty)
        if op == 'Div':
            return BV((x.t / y.t) if s else z3.UDiv(x.t, y.t), x.ty)
        if op == 'Rem':
            return BV(z3.SRem(x.t, y.t) if s else z3.URem(x.t, y.t), x.ty)
        if op == 'BitAnd':
            return BV(x.t & y.t, x.ty)
        if op == 'BitOr':
            return BV(x.t | y.t, x.ty)
        if op == 'BitXor':
            return BV(x.t ^ y.t, x.ty)
        if op in ('AddWithOverflow', 'SubWithOverflow') and not s and not (z3.is_bv_value(x.t) and z3.is_bv_value(y.t)):
            # interval reasoning over bounded atoms (sound, see lin.py); undecided cases go to the solver as before
            dec = lin.add_overflows(x.t, y.t, self.bounds) if op == 'AddWithOverflow' else lin.sub_underflows(x.t, y.t, self.bounds)
            if dec is not None:
                self.stats['interval_decisions'] = self.stats.get('interval_decisions', 0) + 1
                return tup(BV(x.t + y.t if op == 'AddWithOverflow' else x.t - y.t, x.ty), z3.BoolVal(dec))
        if op == 'AddWithOverflow':
            if s:
                ovf = z3.Or(z3.Not(z3.BVAddNoOverflow(x.t, y.t, True)), z3.Not(z3.BVAddNoUnderflow(x.t, y.t)))
            else:
                ovf = z3.Not(z3.BVAddNoOverflow(x.t, y.t, False))
            return tup(BV(x.t + y.t, x.ty), ovf)
        if op == 'SubWithOverflow':
            if s:
                ovf = z3.Or(z3.Not(z3.BVSubNoOverflow(x.t, y.t)), z3.Not(z3.BVSubNoUnderflow(x.t, y.t, True)))
            else:
                ovf = z3.ULT(x.t, y.t)
            return tup(BV(x.t - y.t, x.ty), ovf)
        if op == 'MulWithOverflow':
            ovf = z3.Or(z3.Not(z3.BVMulNoOverflow(x.t, y.t, s)), z3.Not(z3.BVMulNoUnderflow(x.t, y.t)) if s else z3.BoolVal(False))
            return tup(BV(x.t * y.t, x.ty), ovf)
        if op == 'Cmp':
            raise Inconclusive('three-way Cmp')
        raise Inconclusive('binop ' + op)

    # ------------------------------------------------------------------ execution
    def run(self, fn, args, st, cont, depth=0):
        """interpret fn from its entry; cont(st, value) is called once per feasible path (value may be PANIC)"""
        if depth > self.MAX_DEPTH:
            raise Inconclusive('call depth bound exceeded at ' + fn.name[:60])
        self.nfid += 1
        fid = self.nfid
        self.frames[fid] = fn
        if self.pending_env:
            self.frame_env[fid] = self.pending_env
            self.pending_env = None
        if len(args) != len(fn.params):
            raise Inconclusive('arity mismatch calling %s: %d args for %d params' % (fn.name[:60], len(args), len(fn.params)))
        for (pn, _), a in zip(fn.params, args):
            st.store[(fid, pn)] = a
        self.fns_encoded[fn.name] = len(fn.blocks)
        self.stats['calls_interpreted'] += 1
        self.exec_from(fn, fid, 'bb0', st, cont, depth, [0])

    def run_from(self, fn, bb, locals_, st, cont, depth=0):
        """interpret fn starting at basic block `bb` with the given locals (kernel slices of large functions); locals that
        were not provided read as opaque values, so any decision that depends on them is INCONCLUSIVE"""
        self.nfid += 1
        fid = self.nfid
        self.frames[fid] = fn
        self.lenient.add(fid)
        for k, v in locals_.items():
            st.store[(fid, k)] = v
        self.fns_encoded[fn.name + ' [slice from %s]' % bb] = len(fn.blocks)
        # the slice starts at the terminator of `bb` (the statements before it belong to the code that is cut away)
        saved = parsed_block(fn, bb)
        fn.parsed[bb] = ((), saved[1])
        try:
            self.exec_from(fn, fid, bb, st, cont, depth, [0])
        finally:
            fn.parsed[bb] = saved

    def exec_from(self, fn, fid, bb, st, cont, depth, fuel):
        try:
            self._exec_from(fn, fid, bb, st, cont, depth, fuel)
        except Inconclusive as ex:
            if not getattr(ex, 'located', False):
                ex.located = True
                ex.args = (str(ex.args[0]) + '  [at %s %s]' % (fn.name[-90:], self._cur_bb),)
            raise

    def _exec_from(self, fn, fid, bb, st, cont, depth, fuel):
        while True:
            self._cur_bb = bb
            fuel[0] += 1
            self._blk += 1
            if self.deadline is not None and (self._blk & 255) == 0 and time.time() > self.deadline:
                TRUNCATED[0] = True
                raise BudgetExhausted('exploration budget used up')
            if fuel[0] > self.fuel_limit:
                raise Inconclusive('unwinding bound (%d blocks) hit in %s' % (self.fuel_limit, fn.name[:60]))
            stmts, term = parsed_block(fn, bb)
            for s in stmts:
                self.stats['steps'] += 1
                k = s[0]
                if k == 'nop':
                    continue
                if k == 'assign':
                    dst = s[1]
                    dst_ty = fn.locals.get(dst[0]) if not dst[1] else None
                    val = self.rvalue(st, fid, s[2], fn, dst_ty)
                    self.write_place(st, fid, dst, val)
                elif k == 'setdiscr':
                    v = self.read_place(st, fid, s[1])
                    if isinstance(v, Enum):
                        vd = self.defs.variant_of_discr(v.ty, s[2])
                        if vd is None or vd[0] != v.variant:
                            raise Inconclusive('set_discriminant %d on %r' % (s[2], v))
                    else:
                        raise Inconclusive('set_discriminant on %r' % (v,))
                elif k == 'assume':
                    c = as_bool(self.operand(st, fid, s[1], fn))
                    st.pc.append(c)
                    if not self.feasible(st):
                        return
                else:
                    raise Inconclusive('unknown MIR statement: ' + s[1][:120])
            self.stats['steps'] += 1
            k = term[0]
            if k == 'goto':
                bb = term[1]
                continue
            if k == 'return':
                cont(st, st.store.get((fid, '_0'), unit()))
                return
            if k == 'switch':
                v = self.operand(st, fid, term[1], fn)
                targets, other = term[2], term[3]
                if isinstance(v, BV):
                    cv = z3.simplify(v.t)
                    if z3.is_bv_value(cv):
                        val = cv.as_long()
                        w = cv.size()
                        nxt = None
                        for kk, b in targets:
                            if (kk % (1 << w)) == val:
                                nxt = b
                                break
                        if nxt is None:
                            nxt = other
                        if nxt is None:
                            raise Inconclusive('switchInt without target for %d' % val)
                        bb = nxt
                        continue
                    conds = [(v.t == z3.BitVecVal(kk, v.t.size()), b) for kk, b in targets]
                    if other is not None:
                        conds.append((z3.And(*[v.t != z3.BitVecVal(kk, v.t.size()) for kk, _ in targets]), other))
                else:
                    bvv = z3.simplify(as_bool(v))
                    if z3.is_true(bvv) or z3.is_false(bvv):
                        val = 1 if z3.is_true(bvv) else 0
                        nxt = dict(targets).get(val, other)
                        if nxt is None:
                            raise Inconclusive('switchInt(bool) without target')
                        bb = nxt
                        continue
                    conds = []
                    seen = set()
                    for kk, b in targets:
                        conds.append((bvv if kk != 0 else z3.Not(bvv), b))
                        seen.add(1 if kk != 0 else 0)
                    if other is not None:
                        if 0 not in seen:
                            conds.append((z3.Not(bvv), other))
                        if 1 not in seen:
                            conds.append((bvv, other))
                live = []
                for c, b in conds:
                    if self.feasible(st, c):
                        live.append((c, b))
                if not live:
                    return
                self.stats['forks'] += len(live) - 1
                for i, (c, b) in enumerate(live):
                    s2 = st if i == len(live) - 1 else st.fork()
                    s2.pc.append(c)
                    self.exec_from(fn, fid, b, s2, cont, depth, [fuel[0]])
                return
            if k == 'assert':
                v = as_bool(self.operand(st, fid, term[2], fn))
                cond = z3.Not(v) if term[1] else v
                if self.feasible(st, z3.Not(cond)):
                    s_fail = st.fork()
                    s_fail.pc.append(z3.Not(cond))
                    self.event(s_fail, 'PANIC', 'assert: ' + term[3], fn.name[:80], bb)
                    cont(s_fail, PANIC)
                st.pc.append(cond)
                if not self.feasible(st):
                    return
                bb = term[4]
                continue
            if k == 'drop':
                bb = term[1]
                continue
            if k == 'call':
                dst, callee, ops, nxt = term[1], term[2], term[3], term[4]
                env = self.frame_env.get(fid)
                if env:
                    callee = subst_env(callee, env)
                args = [self.operand(st, fid, o, fn) for o in ops]
                dst_ty = fn.locals.get(dst[0]) if not dst[1] else None
                site = CallSite(callee, fn, bb, dst_ty)

                def k_after(st2, val, dst=dst, nxt=nxt):
                    if val is PANIC:
                        cont(st2, PANIC)
                        return
                    self.write_place(st2, fid, dst, val)
                    self.exec_from(fn, fid, nxt, st2, cont, depth, [fuel[0]])
                self.call(st, callee, args, k_after, depth, site)
                return
            if k == 'diverge':
                callee = term[1]
                msg = ''
                if term[2]:
                    try:
                        a0 = self.operand(st, fid, term[2][0], fn)
                        msg = repr(a0)[:80]
                    except Inconclusive:
                        pass
                self.event(st, 'PANIC', 'diverging call ' + strip_generics(callee)[:60] + ' ' + msg, fn.name[:80], bb)
                cont(st, PANIC)
                return
            if k in ('unreachable', 'resume'):
                self.event(st, 'UNREACHABLE', fn.name[:80], bb)
                raise Inconclusive('reached `%s` terminator in %s %s' % (k, fn.name[:60], bb))
            raise Inconclusive('unknown MIR terminator: ' + term[1][:160])

    # ------------------------------------------------------------------ calls
    def fninfo(self, fn):
        info = self._fninfo.get(id(fn))
        if info is None:
            name = fn.name
            ms = re.findall(r'<impl at (\S+?):(\d+):(\d+): \d+:\d+>', name)
            impl = (None, None)
            if ms:
                impl = self.defs.impl_header(ms[-1][0], int(ms[-1][1]), int(ms[-1][2]))
            selfty = None
            if fn.params:
                selfty = self.defs.tykey(re.sub(r"^&('\w+ )?(mut )?", '', fn.params[0][1]))
            info = {'impl_trait': impl[0], 'impl_ty': impl[1].split('::')[-1] if impl[1] else None, 'selfty': selfty}
            self._fninfo[id(fn)] = info
        return info

    def parse_callee(self, callee):
        """-> dict(kind, ty, trait, method)"""
        c = callee.strip()
        m = re.match(r'^<(.*) as ([^<>]*(?:<.*>)?)>::(\w+)(::<.*>)?$', c)
        if m and mir.balanced(m.group(1)):
            # split 'T as Trait' at top level
            inner = c[1:c.rindex('>::' + m.group(3))]
            depth = 0
            idx = None
            i = 0
            while i < len(inner):
                ch = inner[i]
                if ch in '<([{':
                    depth += 1
                elif ch in ')]}' or (ch == '>' and inner[i - 1] not in '-='):
                    depth -= 1
                elif depth == 0 and inner[i:i + 4] == ' as ':
                    idx = i
                i += 1
            if idx is not None:
                return {'kind': 'trait', 'ty': inner[:idx].strip(), 'trait': strip_generics(inner[idx + 4:]).split('::')[-1].strip(),
                        'method': m.group(3)}
        m = re.match(r'^(.*)::<impl ([^<>]+(?:<.*>)?)>::(\w+)(::<.*>)?$', c)
        if m:
            ty = strip_generics(m.group(2)).split('::')[-1]
            return {'kind': 'path', 'ty': ty, 'trait': None, 'method': m.group(3), 'segs': [m.group(1).split('::')[-1], ty, m.group(3)],
                    'modhint': m.group(1).split('::')[-1]}
        p = strip_generics(c)
        segs = p.split('::')
        return {'kind': 'path', 'ty': segs[-2] if len(segs) > 1 else None, 'trait': None, 'method': segs[-1], 'segs': segs}

    def resolve_local(self, callee, args, st):
        """find the walrus Fn a callee string denotes, or None"""
        pc = self.parse_callee(callee)
        meth = pc['method']
        cands = [f for f in self.by_last.get(meth, []) if f.kind == 'fn']
        if not cands:
            return None
        nargs = len(args)
        cands = [f for f in cands if len(f.params) == nargs]
        if not cands:
            return None
        if pc['kind'] == 'trait':
            ty = pc['ty']
            tkey = self.defs.tykey(re.sub(r"^&('\w+ )?(mut )?", '', ty))
            if re.fullmatch(r'[A-Z]\w?|impl .*|Self|dyn .*|\(dyn .*\)', ty.strip()) or tkey in self.dispatch_hint:
                # generic receiver: dispatch on hint or on the run-time value
                tkey = self.dispatch_hint.get(ty.strip(), self.dispatch_hint.get(tkey))
                if tkey is None and args:
                    v = self.deref(st, args[0])
                    if isinstance(v, (Struct, Enum)):
                        tkey = self.defs.tykey(v.ty)
            exact = [f for f in cands if self.fninfo(f)['impl_trait'] == pc['trait'] and self.fninfo(f)['impl_ty'] == tkey]
            if len(exact) > 1:
                segs_ = [x for x in strip_generics(re.sub(r"^&('\w+ )?(mut )?", '', ty)).split('::') if x]
                if len(segs_) > 1:
                    hinted = [f for f in exact if (segs_[-2] + '::<impl') in f.name]
                    if not hinted:
                        hinted = [f for f in exact if re.search(r'(^|::)%s::' % re.escape(segs_[-2]), f.name)]
                    if len(hinted) == 1:
                        exact = hinted
            if len(exact) == 1:
                return exact[0]
            # macro-generated impls: match on receiver type
            exact = [f for f in cands if '<impl at' in f.name and self.fninfo(f)['selfty'] == tkey
                     and self.fninfo(f)['impl_trait'] in (None, pc['trait'])]
            if len(exact) == 1:
                return exact[0]
            # default method of the trait
            dflt = [f for f in cands if re.search(r'(^|::)%s::%s$' % (re.escape(pc['trait']), re.escape(meth)), f.name)]
            if len(dflt) == 1:
                return dflt[0]
            return None
        segs = pc['segs']
        ty = pc['ty']
        if ty is None:
            exact = [f for f in cands if f.name == meth]
            return exact[0] if len(exact) == 1 else None
        # exact printed-name suffix (free functions, default trait methods, closures' parents)
        suffix = '::'.join(segs[-2:])
        exact = [f for f in cands if f.name == '::'.join(segs) or f.name.endswith('::' + suffix) or f.name == suffix]
        if len(exact) == 1:
            return exact[0]
        byimpl = [f for f in cands if self.fninfo(f)['impl_ty'] == ty and self.fninfo(f)['impl_trait'] is None]
        if len(byimpl) > 1 and pc.get('modhint'):
            byimpl = [f for f in byimpl if re.search(r'(^|::)%s::<impl' % re.escape(pc['modhint']), f.name)]
        if len(byimpl) == 1:
            return byimpl[0]
        byimpl = [f for f in cands if self.fninfo(f)['impl_ty'] == ty]
        if len(byimpl) == 1:
            return byimpl[0]
        byself = [f for f in cands if '<impl' in f.name and self.fninfo(f)['selfty'] == ty]
        if len(byself) == 1:
            return byself[0]
        return None

    def call(self, st, callee, args, cont, depth, site=None):
        for rx, handler, label in self.models:
            if rx.search(callee):
                r = handler(self, st, callee, args, cont, depth, site)
                if r is not NotImplemented:
                    self.models_used[label] = self.models_used.get(label, 0) + 1
                    self.stats['calls_modelled'] += 1
                    return
        key = None
        fn = self.resolve_local(callee, args, st)
        if fn is not None:
            self.pending_env = self.instantiation(fn, callee)
            self.run(fn, args, st, cont, depth + 1)
            return
        # `x.into()` where the target has a walrus `impl From<X> for Y` (e.g. the generated Instr conversions)
        m = re.match(r'^<(.*) as TryInto<(.*)>>::try_into$', callee)
        if m and args and isinstance(args[0], (Struct, Enum)):
            want = self.defs.tykey(args[0].ty)
            dst = self.defs.tykey(m.group(2))
            cands = [f for f in self.by_last.get('try_from', []) if len(f.params) == 1 and self.defs.tykey(f.params[0][1]) == want
                     and self.fninfo(f)['impl_ty'] == dst.split('::')[-1]]
            if len(cands) == 1:
                self.run(cands[0], args, st, cont, depth + 1)
                return
        m = re.match(r'^<(.*) as Into<(.*)>>::into$', callee)
        if m and args:
            v = args[0]
            if isinstance(v, BV) and v.ty.startswith('Id<'):
                kind = v.ty[3:-1]
                dst = self.defs.tykey(m.group(2))
                cands = [f for f in self.by_last.get('from', []) if len(f.params) == 1 and self.defs.tykey(f.ret) == dst
                         and re.search(r'Id<(\w+::)*%s>' % re.escape(kind), f.params[0][1])]
                if len(cands) == 1:
                    self.run(cands[0], args, st, cont, depth + 1)
                    return
                if dst == 'Id':
                    cont(st, v)
                    return
            if isinstance(v, (Struct, Enum)):
                want = self.defs.tykey(v.ty)
                dst = self.defs.tykey(m.group(2))
                cands = [f for f in self.by_last.get('from', []) if len(f.params) == 1
                         and self.defs.tykey(f.params[0][1]) == want and self.defs.tykey(f.ret) == dst]
                if len(cands) == 1:
                    self.run(cands[0], args, st, cont, depth + 1)
                    return
                if want == dst:
                    cont(st, v)
                    return
        raise Inconclusive('unmodelled call: ' + callee[:200])

    def _closure_value(self, ty, caps, parent_fn):
        cands = self.closures_all.get(ty, [])
        if len(cands) > 1:
            mine = [f for f in cands if f.name.startswith(parent_fn.name + '::{closure')]
            if len(mine) == 1:
                self.closure_of_parent[(ty, parent_fn.name)] = mine[0]
                return Struct(ty + '@@' + parent_fn.name, caps)
        return Struct(ty, caps)

    def pyclosure(self, f):
        k = len(self.pyclosures)
        self.pyclosures[k] = f
        return Struct('{pyclosure}', (k,))

    def method(self, name, selfty=None, nparams=None, impl_ty=None):
        """the unique crate function called `name` whose receiver (first parameter) has type key `selfty`"""
        c = [f for f in self.by_last.get(name, []) if f.kind == 'fn' and (selfty is None or self.fninfo(f)['selfty'] == selfty)
             and (nparams is None or len(f.params) == nparams) and (impl_ty is None or self.fninfo(f)['impl_ty'] == impl_ty)]
        if len(c) != 1:
            raise Inconclusive('method lookup %s on %s: %d candidates' % (name, selfty or impl_ty, len(c)))
        return c[0]

    def instantiation(self, fn, callee):
        """type-parameter environment of a generic impl method called through `callee`"""
        ms = re.findall(r'<impl at (\S+?):(\d+):(\d+): \d+:\d+>', fn.name)
        if not ms:
            return None
        params, self_args = self.defs.impl_generics(ms[-1][0], int(ms[-1][1]))
        if not params:
            return None
        pc = self.parse_callee(callee)
        if pc['kind'] == 'trait':
            actual = generic_args(pc['ty'])
        else:
            # Type::<A, B>::method -> generic args written right before the method name
            mm = re.match(r'^(.*)::(\w+)(::<.*>)?$', callee.strip())
            head = mm.group(1) if mm else callee
            actual = generic_args(head[head.rfind('::<') - 0:]) if head.endswith('>') and '::<' in head else []
            if head.endswith('>') and '::<' in head:
                # find the matching '<' of the trailing '>'
                depth_ = 0
                j = len(head) - 1
                while j >= 0:
                    if head[j] == '>' and head[j - 1] not in '-=':
                        depth_ += 1
                    elif head[j] == '<':
                        depth_ -= 1
                        if depth_ == 0:
                            break
                    j -= 1
                actual = generic_args(head[j:])
        env = {}
        for formal, act in zip(self_args, actual):
            if formal in params and not re.fullmatch(r'[A-Z]\w?', act):
                env[formal] = act
        return env or None

    def call_closure(self, st, clo, args, cont, depth):
        """clo: closure value (Struct with closure type), a Ref to one, or a FnItem"""
        v = clo
        if isinstance(v, Ref):
            v = self.deref(st, v)
        if isinstance(v, FnItem):
            self.call(st, v.path, list(args), cont, depth, None)
            return
        if isinstance(v, Struct) and v.ty == '{pyclosure}':
            # user code supplied by the harness (e.g. the body-building closure handed to an edit API)
            self.pyclosures[v.f[0]](self, st, list(args), cont, depth)
            return
        if not isinstance(v, Struct) or not v.ty.startswith('{closure@'):
            raise Inconclusive('call of non-closure %r' % (v,))
        if '@@' in v.ty:
            base, _, parent = v.ty.partition('@@')
            fn = self.closure_of_parent.get((base, parent))
            v = Struct(base, v.f)
        else:
            fn = self.closures.get(v.ty)
        if fn is None:
            raise Inconclusive('closure body not found: ' + v.ty)
        pty = fn.params[0][1]
        if pty.startswith('&'):
            env = clo if isinstance(clo, Ref) else self.halloc(st, v)
        else:
            env = v
        self.pending_env = self.clo_env.get(v.ty)
        self.run(fn, [env] + list(args), st, cont, depth + 1)


def subst_env(callee, env):
    for k, v in env.items():
        callee = re.sub(r'(?<![\w:])%s(?![\w:(])' % re.escape(k), v, callee)
    return callee


def run_in_big_stack(f):
    """run f() in a thread with a large stack (CPS interpretation recurses deeply); re-raises exceptions"""
    res = {}

    def tgt():
        try:
            res['v'] = f()
        except BaseException as e:   # noqa
            res['e'] = e
    threading.stack_size(1024 * 1024 * 1024)
    t = threading.Thread(target=tgt)
    t.start()
    t.join()
    if 'e' in res:
        raise res['e']
    return res.get('v')
