//! `vreplay codec-table`: wasm-encoder `Instruction` <-> wasmparser `Operator`
//! correspondence, computed by encoding marker instances and decoding them.

use crate::fields::{Alt, BlockAlt, MarkerSource};
use crate::gen_instrs::{self, Variant, VARIANTS};
use crate::opfields;
use serde_json::{json, Map, Value};
use std::panic::{catch_unwind, AssertUnwindSafe};
use wasm_encoder::Encode;
use wasmparser::{BinaryReader, WasmFeatures};

fn fields_to_json(fields: &[(String, String)]) -> Value {
    let mut m = Map::new();
    for (k, v) in fields {
        m.insert(k.clone(), Value::String(v.clone()));
    }
    Value::Object(m)
}

pub fn hex(bytes: &[u8]) -> String {
    let mut s = String::with_capacity(bytes.len() * 2);
    for b in bytes {
        s.push_str(&format!("{:02x}", b));
    }
    s
}

/// The marker alternatives for one variant, with the suffix of each.
fn alternatives(v: &Variant) -> Vec<(String, Alt)> {
    let has = |t: &str| v.fields.iter().any(|(_, ty)| *ty == t);
    let has_block = has("BlockType");
    let has_ref = has("ValType") || has("HeapType") || has("RefType");
    let has_ord = has("Ordering");
    let lane_with_memarg = has("MemArg") && has("Lane");

    let blocks: Vec<(&str, BlockAlt)> = if has_block {
        vec![
            ("#empty", BlockAlt::Empty),
            ("#result", BlockAlt::Result),
            ("#functype", BlockAlt::FuncType),
        ]
    } else {
        vec![("", BlockAlt::Empty)]
    };
    let refs: Vec<(&str, bool)> = if has_ref {
        vec![("", false), ("#externref", true)]
    } else {
        vec![("", false)]
    };
    let ords: Vec<(&str, bool)> = if has_ord {
        vec![("", false), ("#acqrel", true)]
    } else {
        vec![("", false)]
    };
    let mut out = Vec::new();
    for (bs, b) in &blocks {
        for (rs, r) in &refs {
            for (os, o) in &ords {
                out.push((
                    format!("{}{}{}", bs, rs, os),
                    Alt {
                        block: *b,
                        externref: *r,
                        acqrel: *o,
                        lane_with_memarg,
                    },
                ));
            }
        }
    }
    out
}

fn one_entry(v: &Variant, suffix: &str, alt: Alt) -> Value {
    let mut e = Map::new();
    e.insert("instruction".into(), json!(format!("{}{}", v.name, suffix)));
    e.insert(
        "instr_kind".into(),
        json!(match v.kind {
            gen_instrs::Kind::Unit => "unit",
            gen_instrs::Kind::Tuple => "tuple",
            gen_instrs::Kind::Struct => "struct",
        }),
    );

    let mut src = MarkerSource::new(alt);
    let built = gen_instrs::build(v.name, &mut src);
    let instr = match built {
        Ok(i) => i,
        Err(err) => {
            e.insert("operator".into(), Value::Null);
            e.insert("bytes".into(), json!(""));
            e.insert("instr_fields".into(), fields_to_json(&src.rendered));
            e.insert("op_fields".into(), json!({}));
            e.insert("ok".into(), json!(false));
            e.insert("error".into(), json!(format!("construct: {}", err)));
            return Value::Object(e);
        }
    };

    // the generated constructor must have built the variant it was asked for
    let instr_debug = format!("{:?}", instr);
    let instr_debug_name = instr_debug
        .split(|c: char| c == ' ' || c == '{' || c == '(')
        .next()
        .unwrap_or("");
    if instr_debug_name != v.name {
        e.insert("operator".into(), Value::Null);
        e.insert("bytes".into(), json!(""));
        e.insert("instr_fields".into(), fields_to_json(&src.rendered));
        e.insert("op_fields".into(), json!({}));
        e.insert("ok".into(), json!(false));
        e.insert(
            "error".into(),
            json!(format!("internal: generated constructor built `{}`", instr_debug_name)),
        );
        return Value::Object(e);
    }

    let mut bytes = Vec::new();
    instr.encode(&mut bytes);

    let mut reader = BinaryReader::new(&bytes, 0, WasmFeatures::all());
    let decoded = reader.read_operator();
    match decoded {
        Ok(op) => {
            let info = opfields::op_info(&op);
            let debug = format!("{:?}", op);
            let debug_name = debug
                .split(|c: char| c == ' ' || c == '{' || c == '(')
                .next()
                .unwrap_or("")
                .to_string();
            let consumed = reader.original_position();
            let mut error: Option<String> = None;
            if debug_name != info.name {
                error = Some(format!(
                    "internal: Debug name `{}` != macro name `{}`",
                    debug_name, info.name
                ));
            }
            if !reader.eof() {
                error = Some(format!(
                    "decoder consumed {} of {} bytes",
                    consumed,
                    bytes.len()
                ));
            }
            let mut iv: Vec<&String> = src.rendered.iter().map(|(_, v)| v).collect();
            let mut ov: Vec<&String> = info.fields.iter().map(|(_, v)| v).collect();
            iv.sort();
            ov.sort();
            e.insert("operator".into(), json!(info.name));
            e.insert("proposal".into(), json!(info.proposal));
            e.insert("bytes".into(), json!(hex(&bytes)));
            e.insert("instr_fields".into(), fields_to_json(&src.rendered));
            e.insert("op_fields".into(), fields_to_json(&info.fields));
            e.insert("op_debug".into(), json!(debug));
            e.insert("name_match".into(), json!(info.name == v.name));
            e.insert("values_match".into(), json!(iv == ov));
            e.insert("ok".into(), json!(error.is_none()));
            if let Some(err) = error {
                e.insert("error".into(), json!(err));
            }
        }
        Err(err) => {
            e.insert("operator".into(), Value::Null);
            e.insert("bytes".into(), json!(hex(&bytes)));
            e.insert("instr_fields".into(), fields_to_json(&src.rendered));
            e.insert("op_fields".into(), json!({}));
            e.insert("ok".into(), json!(false));
            e.insert("error".into(), json!(format!("decode: {}", err)));
        }
    }
    Value::Object(e)
}

pub fn codec_table() -> Value {
    let mut entries = Vec::new();
    let mut covered = 0usize;
    for v in VARIANTS.iter() {
        covered += 1;
        for (suffix, alt) in alternatives(v) {
            let r = catch_unwind(AssertUnwindSafe(|| one_entry(v, &suffix, alt)));
            match r {
                Ok(e) => entries.push(e),
                Err(p) => entries.push(json!({
                    "instruction": format!("{}{}", v.name, suffix),
                    "operator": Value::Null,
                    "bytes": "",
                    "instr_fields": {},
                    "op_fields": {},
                    "ok": false,
                    "error": format!("panic: {}", crate::panic_message(&p)),
                })),
            }
        }
    }
    let ok = entries.iter().filter(|e| e["ok"] == json!(true)).count();
    assert_eq!(covered, gen_instrs::VARIANT_COUNT);
    json!({
        "variants": covered,
        "operators": opfields::OPERATOR_COUNT,
        "entries_total": entries.len(),
        "entries_ok": ok,
        "source": gen_instrs::SOURCE,
        "source_sha256": gen_instrs::SOURCE_SHA256,
        "marker_notes": [
            "u32 fields take 3,5,7,11,13,.. in field order (list fields consume one marker per element)",
            "lane=1; MemArg align=1 offset=19088743 memory_index=2",
            "EXCEPTION: the 8 V128{Load,Store}{8,16,32,64}Lane ops use MemArg align=3 so that align != lane (wasm-encoder asserts lane < lane count when encoding, so the lane marker has to stay 1)",
            "ValType/RefType/HeapType fields alternate funcref,externref (#externref entries: externref,funcref); Ordering is seqcst (#acqrel entries: acqrel)",
            "ok = constructed, encoded, decoded, and the decoder consumed every byte; name_match / values_match are informational",
        ],
        "entries": entries,
    })
}
