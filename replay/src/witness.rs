//! Shared JSON helpers: the `{"instruction": .., "fields": {..}}` witness
//! format (used by `op-roundtrip`, `build` and `script`) and lenient numbers.

use crate::fields::{parse_u64, MapSource};
use crate::gen_instrs;
use serde_json::Value;
use std::collections::BTreeMap;
use wasm_encoder::Instruction;

pub fn value_to_field_string(v: &Value) -> Result<String, String> {
    match v {
        Value::String(s) => Ok(s.clone()),
        Value::Number(n) => Ok(n.to_string()),
        Value::Bool(b) => Ok(b.to_string()),
        Value::Array(a) => {
            let mut parts = Vec::new();
            for x in a {
                parts.push(value_to_field_string(x)?);
            }
            Ok(format!("[{}]", parts.join(", ")))
        }
        other => Err(format!("unsupported field value {}", other)),
    }
}

pub struct Built {
    pub name: String,
    pub instr: Instruction<'static>,
    pub src: MapSource,
}

/// Build a `wasm_encoder::Instruction` from `{"instruction": name, "fields": {..}}`.
/// Every field of the variant is required and unknown fields are rejected.
/// `extra_keys` are additional top-level keys the caller tolerates.
pub fn parse_instruction(v: &Value, extra_keys: &[&str]) -> Result<Built, String> {
    let obj = v
        .as_object()
        .ok_or_else(|| format!("instruction must be a JSON object, got {}", v))?;
    for k in obj.keys() {
        if k != "instruction" && k != "fields" && !extra_keys.contains(&k.as_str()) {
            return Err(format!("unknown key `{}` in instruction object", k));
        }
    }
    let name = obj
        .get("instruction")
        .and_then(|v| v.as_str())
        .ok_or("instruction object needs a string `instruction`")?;
    // tolerate the "#suffix" used in codec-table entry names
    let name = name.split('#').next().unwrap_or(name).to_string();
    let mut map = BTreeMap::new();
    match obj.get("fields") {
        None | Some(Value::Null) => {}
        Some(f) => {
            let f = f.as_object().ok_or("`fields` must be an object")?;
            for (k, v) in f {
                map.insert(
                    k.clone(),
                    value_to_field_string(v).map_err(|e| format!("{}: field `{}`: {}", name, k, e))?,
                );
            }
        }
    }
    if !gen_instrs::VARIANTS.iter().any(|v| v.name == name) {
        return Err(format!("unknown wasm_encoder::Instruction variant `{}`", name));
    }
    let mut src = MapSource::new(map);
    let instr = gen_instrs::build(&name, &mut src).map_err(|e| format!("cannot build {}: {}", name, e))?;
    let unused = src.unused_keys();
    if !unused.is_empty() {
        return Err(format!(
            "{} does not have field(s) {:?} (expected: {:?})",
            name,
            unused,
            src.rendered.iter().map(|(k, _)| k.clone()).collect::<Vec<_>>()
        ));
    }
    Ok(Built { name, instr, src })
}

// ---- lenient scalars -------------------------------------------------------

pub fn as_u64(v: &Value, what: &str) -> Result<u64, String> {
    match v {
        Value::Number(n) => n
            .as_u64()
            .ok_or_else(|| format!("{}: `{}` is not an unsigned integer", what, n)),
        Value::String(s) => parse_u64(s).map_err(|e| format!("{}: {}", what, e)),
        other => Err(format!("{}: expected a number or decimal string, got {}", what, other)),
    }
}

pub fn as_u32(v: &Value, what: &str) -> Result<u32, String> {
    u32::try_from(as_u64(v, what)?).map_err(|_| format!("{}: does not fit in u32", what))
}

pub fn opt<'a>(o: &'a serde_json::Map<String, Value>, k: &str) -> Option<&'a Value> {
    match o.get(k) {
        None | Some(Value::Null) => None,
        Some(v) => Some(v),
    }
}

pub fn req<'a>(o: &'a serde_json::Map<String, Value>, k: &str, what: &str) -> Result<&'a Value, String> {
    opt(o, k).ok_or_else(|| format!("{}: missing `{}`", what, k))
}

pub fn opt_bool(o: &serde_json::Map<String, Value>, k: &str, what: &str) -> Result<bool, String> {
    match opt(o, k) {
        None => Ok(false),
        Some(Value::Bool(b)) => Ok(*b),
        Some(other) => Err(format!("{}: `{}` must be a boolean, got {}", what, k, other)),
    }
}

pub fn opt_u64(o: &serde_json::Map<String, Value>, k: &str, what: &str) -> Result<Option<u64>, String> {
    match opt(o, k) {
        None => Ok(None),
        Some(v) => as_u64(v, &format!("{}.{}", what, k)).map(Some),
    }
}

pub fn req_str<'a>(o: &'a serde_json::Map<String, Value>, k: &str, what: &str) -> Result<&'a str, String> {
    req(o, k, what)?
        .as_str()
        .ok_or_else(|| format!("{}: `{}` must be a string", what, k))
}

pub fn as_obj<'a>(v: &'a Value, what: &str) -> Result<&'a serde_json::Map<String, Value>, String> {
    v.as_object().ok_or_else(|| format!("{}: expected an object", what))
}

pub fn as_arr<'a>(v: &'a Value, what: &str) -> Result<&'a Vec<Value>, String> {
    v.as_array().ok_or_else(|| format!("{}: expected an array", what))
}

pub fn parse_hex(s: &str, what: &str) -> Result<Vec<u8>, String> {
    let t: String = s.chars().filter(|c| !c.is_whitespace()).collect();
    if t.len() % 2 != 0 {
        return Err(format!("{}: odd number of hex digits", what));
    }
    (0..t.len())
        .step_by(2)
        .map(|i| u8::from_str_radix(&t[i..i + 2], 16).map_err(|e| format!("{}: bad hex: {}", what, e)))
        .collect()
}
