//! `vreplay dwarf <script.json>`: native check of walrus' DWARF address remapping.
//!
//! All addresses are relative to the START OF THE CODE SECTION BODY (the byte
//! where the function-count LEB begins), which is the DWARF-for-wasm convention.

use crate::roundtrip::LAST_PANIC_LOCATION;
use crate::witness::*;
use gimli::write::{Address, AttributeValue, DwarfUnit, EndianVec, LineProgram, LineString, Sections};
use gimli::{Encoding, Format, LittleEndian};
use serde_json::{json, Map, Value};
use std::collections::{BTreeMap, HashMap};
use std::panic::{catch_unwind, AssertUnwindSafe};
use std::path::Path;
use wasmparser::{Parser, Payload, WasmFeatures};

const TOMBSTONE: u64 = 0xFFFF_FFFF;
const LIST_LIMIT: usize = 10;

#[derive(Clone, Debug)]
pub struct FuncLayout {
    pub entry_start: u64,
    pub body_start: u64,
    pub entry_end: u64,
    /// (offset, Debug string)
    pub ops: Vec<(u64, String)>,
    pub decode_error: Option<String>,
}

fn op_name(debug: &str) -> &str {
    debug
        .split(|c: char| c == ' ' || c == '{' || c == '(')
        .next()
        .unwrap_or("")
}

fn leb_len(mut v: u64) -> u64 {
    let mut n = 1;
    while v >= 128 {
        v >>= 7;
        n += 1;
    }
    n
}

/// Code-section layout.  Errors are returned, never panics.
pub fn layout(wasm: &[u8]) -> Result<Vec<FuncLayout>, String> {
    let mut base: Option<u64> = None;
    let mut funcs = Vec::new();
    let mut parser = Parser::new(0);
    parser.set_features(WasmFeatures::all());
    for p in parser.parse_all(wasm) {
        match p.map_err(|e| format!("{} (at offset 0x{:x})", e.message(), e.offset()))? {
            Payload::CodeSectionStart { range, .. } => base = Some(range.start as u64),
            Payload::CodeSectionEntry(body) => {
                let base = base.ok_or("code entry before code section start")?;
                let r = body.range();
                let size = (r.end - r.start) as u64;
                // The size LEB directly precedes the body.  It is minimal for
                // wasm-encoder/walrus output; measure a padded LEB by scanning back.
                let mut n = leb_len(size);
                {
                    // verify (and fix up for over-long LEBs) by decoding backwards
                    let mut k = 1u64;
                    while k <= 5 && (r.start as u64) >= k {
                        let s = r.start - k as usize;
                        let mut v: u64 = 0;
                        let mut ok = true;
                        for (i, b) in wasm[s..r.start].iter().enumerate() {
                            v |= ((b & 0x7f) as u64) << (7 * i);
                            let last = i + 1 == k as usize;
                            if ((b & 0x80) != 0) == last {
                                ok = false;
                                break;
                            }
                        }
                        if ok && v == size {
                            n = k;
                            break;
                        }
                        k += 1;
                    }
                }
                let mut ops = Vec::new();
                let mut decode_error = None;
                match body.get_operators_reader() {
                    Ok(mut rd) => {
                        while !rd.eof() {
                            let pos = rd.original_position() as u64;
                            match rd.read() {
                                Ok(op) => ops.push((pos - base, format!("{:?}", op))),
                                Err(e) => {
                                    decode_error = Some(e.to_string());
                                    break;
                                }
                            }
                        }
                    }
                    Err(e) => decode_error = Some(e.to_string()),
                }
                funcs.push(FuncLayout {
                    entry_start: r.start as u64 - n - base,
                    body_start: r.start as u64 - base,
                    entry_end: r.end as u64 - base,
                    ops,
                    decode_error,
                });
            }
            _ => {}
        }
    }
    Ok(funcs)
}

fn layout_json(funcs: &[FuncLayout]) -> Value {
    json!({
        "funcs": funcs.iter().enumerate().map(|(i, f)| json!({
            "ordinal": i,
            "entry_start": f.entry_start,
            "body_start": f.body_start,
            "entry_end": f.entry_end,
            "ops": f.ops.iter().map(|(o, d)| json!([o, d])).collect::<Vec<_>>(),
            "decode_error": f.decode_error,
        })).collect::<Vec<_>>()
    })
}

fn leb(v: &mut Vec<u8>, mut x: u64) {
    loop {
        let b = (x & 0x7f) as u8;
        x >>= 7;
        if x == 0 {
            v.push(b);
            break;
        }
        v.push(b | 0x80);
    }
}

fn add_custom(wasm: &mut Vec<u8>, name: &str, data: &[u8]) {
    let mut payload = vec![];
    leb(&mut payload, name.len() as u64);
    payload.extend_from_slice(name.as_bytes());
    payload.extend_from_slice(data);
    wasm.push(0);
    leb(wasm, payload.len() as u64);
    wasm.extend_from_slice(&payload);
}

fn read_uleb(b: &[u8], pos: &mut usize) -> Option<u64> {
    let mut v = 0u64;
    let mut shift = 0;
    loop {
        let byte = *b.get(*pos)?;
        *pos += 1;
        if shift < 64 {
            v |= ((byte & 0x7f) as u64) << shift;
        }
        shift += 7;
        if byte & 0x80 == 0 {
            return Some(v);
        }
    }
}

/// gimli::write 0.26 cannot express "file index 0" (DWARF 5), so the rows are
/// written with a marker file id and every `DW_LNS_set_file <marker>` in the
/// encoded line program is patched to `DW_LNS_set_file 0`.  Returns the number
/// of patched opcodes.
fn patch_set_file_zero(debug_line: &mut [u8], marker: u64) -> Result<usize, String> {
    let (prog_off, opcode_base, lengths): (usize, u8, Vec<u8>) = {
        let section = gimli::EndianSlice::new(&*debug_line, LittleEndian);
        let dl = gimli::DebugLine::new(&*debug_line, LittleEndian);
        let program = dl
            .program(gimli::DebugLineOffset(0), 4, None, None)
            .map_err(|e| format!("re-reading .debug_line: {}", e))?;
        let h = program.header();
        (
            h.raw_program_buf().offset_from(section),
            h.opcode_base(),
            h.standard_opcode_lengths().slice().to_vec(),
        )
    };
    let mut pos = prog_off;
    let mut patched = 0;
    while pos < debug_line.len() {
        let op = debug_line[pos];
        pos += 1;
        if op == 0 {
            let len = read_uleb(debug_line, &mut pos).ok_or("truncated extended opcode")? as usize;
            pos += len;
        } else if op >= opcode_base {
            // special opcode: no operands
        } else if op == 9 {
            pos += 2; // DW_LNS_fixed_advance_pc: u16
        } else {
            let nargs = *lengths.get(op as usize - 1).unwrap_or(&0);
            for a in 0..nargs {
                let at = pos;
                let v = read_uleb(debug_line, &mut pos).ok_or("truncated standard opcode")?;
                if op == 4 && a == 0 && v == marker {
                    if pos - at != 1 {
                        return Err("marker file id does not fit in one LEB byte".into());
                    }
                    debug_line[at] = 0;
                    patched += 1;
                }
            }
        }
    }
    Ok(patched)
}

struct Synth {
    wasm: Vec<u8>,
    notes: Vec<String>,
}

fn synthesize(
    wasm: &[u8],
    funcs: &[FuncLayout],
    version: u16,
    file0: bool,
    on_size_leb: bool,
) -> Result<Synth, String> {
    let mut notes = Vec::new();
    let encoding = Encoding {
        format: Format::Dwarf32,
        version,
        address_size: 4,
    };
    let mut dwarf = DwarfUnit::new(encoding);
    let comp_dir = LineString::String(b"/src".to_vec());
    let comp_file = LineString::String(b"a.c".to_vec());
    let mut program = LineProgram::new(encoding, gimli::LineEncoding::default(), comp_dir, comp_file, None);
    let dir = program.default_directory();
    let file_b = program.add_file(LineString::String(b"b.c".to_vec()), dir, None);
    let use_file0 = file0 && version >= 5;
    if file0 && version < 5 {
        notes.push("file0 ignored: DWARF version < 5 has no file index 0".to_string());
    }
    // marker file: its set_file opcodes are patched to index 0 afterwards
    let file_marker = if use_file0 {
        Some(program.add_file(LineString::String(b"zero-marker.c".to_vec()), dir, None))
    } else {
        None
    };
    for (fi, f) in funcs.iter().enumerate() {
        let base = if on_size_leb { f.entry_start } else { f.body_start };
        program.begin_sequence(Some(Address::Constant(base)));
        for (k, (off, _)) in f.ops.iter().enumerate() {
            program.row().address_offset = off.saturating_sub(base);
            program.row().line = 1000 * (fi as u64 + 1) + k as u64;
            program.row().file = file_marker.unwrap_or(file_b);
            program.generate_row();
        }
        program.end_sequence(f.entry_end.saturating_sub(base));
    }
    dwarf.unit.line_program = program;
    let root = dwarf.unit.root();
    dwarf
        .unit
        .get_mut(root)
        .set(gimli::DW_AT_name, AttributeValue::String(b"a.c".to_vec()));
    dwarf
        .unit
        .get_mut(root)
        .set(gimli::DW_AT_low_pc, AttributeValue::Address(Address::Constant(0)));
    for (fi, f) in funcs.iter().enumerate() {
        let base = if on_size_leb { f.entry_start } else { f.body_start };
        let sp = dwarf.unit.add(root, gimli::DW_TAG_subprogram);
        let e = dwarf.unit.get_mut(sp);
        e.set(gimli::DW_AT_name, AttributeValue::String(format!("f{}", fi).into_bytes()));
        e.set(gimli::DW_AT_low_pc, AttributeValue::Address(Address::Constant(base)));
        e.set(gimli::DW_AT_high_pc, AttributeValue::Udata(f.entry_end.saturating_sub(base)));
    }
    let mut sections = Sections::new(EndianVec::new(LittleEndian));
    dwarf.write(&mut sections).map_err(|e| format!("gimli::write: {}", e))?;

    let mut out = wasm.to_vec();
    let mut err: Option<String> = None;
    sections
        .for_each(|id, data| {
            let mut bytes = data.slice().to_vec();
            if bytes.is_empty() {
                return Ok::<(), ()>(());
            }
            if id == gimli::SectionId::DebugLine && use_file0 {
                // FileId raw value = index + 1; b.c is 1, the marker is 2
                match patch_set_file_zero(&mut bytes, 2) {
                    Ok(n) => notes.push(format!("file0: patched {} DW_LNS_set_file opcodes to file index 0", n)),
                    Err(e) => err = Some(e),
                }
            }
            add_custom(&mut out, id.name(), &bytes);
            Ok(())
        })
        .ok();
    if let Some(e) = err {
        return Err(e);
    }
    Ok(Synth { wasm: out, notes })
}

#[derive(Default)]
struct ReadBack {
    /// (address, line, end_sequence, file index)
    rows: Vec<(u64, u64, bool, u64)>,
    /// (name, low_pc, high_pc, high_pc_is_offset)
    subprograms: Vec<(Option<String>, Option<u64>, Option<u64>, bool)>,
    sections: Vec<(String, usize)>,
    error: Option<String>,
}

fn read_dwarf(wasm: &[u8]) -> ReadBack {
    let mut rb = ReadBack::default();
    let mut secs: HashMap<String, Vec<u8>> = HashMap::new();
    for p in Parser::new(0).parse_all(wasm) {
        match p {
            Ok(Payload::CustomSection(c)) => {
                if c.name().starts_with(".debug") {
                    rb.sections.push((c.name().to_string(), c.data().len()));
                    secs.insert(c.name().to_string(), c.data().to_vec());
                }
            }
            Ok(_) => {}
            Err(e) => {
                rb.error = Some(format!("wasm: {}", e));
                return rb;
            }
        }
    }
    let r = (|| -> Result<(), gimli::Error> {
        let load = |id: gimli::SectionId| -> Result<Vec<u8>, gimli::Error> {
            Ok(secs.get(id.name()).cloned().unwrap_or_default())
        };
        let owned = gimli::Dwarf::load(load)?;
        let d = owned.borrow(|s| gimli::EndianSlice::new(s, LittleEndian));
        let mut units = d.units();
        while let Some(h) = units.next()? {
            let unit = d.unit(h)?;
            if let Some(p) = unit.line_program.clone() {
                let mut r = p.rows();
                while let Some((_, row)) = r.next_row()? {
                    rb.rows.push((
                        row.address(),
                        row.line().map(|l| l.get()).unwrap_or(0),
                        row.end_sequence(),
                        row.file_index(),
                    ));
                }
            }
            let mut entries = unit.entries();
            while let Some((_, e)) = entries.next_dfs()? {
                if e.tag() != gimli::DW_TAG_subprogram {
                    continue;
                }
                let name = match e.attr_value(gimli::DW_AT_name)? {
                    Some(v) => d
                        .attr_string(&unit, v)
                        .ok()
                        .map(|s| String::from_utf8_lossy(s.slice()).into_owned()),
                    None => None,
                };
                let low = match e.attr_value(gimli::DW_AT_low_pc)? {
                    Some(v) => d.attr_address(&unit, v)?,
                    None => None,
                };
                let (high, is_off) = match e.attr_value(gimli::DW_AT_high_pc)? {
                    Some(gimli::AttributeValue::Udata(u)) => (Some(u), true),
                    Some(gimli::AttributeValue::Data1(u)) => (Some(u as u64), true),
                    Some(gimli::AttributeValue::Data2(u)) => (Some(u as u64), true),
                    Some(gimli::AttributeValue::Data4(u)) => (Some(u as u64), true),
                    Some(gimli::AttributeValue::Data8(u)) => (Some(u), true),
                    Some(v) => (d.attr_address(&unit, v)?, false),
                    None => (None, true),
                };
                rb.subprograms.push((name, low, high, is_off));
            }
        }
        Ok(())
    })();
    if let Err(e) = r {
        rb.error = Some(format!("gimli::read: {}", e));
    }
    rb
}

fn rows_json(rb: &ReadBack) -> Value {
    Value::Array(rb.rows.iter().map(|(a, l, e, _)| json!([a, l, e])).collect())
}

fn subs_json(rb: &ReadBack) -> Value {
    Value::Array(
        rb.subprograms
            .iter()
            .map(|(n, lo, hi, off)| json!({"name": n, "low_pc": lo, "high_pc": hi, "high_pc_is_offset": off}))
            .collect(),
    )
}

fn file_indices(rb: &ReadBack) -> Value {
    let mut v: Vec<u64> = rb.rows.iter().filter(|r| !r.2).map(|r| r.3).collect();
    v.sort();
    v.dedup();
    json!(v)
}

/// Match input functions to output functions by their operator-name sequence
/// (ignoring Nop); identical bodies are matched in order.
fn match_functions(fin: &[FuncLayout], fout: &[FuncLayout]) -> Vec<Option<usize>> {
    let sig = |f: &FuncLayout| -> Vec<String> {
        f.ops
            .iter()
            .map(|(_, d)| op_name(d).to_string())
            .filter(|n| n != "Nop")
            .collect()
    };
    let out_sigs: Vec<Vec<String>> = fout.iter().map(sig).collect();
    let mut used = vec![false; fout.len()];
    let mut map: Vec<Option<usize>> = fin
        .iter()
        .map(|f| {
            let s = sig(f);
            for (j, os) in out_sigs.iter().enumerate() {
                if !used[j] && *os == s {
                    used[j] = true;
                    return Some(j);
                }
            }
            None
        })
        .collect();
    // second pass (walrus drops dead code and writes an explicit empty `else`): the output operators, `else`s aside,
    // are a subsequence of the input operators and both bodies start with the very same operator
    let subseq = |small: &[String], big: &[String]| -> bool {
        let mut it = big.iter();
        small.iter().all(|x| it.any(|y| y == x))
    };
    for (i, f) in fin.iter().enumerate() {
        if map[i].is_some() {
            continue;
        }
        let s: Vec<String> = sig(f).into_iter().filter(|n| n != "Else").collect();
        let cands: Vec<usize> = (0..fout.len())
            .filter(|j| !used[*j])
            .filter(|j| {
                let os: Vec<String> = out_sigs[*j].iter().filter(|n| *n != "Else").cloned().collect();
                subseq(&os, &s) && fout[*j].ops.first().map(|o| &o.1) == f.ops.first().map(|o| &o.1)
            })
            .collect();
        if cands.len() == 1 {
            used[cands[0]] = true;
            map[i] = Some(cands[0]);
        }
    }
    map
}

fn checks(
    fin: &[FuncLayout],
    fout: &[FuncLayout],
    rin: &ReadBack,
    rout: &ReadBack,
    on_size_leb: bool,
) -> Value {
    let fmap = match_functions(fin, fout);

    // line -> (function ordinal, operator ordinal), exactly as generated
    let mut line_to_op: BTreeMap<u64, (usize, usize)> = BTreeMap::new();
    for (fi, f) in fin.iter().enumerate() {
        for k in 0..f.ops.len() {
            line_to_op.entry(1000 * (fi as u64 + 1) + k as u64).or_insert((fi, k));
        }
    }
    let out_op_at: HashMap<u64, &str> = fout
        .iter()
        .flat_map(|f| f.ops.iter().map(|(o, d)| (*o, d.as_str())))
        .collect();

    let mut row_mismatches = Vec::new();
    let mut n_row_mismatches = 0usize;
    let mut tombstoned = 0usize;
    for (addr, line, end, _) in &rout.rows {
        if *end {
            continue;
        }
        if *addr == TOMBSTONE {
            tombstoned += 1;
            continue;
        }
        let expected = line_to_op.get(line).map(|(f, k)| fin[*f].ops[*k].1.as_str());
        let found = out_op_at.get(addr).copied();
        let ok = match (expected, found) {
            // the `end` of an else-less `if` is keyed to both the explicit empty `else` walrus writes and the `end`
            (Some(e), Some(f)) => op_name(e) == op_name(f) || (op_name(e) == "End" && op_name(f) == "Else"),
            _ => false,
        };
        if !ok {
            n_row_mismatches += 1;
            if row_mismatches.len() < LIST_LIMIT {
                row_mismatches.push(json!({
                    "line": line,
                    "out_addr": addr,
                    "expected_op": expected.map(|s| s.to_string()).unwrap_or_else(|| "<line not generated for the input>".into()),
                    "found": found.map(|s| s.to_string()).unwrap_or_else(|| "no operator starts at address".into()),
                }));
            }
        }
    }

    // rows lost
    let out_lines: std::collections::HashSet<u64> = rout.rows.iter().filter(|r| !r.2).map(|r| r.1).collect();
    let mut rows_lost = Vec::new();
    let mut n_rows_lost = 0usize;
    let mut n_rows_lost_non_nop = 0usize;
    for (addr, line, end, _) in &rin.rows {
        if *end || out_lines.contains(line) {
            continue;
        }
        let Some((f, k)) = line_to_op.get(line) else { continue };
        if let Some(j) = fmap[*f] {
            n_rows_lost += 1;
            if op_name(&fin[*f].ops[*k].1) != "Nop" {
                n_rows_lost_non_nop += 1;
            }
            if rows_lost.len() < LIST_LIMIT {
                rows_lost.push(json!({
                    "line": line,
                    "in_addr": addr,
                    "in_func": f,
                    "out_func": j,
                    "op": fin[*f].ops[*k].1,
                }));
            }
        }
    }

    // subprograms
    let mut sub_mismatches = Vec::new();
    let mut n_sub = 0usize;
    let mut n_sub_inexact = 0usize;
    for (name, low, high, is_off) in &rout.subprograms {
        let idx = name
            .as_deref()
            .and_then(|n| n.strip_prefix('f'))
            .and_then(|n| n.parse::<usize>().ok())
            .filter(|i| *i < fin.len());
        let Some(i) = idx else {
            n_sub += 1;
            if sub_mismatches.len() < LIST_LIMIT {
                sub_mismatches.push(json!({"name": name, "low_pc": low, "high_pc": high,
                    "expected_low": Value::Null, "expected_end": Value::Null,
                    "note": "subprogram name is not f<ordinal of an input function>"}));
            }
            continue;
        };
        let end = match (low, high, is_off) {
            (Some(l), Some(h), true) => Some(l.wrapping_add(*h)),
            (_, Some(h), false) => Some(*h),
            _ => None,
        };
        match fmap[i] {
            Some(j) => {
                let exp_low = if on_size_leb { fout[j].entry_start } else { fout[j].body_start };
                let exp_end = fout[j].entry_end;
                // the range must cover every instruction of the function and nothing of another one: it starts
                // inside the function's own entry, at or before the first instruction, and ends at the entry end
                let first_op = fout[j].ops.first().map(|o| o.0).unwrap_or(exp_low);
                let low_ok = matches!(low, Some(l) if *l >= fout[j].entry_start && *l <= first_op);
                if *low != Some(exp_low) || end != Some(exp_end) {
                    n_sub_inexact += 1;
                }
                if !low_ok || end != Some(exp_end) {
                    n_sub += 1;
                    if sub_mismatches.len() < LIST_LIMIT {
                        sub_mismatches.push(json!({"name": name, "low_pc": low, "high_pc": high,
                            "expected_low": exp_low, "expected_end": exp_end, "out_func": j}));
                    }
                }
            }
            None => {
                if !(*low == Some(TOMBSTONE) || *low == Some(0)) {
                    n_sub += 1;
                    if sub_mismatches.len() < LIST_LIMIT {
                        sub_mismatches.push(json!({"name": name, "low_pc": low, "high_pc": high,
                            "expected_low": "0xFFFFFFFF or 0 (function not in output)", "expected_end": Value::Null}));
                    }
                }
            }
        }
    }
    // subprograms that disappeared entirely
    let out_names: std::collections::HashSet<&str> =
        rout.subprograms.iter().filter_map(|s| s.0.as_deref()).collect();
    let missing: Vec<String> = rin
        .subprograms
        .iter()
        .filter_map(|s| s.0.clone())
        .filter(|n| !out_names.contains(n.as_str()))
        .collect();

    json!({
        "function_map": fmap.iter().enumerate().map(|(i, j)| json!({"in": i, "out": j})).collect::<Vec<_>>(),
        "row_mismatches": row_mismatches,
        "rows_lost": rows_lost,
        "rows_tombstoned": tombstoned,
        "subprogram_mismatches": sub_mismatches,
        "subprograms_missing_in_output": missing,
        "file_indices_in": file_indices(rin),
        "file_indices_out": file_indices(rout),
        "summary": {
            "rows_in": rin.rows.len(),
            "rows_out": rout.rows.len(),
            "row_mismatches": n_row_mismatches,
            "rows_lost": n_rows_lost,
            // walrus drops `nop`s, so their rows cannot survive; this counts the others
            "rows_lost_non_nop": n_rows_lost_non_nop,
            "rows_tombstoned": tombstoned,
            "subprogram_mismatches": n_sub,
            "subprogram_inexact": n_sub_inexact,
        },
    })
}

pub fn run(script_path: &str) -> Result<Value, String> {
    let text = std::fs::read_to_string(script_path).map_err(|e| format!("cannot read {}: {}", script_path, e))?;
    let script: Value = serde_json::from_str(&text).map_err(|e| format!("{}: bad JSON: {}", script_path, e))?;
    let s = as_obj(&script, "script")?;
    for k in s.keys() {
        if !["spec", "input", "version", "gc", "file0", "low_pc_on_size_leb"].contains(&k.as_str()) {
            return Err(format!("unknown script key `{}`", k));
        }
    }
    let resolve = |p: &str| {
        let path = Path::new(p).to_path_buf();
        if !path.exists() && path.is_relative() {
            if let Some(dir) = Path::new(script_path).parent() {
                return dir.join(p);
            }
        }
        path
    };
    let wasm: Vec<u8> = match (opt(s, "input"), opt(s, "spec")) {
        (Some(_), Some(_)) => return Err("give either `input` or `spec`, not both".into()),
        (None, None) => return Err("script needs `input` (path) or `spec` (module description)".into()),
        (None, Some(Value::String(p))) => {
            let path = resolve(p);
            let text =
                std::fs::read_to_string(&path).map_err(|e| format!("cannot read {}: {}", path.display(), e))?;
            let spec: Value =
                serde_json::from_str(&text).map_err(|e| format!("{}: bad JSON: {}", path.display(), e))?;
            crate::mkmod::build_from_spec(&spec)?
        }
        (None, Some(spec)) => crate::mkmod::build_from_spec(spec)?,
        (Some(p), None) => {
            let p = p.as_str().ok_or("`input` must be a path string")?;
            let path = resolve(p);
            let raw = std::fs::read(&path).map_err(|e| format!("cannot read {}: {}", path.display(), e))?;
            if p.ends_with(".wat") || p.ends_with(".wast") {
                wat::parse_bytes(&raw)
                    .map_err(|e| format!("cannot parse {} as wat: {}", path.display(), e))?
                    .into_owned()
            } else {
                raw
            }
        }
    };
    let version = match opt(s, "version") {
        None => 4,
        Some(v) => as_u64(v, "version")?,
    };
    if version != 4 && version != 5 {
        return Err("`version` must be 4 or 5".into());
    }
    let gc = opt_bool(s, "gc", "script")?;
    let file0 = opt_bool(s, "file0", "script")?;
    let on_size_leb = opt_bool(s, "low_pc_on_size_leb", "script")?;

    let mut out = Map::new();
    out.insert("script".into(), json!(script_path));
    out.insert(
        "options".into(),
        json!({"version": version, "gc": gc, "file0": file0, "low_pc_on_size_leb": on_size_leb}),
    );

    let fin = match layout(&wasm) {
        Ok(f) => f,
        Err(e) => {
            out.insert("status".into(), json!("bad-input"));
            out.insert("error".into(), json!(format!("cannot decode the input module: {}", e)));
            return Ok(Value::Object(out));
        }
    };
    let synth = match catch_unwind(AssertUnwindSafe(|| {
        synthesize(&wasm, &fin, version as u16, file0, on_size_leb)
    })) {
        Ok(Ok(s)) => s,
        Ok(Err(e)) => {
            out.insert("status".into(), json!("bad-input"));
            out.insert("error".into(), json!(format!("DWARF synthesis failed: {}", e)));
            return Ok(Value::Object(out));
        }
        Err(p) => {
            out.insert("status".into(), json!("bad-input"));
            out.insert(
                "error".into(),
                json!(format!("DWARF synthesis panicked: {}", crate::panic_message(&p))),
            );
            return Ok(Value::Object(out));
        }
    };
    out.insert("notes".into(), json!(synth.notes));
    let input = synth.wasm;
    let rin = read_dwarf(&input);
    let (input_valid, input_err) = crate::dump::validity(&input);

    // the real walrus
    *LAST_PANIC_LOCATION.lock().unwrap() = None;
    let mut stage = "parse";
    let r = catch_unwind(AssertUnwindSafe(|| -> Result<Vec<u8>, String> {
        let mut cfg = walrus::ModuleConfig::new();
        cfg.generate_dwarf(true).generate_producers_section(false);
        let mut m = cfg.parse(&input).map_err(|e| format!("{:#}", e))?;
        if gc {
            stage = "gc";
            walrus::passes::gc::run(&mut m);
        }
        stage = "emit";
        Ok(m.emit_wasm())
    }));
    let output: Option<Vec<u8>> = match r {
        Ok(Ok(o)) => {
            out.insert("status".into(), json!("ok"));
            out.insert("error".into(), Value::Null);
            Some(o)
        }
        Ok(Err(e)) => {
            out.insert("status".into(), json!("parse-error"));
            out.insert("error".into(), json!(e));
            None
        }
        Err(p) => {
            let loc = LAST_PANIC_LOCATION.lock().unwrap().clone().unwrap_or_default();
            out.insert("status".into(), json!("panic"));
            out.insert("error".into(), json!(format!("{} [{}]", crate::panic_message(&p), loc)));
            out.insert("panic_stage".into(), json!(stage));
            None
        }
    };

    let mut inj = layout_json(&fin);
    inj["valid"] = json!(input_valid);
    inj["validation_error"] = json!(input_err);
    inj["size"] = json!(input.len());
    inj["debug_sections"] = json!(rin.sections.iter().map(|(n, l)| json!([n, l])).collect::<Vec<_>>());
    inj["dwarf_read_error"] = json!(rin.error);
    out.insert("input".into(), inj);

    match &output {
        Some(o) => {
            let fout = layout(o);
            let rout = read_dwarf(o);
            let (v, e) = crate::dump::validity(o);
            let (fout, lay_err) = match fout {
                Ok(f) => (f, None),
                Err(e) => (vec![], Some(e)),
            };
            let mut oj = layout_json(&fout);
            oj["valid"] = json!(v);
            oj["validation_error"] = json!(e);
            oj["size"] = json!(o.len());
            oj["debug_sections"] = json!(rout.sections.iter().map(|(n, l)| json!([n, l])).collect::<Vec<_>>());
            oj["dwarf_read_error"] = json!(rout.error);
            oj["layout_error"] = json!(lay_err);
            out.insert("output".into(), oj);
            out.insert("rows_in".into(), rows_json(&rin));
            out.insert("rows_out".into(), rows_json(&rout));
            out.insert("subprograms_in".into(), subs_json(&rin));
            out.insert("subprograms_out".into(), subs_json(&rout));
            out.insert("checks".into(), checks(&fin, &fout, &rin, &rout, on_size_leb));
        }
        None => {
            out.insert("output".into(), Value::Null);
            out.insert("rows_in".into(), rows_json(&rin));
            out.insert("rows_out".into(), json!([]));
            out.insert("subprograms_in".into(), subs_json(&rin));
            out.insert("subprograms_out".into(), json!([]));
            out.insert("checks".into(), Value::Null);
        }
    }
    Ok(Value::Object(out))
}
