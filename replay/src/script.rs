//! `vreplay script <script.json>`: run a small API script against the real walrus.

use crate::codec_table::hex;
use crate::dump::{dump_module, validity};
use crate::roundtrip::LAST_PANIC_LOCATION;
use crate::witness::*;
use serde_json::{json, Map, Value};
use std::borrow::Cow;
use std::panic::{catch_unwind, AssertUnwindSafe};
use std::path::Path;
use std::sync::{Arc, Mutex};
use walrus::{
    CodeTransform, CustomSection, DataId, DataKind, ElementId, FunctionId, FunctionKind, GlobalId, GlobalKind,
    IdsToIndices, IndicesToIds, MemoryId, Module, ModuleConfig, TableId, TypeId,
};

const PROBE_NAME: &str = "vreplay-probe";
const CONFIG_KEYS: [&str; 7] = [
    "generate_name_section",
    "generate_producers_section",
    "generate_dwarf",
    "only_stable_features",
    "preserve_code_transform",
    "on_parse",
    "probe",
];

// ---------------------------------------------------------------------------
// on_parse probe

fn type_desc(m: &Module, t: TypeId) -> Value {
    let ty = m.types.get(t);
    json!({
        "params": format!("{:?}", ty.params()),
        "results": format!("{:?}", ty.results()),
        "name": ty.name,
    })
}

/// Describe what index `i` of each index space resolves to, for 0..16 or
/// until the lookup fails.
fn describe_index_spaces(m: &Module, ids: &IndicesToIds) -> Map<String, Value> {
    const LIMIT: u32 = 16;
    let mut out = Map::new();

    let mut v = Vec::new();
    for i in 0..LIMIT {
        let Ok(id) = ids.get_func(i) else { break };
        let f = m.funcs.get(id);
        let kind = match &f.kind {
            FunctionKind::Import(_) => "import",
            FunctionKind::Local(_) => "local",
            FunctionKind::Uninitialized(_) => "uninitialized",
        };
        v.push(json!({
            "index": i,
            "arena_pos": id.index(),
            "kind": kind,
            "imported": matches!(f.kind, FunctionKind::Import(_)),
            "ty": type_desc(m, f.ty()),
            "name": f.name,
        }));
    }
    out.insert("func".into(), Value::Array(v));

    let mut v = Vec::new();
    for i in 0..LIMIT {
        let Ok(id) = ids.get_type(i) else { break };
        let mut d = type_desc(m, id);
        d["index"] = json!(i);
        d["arena_pos"] = json!(id.index());
        v.push(d);
    }
    out.insert("type".into(), Value::Array(v));

    let mut v = Vec::new();
    for i in 0..LIMIT {
        let Ok(id) = ids.get_table(i) else { break };
        let t = m.tables.get(id);
        v.push(json!({
            "index": i,
            "arena_pos": id.index(),
            "table64": t.table64,
            "initial": t.initial,
            "maximum": t.maximum,
            "element_ty": format!("{:?}", t.element_ty),
            "imported": t.import.is_some(),
            "elem_segments": t.elem_segments.len(),
            "name": t.name,
        }));
    }
    out.insert("table".into(), Value::Array(v));

    let mut v = Vec::new();
    for i in 0..LIMIT {
        let Ok(id) = ids.get_memory(i) else { break };
        let t = m.memories.get(id);
        v.push(json!({
            "index": i,
            "arena_pos": id.index(),
            "initial": t.initial,
            "maximum": t.maximum,
            "shared": t.shared,
            "memory64": t.memory64,
            "page_size_log2": t.page_size_log2,
            "imported": t.import.is_some(),
            "data_segments": t.data_segments.len(),
            "name": t.name,
        }));
    }
    out.insert("memory".into(), Value::Array(v));

    let mut v = Vec::new();
    for i in 0..LIMIT {
        let Ok(id) = ids.get_global(i) else { break };
        let g = m.globals.get(id);
        let (imported, init) = match &g.kind {
            GlobalKind::Import(_) => (true, Value::Null),
            GlobalKind::Local(e) => (false, json!(format!("{:?}", e))),
        };
        v.push(json!({
            "index": i,
            "arena_pos": id.index(),
            "ty": format!("{:?}", g.ty),
            "mutable": g.mutable,
            "shared": g.shared,
            "imported": imported,
            "init": init,
            "name": g.name,
        }));
    }
    out.insert("global".into(), Value::Array(v));

    let mut v = Vec::new();
    for i in 0..LIMIT {
        let Ok(id) = ids.get_element(i) else { break };
        let e = m.elements.get(id);
        v.push(json!({
            "index": i,
            "arena_pos": id.index(),
            "kind": format!("{:?}", e.kind),
            "items": format!("{:?}", e.items),
            "name": e.name,
        }));
    }
    out.insert("element".into(), Value::Array(v));

    let mut v = Vec::new();
    for i in 0..LIMIT {
        let Ok(id) = ids.get_data(i) else { break };
        let d = m.data.get(id);
        v.push(json!({
            "index": i,
            "arena_pos": id.index(),
            "kind": match &d.kind {
                DataKind::Passive => "Passive".to_string(),
                k => format!("{:?}", k),
            },
            "value": hex(&d.value),
            "name": d.name,
        }));
    }
    out.insert("data".into(), Value::Array(v));
    out
}

// ---------------------------------------------------------------------------
// custom-section probe (code transform + emit-time indices)

#[derive(Default, Debug)]
struct Captured {
    funcs: Vec<(FunctionId, Option<String>)>,
    types: Vec<(TypeId, Option<String>)>,
    tables: Vec<(TableId, Option<String>)>,
    memories: Vec<(MemoryId, Option<String>)>,
    globals: Vec<(GlobalId, Option<String>)>,
    elements: Vec<(ElementId, Option<String>)>,
    data: Vec<(DataId, Option<String>)>,
}

fn capture(m: &Module) -> Captured {
    Captured {
        funcs: m.funcs.iter().map(|f| (f.id(), f.name.clone())).collect(),
        types: m.types.iter().map(|t| (t.id(), t.name.clone())).collect(),
        tables: m.tables.iter().map(|t| (t.id(), t.name.clone())).collect(),
        memories: m.memories.iter().map(|t| (t.id(), t.name.clone())).collect(),
        globals: m.globals.iter().map(|t| (t.id(), t.name.clone())).collect(),
        elements: m.elements.iter().map(|t| (t.id(), t.name.clone())).collect(),
        data: m.data.iter().map(|t| (t.id(), t.name.clone())).collect(),
    }
}

#[derive(Default, Debug)]
struct ProbeLog {
    /// number of emits started so far (set by the driver)
    emit_no: usize,
    code_transform: Vec<Value>,
    emit_indices: Vec<Value>,
}

#[derive(Debug)]
struct Probe {
    /// which parse this probe belongs to (0 = first parse, 1 = after first reparse, ..)
    generation: usize,
    captured: Captured,
    log: Arc<Mutex<ProbeLog>>,
}

/// `IdsToIndices::get_*_index` panics for ids without an index: null then.
fn idx_or_null(f: impl FnOnce() -> u32) -> Value {
    match catch_unwind(AssertUnwindSafe(f)) {
        Ok(n) => json!(n),
        Err(_) => Value::Null,
    }
}

impl CustomSection for Probe {
    fn name(&self) -> &str {
        PROBE_NAME
    }

    fn data(&self, ids: &IdsToIndices) -> Cow<[u8]> {
        macro_rules! space {
            ($list:expr, $get:ident) => {
                Value::Array(
                    $list
                        .iter()
                        .map(|(id, name)| {
                            let id = *id;
                            json!({
                                "arena_pos": id.index(),
                                "name": name,
                                "index": idx_or_null(|| ids.$get(id)),
                            })
                        })
                        .collect(),
                )
            };
        }
        let c = &self.captured;
        let rec = json!({
            "func": space!(c.funcs, get_func_index),
            "type": space!(c.types, get_type_index),
            "table": space!(c.tables, get_table_index),
            "memory": space!(c.memories, get_memory_index),
            "global": space!(c.globals, get_global_index),
            "element": space!(c.elements, get_element_index),
            "data": space!(c.data, get_data_index),
        });
        let mut log = self.log.lock().unwrap();
        let emit_no = log.emit_no;
        let mut rec = rec;
        rec["emit"] = json!(emit_no);
        rec["generation"] = json!(self.generation);
        log.emit_indices.push(rec);
        Cow::Borrowed(&[])
    }

    fn apply_code_transform(&mut self, t: &CodeTransform) {
        let mut log = self.log.lock().unwrap();
        let emit_no = log.emit_no;
        log.code_transform.push(json!({
            "emit": emit_no,
            "generation": self.generation,
            "code_section_start": t.code_section_start,
            "function_ranges": t.function_ranges.iter().map(|(id, r)| json!({
                "func_arena_pos": id.index(),
                "start": r.start,
                "end": r.end,
            })).collect::<Vec<_>>(),
            // [input offset (InstrLocId data), output offset]
            "instruction_map": t.instruction_map.iter().map(|(loc, off)| json!([loc.data(), off])).collect::<Vec<_>>(),
        }));
    }
}

// ---------------------------------------------------------------------------
// driver

fn describe_emit(bytes: &[u8]) -> Value {
    let (valid, err) = validity(bytes);
    json!({
        "valid": valid,
        "validation_error": err,
        "size": bytes.len(),
        "dump": dump_module(bytes),
        "hex": hex(bytes),
    })
}

fn cfg_bool(cfg: &Map<String, Value>, k: &str) -> Result<Option<bool>, String> {
    match opt(cfg, k) {
        None => Ok(None),
        Some(Value::Bool(b)) => Ok(Some(*b)),
        Some(o) => Err(format!("config.{} must be a boolean, got {}", k, o)),
    }
}

pub fn run(script_path: &str) -> Result<Value, String> {
    let text = std::fs::read_to_string(script_path).map_err(|e| format!("cannot read {}: {}", script_path, e))?;
    let script: Value = serde_json::from_str(&text).map_err(|e| format!("{}: bad JSON: {}", script_path, e))?;
    let s = as_obj(&script, "script")?;
    for k in s.keys() {
        if !["input", "spec", "config", "steps"].contains(&k.as_str()) {
            return Err(format!("unknown script key `{}`", k));
        }
    }

    // relative paths: cwd first, then the script's directory
    let resolve = |p: &str| {
        let path = Path::new(p).to_path_buf();
        if !path.exists() && path.is_relative() {
            if let Some(dir) = Path::new(script_path).parent() {
                return dir.join(p);
            }
        }
        path
    };

    // input bytes
    let wasm: Vec<u8> = match (opt(s, "input"), opt(s, "spec")) {
        (Some(_), Some(_)) => return Err("give either `input` or `spec`, not both".into()),
        (None, None) => return Err("script needs `input` (path) or `spec` (module description)".into()),
        // inline module description, or a path to a spec file
        (None, Some(Value::String(p))) => {
            let path = resolve(p);
            let text =
                std::fs::read_to_string(&path).map_err(|e| format!("cannot read {}: {}", path.display(), e))?;
            let spec: Value =
                serde_json::from_str(&text).map_err(|e| format!("{}: bad JSON: {}", path.display(), e))?;
            crate::mkmod::build_from_spec(&spec)?
        }
        (None, Some(spec)) => crate::mkmod::build_from_spec(spec)?,
        (Some(p), None) => {
            let p = p.as_str().ok_or("`input` must be a path string")?;
            let path = resolve(p);
            let raw = std::fs::read(&path).map_err(|e| format!("cannot read {}: {}", path.display(), e))?;
            if p.ends_with(".wat") || p.ends_with(".wast") {
                wat::parse_bytes(&raw)
                    .map_err(|e| format!("cannot parse {} as wat: {}", path.display(), e))?
                    .into_owned()
            } else {
                raw
            }
        }
    };

    // config
    let empty = Map::new();
    let cfg = match opt(s, "config") {
        None => &empty,
        Some(c) => as_obj(c, "config")?,
    };
    for k in cfg.keys() {
        if !CONFIG_KEYS.contains(&k.as_str()) {
            return Err(format!("unknown config key `{}` (known: {:?})", k, CONFIG_KEYS));
        }
    }
    let mut config = ModuleConfig::new();
    if let Some(b) = cfg_bool(cfg, "generate_name_section")? {
        config.generate_name_section(b);
    }
    if let Some(b) = cfg_bool(cfg, "generate_producers_section")? {
        config.generate_producers_section(b);
    }
    if let Some(b) = cfg_bool(cfg, "generate_dwarf")? {
        config.generate_dwarf(b);
    }
    if let Some(b) = cfg_bool(cfg, "only_stable_features")? {
        config.only_stable_features(b);
    }
    let preserve = cfg_bool(cfg, "preserve_code_transform")?.unwrap_or(false);
    if preserve {
        config.preserve_code_transform(true);
    }
    let want_on_parse = cfg_bool(cfg, "on_parse")?.unwrap_or(false);
    // the probe section is installed iff preserve_code_transform (override with "probe")
    let want_probe = cfg_bool(cfg, "probe")?.unwrap_or(preserve);

    let on_parse_log: Arc<Mutex<Vec<Value>>> = Arc::new(Mutex::new(Vec::new()));
    if want_on_parse {
        let log = on_parse_log.clone();
        config.on_parse(move |m, ids| {
            let rec = describe_index_spaces(m, ids);
            log.lock().unwrap().push(Value::Object(rec));
            Ok(())
        });
    }

    // steps
    let steps: Vec<String> = match opt(s, "steps") {
        None => vec!["emit".to_string()],
        Some(v) => as_arr(v, "steps")?
            .iter()
            .map(|x| x.as_str().map(|s| s.to_string()).ok_or("steps are strings".to_string()))
            .collect::<Result<_, _>>()?,
    };
    for st in &steps {
        if !["gc", "emit", "reparse"].contains(&st.as_str()) {
            return Err(format!("unknown step `{}` (gc | emit | reparse)", st));
        }
    }

    if let Some(i) = steps.iter().position(|s| s == "reparse") {
        if !steps[..i].iter().any(|s| s == "emit") {
            return Err("`reparse` needs a preceding `emit` step".into());
        }
    }

    let probe_log: Arc<Mutex<ProbeLog>> = Arc::new(Mutex::new(ProbeLog::default()));
    let mut emits: Vec<Vec<u8>> = Vec::new();
    let mut steps_done: Vec<Value> = Vec::new();
    let mut stage: String = "parse".to_string();
    let mut step_no: Option<usize> = None;
    let mut generation = 0usize;

    *LAST_PANIC_LOCATION.lock().unwrap() = None;
    let r = catch_unwind(AssertUnwindSafe(|| -> Result<(), String> {
        let install = |m: &mut Module, generation: usize| {
            if want_probe {
                let captured = capture(m);
                m.customs.add(Probe {
                    generation,
                    captured,
                    log: probe_log.clone(),
                });
            }
        };
        let mut module = config.parse(&wasm).map_err(|e| format!("{:#}", e))?;
        install(&mut module, generation);
        for (i, st) in steps.iter().enumerate() {
            stage = st.clone();
            step_no = Some(i);
            match st.as_str() {
                "gc" => {
                    walrus::passes::gc::run(&mut module);
                    steps_done.push(json!({"step": st}));
                }
                "emit" => {
                    probe_log.lock().unwrap().emit_no = emits.len();
                    let bytes = module.emit_wasm();
                    steps_done.push(json!({"step": st, "emit": emits.len(), "size": bytes.len()}));
                    emits.push(bytes);
                }
                "reparse" => {
                    let last = emits
                        .last()
                        .ok_or_else(|| "`reparse` needs a preceding `emit`".to_string())?
                        .clone();
                    module = config.parse(&last).map_err(|e| format!("reparse: {:#}", e))?;
                    generation += 1;
                    install(&mut module, generation);
                    steps_done.push(json!({"step": st, "of_emit": emits.len() - 1}));
                }
                _ => unreachable!(),
            }
        }
        Ok(())
    }));

    let mut out = Map::new();
    out.insert("script".into(), json!(script_path));
    match r {
        Ok(Ok(())) => {
            out.insert("status".into(), json!("ok"));
            out.insert("error".into(), Value::Null);
        }
        Ok(Err(e)) => {
            out.insert("status".into(), json!("parse-error"));
            out.insert("error".into(), json!(e));
            out.insert("error_stage".into(), json!(stage));
            out.insert("error_step".into(), json!(step_no));
        }
        Err(p) => {
            let loc = LAST_PANIC_LOCATION.lock().unwrap().clone().unwrap_or_default();
            out.insert("status".into(), json!("panic"));
            out.insert("error".into(), json!(format!("{} [{}]", crate::panic_message(&p), loc)));
            out.insert("panic_stage".into(), json!(stage));
            out.insert("panic_step".into(), json!(step_no));
        }
    }
    out.insert("steps_done".into(), Value::Array(steps_done));
    let (valid, err) = validity(&wasm);
    out.insert(
        "input".into(),
        json!({
            "valid": valid,
            "validation_error": err,
            "size": wasm.len(),
            "dump": dump_module(&wasm),
            "hex": hex(&wasm),
        }),
    );
    out.insert(
        "emits".into(),
        Value::Array(emits.iter().map(|b| describe_emit(b)).collect()),
    );
    for i in 1..emits.len() {
        if i == 1 {
            out.insert("emits_identical_to_first".into(), json!([]));
        }
        out["emits_identical_to_first"]
            .as_array_mut()
            .unwrap()
            .push(json!(emits[i] == emits[0]));
    }

    if want_on_parse {
        let calls = on_parse_log.lock().unwrap();
        let mut o = Map::new();
        o.insert("calls".into(), json!(calls.len()));
        if let Some(Value::Object(first)) = calls.first() {
            for (k, v) in first {
                o.insert(k.clone(), v.clone());
            }
        }
        // calls made by `reparse` steps, in order
        o.insert("later_calls".into(), Value::Array(calls.iter().skip(1).cloned().collect()));
        out.insert("on_parse".into(), Value::Object(o));
    } else {
        out.insert("on_parse".into(), Value::Null);
    }

    if want_probe {
        let log = probe_log.lock().unwrap();
        // one record per emit in which walrus invoked the probe section
        out.insert("code_transform".into(), Value::Array(log.code_transform.clone()));
        out.insert("emit_indices".into(), Value::Array(log.emit_indices.clone()));
    } else {
        out.insert("code_transform".into(), Value::Null);
        out.insert("emit_indices".into(), Value::Null);
    }
    Ok(Value::Object(out))
}
