//! `wasmparser::Operator` -> (variant name, proposal, flattened rendered fields).
//!
//! Generated at compile time from `wasmparser::for_each_operator!`, so the
//! match is exhaustive over the pinned wasmparser's operators and the field
//! names are exactly the `Operator` field names.  Rendering follows the
//! conventions documented in `fields.rs`.

use crate::fields::{render_abstract, render_list};
use wasmparser::{
    AbstractHeapType, BlockType, BrTable, Catch, HeapType, Ieee32, Ieee64, MemArg, Operator, Ordering,
    RefType, TryTable, UnpackedIndex, ValType, V128,
};

pub type Fields = Vec<(String, String)>;

pub trait Render {
    fn render(&self, name: &str, out: &mut Fields);
}

macro_rules! render_display {
    ($($t:ty),*) => {$(
        impl Render for $t {
            fn render(&self, name: &str, out: &mut Fields) {
                out.push((name.to_string(), self.to_string()));
            }
        }
    )*};
}
render_display!(u8, u32, u64, i32, i64);

impl Render for Ieee32 {
    fn render(&self, name: &str, out: &mut Fields) {
        out.push((name.to_string(), self.bits().to_string()));
    }
}
impl Render for Ieee64 {
    fn render(&self, name: &str, out: &mut Fields) {
        out.push((name.to_string(), self.bits().to_string()));
    }
}
impl Render for V128 {
    fn render(&self, name: &str, out: &mut Fields) {
        out.push((name.to_string(), render_list(self.bytes().iter())));
    }
}
impl Render for [u8; 16] {
    fn render(&self, name: &str, out: &mut Fields) {
        out.push((name.to_string(), render_list(self.iter())));
    }
}
impl Render for MemArg {
    fn render(&self, name: &str, out: &mut Fields) {
        // `max_align` is derived from the opcode, not an immediate: not rendered
        out.push((format!("{}.align", name), self.align.to_string()));
        out.push((format!("{}.offset", name), self.offset.to_string()));
        out.push((format!("{}.memory", name), self.memory.to_string()));
    }
}

fn abstract_short(ty: AbstractHeapType) -> &'static str {
    use AbstractHeapType::*;
    match ty {
        Func => "func",
        Extern => "extern",
        Any => "any",
        None => "none",
        NoExtern => "noextern",
        NoFunc => "nofunc",
        Eq => "eq",
        Struct => "struct",
        Array => "array",
        I31 => "i31",
        Exn => "exn",
        NoExn => "noexn",
    }
}

pub fn heap_type_str(h: &HeapType) -> String {
    match h {
        HeapType::Abstract { shared, ty } => render_abstract(*shared, abstract_short(*ty)),
        HeapType::Concrete(UnpackedIndex::Module(n)) => format!("type:{}", n),
        HeapType::Concrete(other) => format!("type:{:?}", other),
    }
}

pub fn ref_type_str(r: &RefType) -> String {
    let h = heap_type_str(&r.heap_type());
    if r.is_nullable() {
        h
    } else {
        format!("nonnull:{}", h)
    }
}

pub fn val_type_str(v: &ValType) -> String {
    match v {
        ValType::I32 => "i32".into(),
        ValType::I64 => "i64".into(),
        ValType::F32 => "f32".into(),
        ValType::F64 => "f64".into(),
        ValType::V128 => "v128".into(),
        ValType::Ref(r) => ref_type_str(r),
    }
}

pub fn block_type_str(b: &BlockType) -> String {
    match b {
        BlockType::Empty => "empty".into(),
        BlockType::Type(v) => format!("result:{}", val_type_str(v)),
        BlockType::FuncType(n) => format!("functype:{}", n),
    }
}

impl Render for HeapType {
    fn render(&self, name: &str, out: &mut Fields) {
        out.push((name.to_string(), heap_type_str(self)));
    }
}
impl Render for RefType {
    fn render(&self, name: &str, out: &mut Fields) {
        out.push((name.to_string(), ref_type_str(self)));
    }
}
impl Render for ValType {
    fn render(&self, name: &str, out: &mut Fields) {
        out.push((name.to_string(), val_type_str(self)));
    }
}
impl Render for BlockType {
    fn render(&self, name: &str, out: &mut Fields) {
        out.push((name.to_string(), block_type_str(self)));
    }
}
impl Render for Ordering {
    fn render(&self, name: &str, out: &mut Fields) {
        let s = match self {
            Ordering::SeqCst => "seqcst",
            Ordering::AcqRel => "acqrel",
        };
        out.push((name.to_string(), s.to_string()));
    }
}
impl Render for BrTable<'_> {
    /// `targets` -> the list, `default` -> the default label
    fn render(&self, name: &str, out: &mut Fields) {
        let mut items = Vec::new();
        for t in self.targets() {
            match t {
                Ok(v) => items.push(v.to_string()),
                Err(e) => {
                    items.push(format!("<error: {}>", e));
                    break;
                }
            }
        }
        out.push((name.to_string(), format!("[{}]", items.join(", "))));
        out.push(("default".to_string(), self.default().to_string()));
    }
}
impl Render for TryTable {
    /// `<name>.ty` and `<name>.catches`
    fn render(&self, name: &str, out: &mut Fields) {
        out.push((format!("{}.ty", name), block_type_str(&self.ty)));
        let items = self.catches.iter().map(|c| match c {
            Catch::One { tag, label } => format!("one:{}:{}", tag, label),
            Catch::OneRef { tag, label } => format!("one_ref:{}:{}", tag, label),
            Catch::All { label } => format!("all:{}", label),
            Catch::AllRef { label } => format!("all_ref:{}", label),
        });
        out.push((format!("{}.catches", name), render_list(items)));
    }
}

pub struct OpInfo {
    pub name: &'static str,
    pub proposal: &'static str,
    pub fields: Fields,
}

macro_rules! define_op_info {
    ($( @$proposal:ident $op:ident $({ $($arg:ident: $argty:ty),* })? => $visit:ident)*) => {
        /// Name, proposal and rendered fields of a decoded operator.
        pub fn op_info(op: &Operator<'_>) -> OpInfo {
            match op {
                $(
                    Operator::$op $({ $($arg),* })? => {
                        #[allow(unused_mut)]
                        let mut fields: Fields = Vec::new();
                        $($( Render::render($arg, stringify!($arg), &mut fields); )*)?
                        OpInfo { name: stringify!($op), proposal: stringify!($proposal), fields }
                    }
                )*
            }
        }

        /// Number of `wasmparser::Operator` variants.
        pub const OPERATOR_COUNT: usize = 0 $( + { let _ = stringify!($op); 1 } )*;
    };
}
wasmparser::for_each_operator!(define_op_info);
