//! Field sources for the generated `gen_instrs::build` constructor, plus the
//! shared textual rendering of immediates (used on the `wasm_encoder` side
//! here and on the `wasmparser` side in `opfields.rs`).
//!
//! Rendering conventions (identical on both sides so fields can be matched by
//! value):
//!   * integers: decimal; f32/f64: the BITS as unsigned decimal;
//!   * v128: the 16 little-endian bytes `[0, 1, .., 15]`; shuffle: `[15, .., 0]`;
//!   * MemArg: flattened `<field>.align`, `<field>.offset`, and
//!     `<field>.memory_index` (Instruction) / `<field>.memory` (Operator); a
//!     tuple-variant MemArg uses the prefix `memarg` (not `0`);
//!   * BlockType: `empty` / `result:<valtype>` / `functype:<n>`;
//!   * ValType: `i32 i64 f32 f64 v128` or a RefType;
//!   * RefType: nullable -> HeapType rendering, non-nullable -> `nonnull:<heap>`;
//!   * HeapType: abstract -> `funcref externref anyref nullref nullexternref
//!     nullfuncref eqref structref arrayref i31ref exnref nullexnref`
//!     (prefixed `shared:` when shared); concrete -> `type:<n>`;
//!   * Ordering: `seqcst` / `acqrel`;
//!   * u32 lists: `[3, 5, 7]`; catch lists:
//!     `[one:<tag>:<label>, one_ref:<tag>:<label>, all:<label>, all_ref:<label>]`.

use std::borrow::Cow;
use std::collections::BTreeMap;
use wasm_encoder::{AbstractHeapType, BlockType, Catch, HeapType, MemArg, Ordering, RefType, ValType};

pub type R<T> = Result<T, String>;

/// Where the generated constructor takes immediates from.  Every call also
/// records the rendered value(s) under the field name.
pub trait FieldSource {
    fn u32(&mut self, f: &str) -> R<u32>;
    fn i32(&mut self, f: &str) -> R<i32>;
    fn i64(&mut self, f: &str) -> R<i64>;
    fn f32(&mut self, f: &str) -> R<f32>;
    fn f64(&mut self, f: &str) -> R<f64>;
    fn v128(&mut self, f: &str) -> R<i128>;
    fn lane(&mut self, f: &str) -> R<u8>;
    fn shuffle(&mut self, f: &str) -> R<[u8; 16]>;
    fn memarg(&mut self, f: &str) -> R<MemArg>;
    fn block_type(&mut self, f: &str) -> R<BlockType>;
    fn val_type(&mut self, f: &str) -> R<ValType>;
    fn heap_type(&mut self, f: &str) -> R<HeapType>;
    fn ref_type(&mut self, f: &str) -> R<RefType>;
    fn ordering(&mut self, f: &str) -> R<Ordering>;
    fn u32_list(&mut self, f: &str) -> R<Cow<'static, [u32]>>;
    fn catch_list(&mut self, f: &str) -> R<Cow<'static, [Catch]>>;
}

// ---------------------------------------------------------------------------
// rendering (wasm_encoder side)

pub const ABSTRACT_NAMES: [(&str, &str); 12] = [
    ("func", "funcref"),
    ("extern", "externref"),
    ("any", "anyref"),
    ("none", "nullref"),
    ("noextern", "nullexternref"),
    ("nofunc", "nullfuncref"),
    ("eq", "eqref"),
    ("struct", "structref"),
    ("array", "arrayref"),
    ("i31", "i31ref"),
    ("exn", "exnref"),
    ("noexn", "nullexnref"),
];

fn abstract_short(ty: AbstractHeapType) -> &'static str {
    use AbstractHeapType::*;
    match ty {
        Func => "func",
        Extern => "extern",
        Any => "any",
        None => "none",
        NoExtern => "noextern",
        NoFunc => "nofunc",
        Eq => "eq",
        Struct => "struct",
        Array => "array",
        I31 => "i31",
        Exn => "exn",
        NoExn => "noexn",
    }
}

fn abstract_from_short(s: &str) -> Option<AbstractHeapType> {
    use AbstractHeapType::*;
    Some(match s {
        "func" => Func,
        "extern" => Extern,
        "any" => Any,
        "none" => None,
        "noextern" => NoExtern,
        "nofunc" => NoFunc,
        "eq" => Eq,
        "struct" => Struct,
        "array" => Array,
        "i31" => I31,
        "exn" => Exn,
        "noexn" => NoExn,
        _ => return Option::None,
    })
}

/// Shared helper: render an abstract heap type given its short name.
pub fn render_abstract(shared: bool, short: &str) -> String {
    let long = ABSTRACT_NAMES
        .iter()
        .find(|(s, _)| *s == short)
        .map(|(_, l)| l.to_string())
        .unwrap_or_else(|| format!("{}ref", short));
    if shared {
        format!("shared:{}", long)
    } else {
        long
    }
}

pub fn render_heap_type(h: HeapType) -> String {
    match h {
        HeapType::Abstract { shared, ty } => render_abstract(shared, abstract_short(ty)),
        HeapType::Concrete(n) => format!("type:{}", n),
    }
}

pub fn render_ref_type(r: RefType) -> String {
    if r.nullable {
        render_heap_type(r.heap_type)
    } else {
        format!("nonnull:{}", render_heap_type(r.heap_type))
    }
}

pub fn render_val_type(v: ValType) -> String {
    match v {
        ValType::I32 => "i32".into(),
        ValType::I64 => "i64".into(),
        ValType::F32 => "f32".into(),
        ValType::F64 => "f64".into(),
        ValType::V128 => "v128".into(),
        ValType::Ref(r) => render_ref_type(r),
    }
}

pub fn render_block_type(b: BlockType) -> String {
    match b {
        BlockType::Empty => "empty".into(),
        BlockType::Result(v) => format!("result:{}", render_val_type(v)),
        BlockType::FunctionType(n) => format!("functype:{}", n),
    }
}

pub fn render_ordering(o: Ordering) -> &'static str {
    match o {
        Ordering::SeqCst => "seqcst",
        Ordering::AcqRel => "acqrel",
    }
}

pub fn render_list<T: std::fmt::Display>(xs: impl IntoIterator<Item = T>) -> String {
    let v: Vec<String> = xs.into_iter().map(|x| x.to_string()).collect();
    format!("[{}]", v.join(", "))
}

pub fn render_catch(c: &Catch) -> String {
    match c {
        Catch::One { tag, label } => format!("one:{}:{}", tag, label),
        Catch::OneRef { tag, label } => format!("one_ref:{}:{}", tag, label),
        Catch::All { label } => format!("all:{}", label),
        Catch::AllRef { label } => format!("all_ref:{}", label),
    }
}

/// Field-name prefix used for a MemArg: tuple variants (`"0"`) use `memarg`.
pub fn memarg_prefix(f: &str) -> String {
    if f.chars().all(|c| c.is_ascii_digit()) {
        "memarg".to_string()
    } else {
        f.to_string()
    }
}

// ---------------------------------------------------------------------------
// parsing (witness side)

pub fn parse_u64(s: &str) -> R<u64> {
    let t = s.trim();
    let r = if let Some(h) = t.strip_prefix("0x").or_else(|| t.strip_prefix("0X")) {
        u64::from_str_radix(h, 16)
    } else {
        t.parse::<u64>()
    };
    r.map_err(|e| format!("cannot parse `{}` as unsigned integer: {}", s, e))
}

pub fn parse_i128(s: &str) -> R<i128> {
    let t = s.trim();
    if let Some(h) = t.strip_prefix("0x").or_else(|| t.strip_prefix("0X")) {
        return u128::from_str_radix(h, 16)
            .map(|v| v as i128)
            .map_err(|e| format!("cannot parse `{}`: {}", s, e));
    }
    t.parse::<i128>()
        .map_err(|e| format!("cannot parse `{}` as integer: {}", s, e))
}

pub fn parse_u32(s: &str) -> R<u32> {
    let v = parse_u64(s)?;
    u32::try_from(v).map_err(|_| format!("`{}` does not fit in u32", s))
}

/// Signed or unsigned spelling of an N-bit value (e.g. "-1" or "4294967295").
pub fn parse_int_bits(s: &str, bits: u32) -> R<u64> {
    let v = parse_i128(s)?;
    let lo = -(1i128 << (bits - 1));
    let hi = (1i128 << bits) - 1;
    if v < lo || v > hi {
        return Err(format!("`{}` does not fit in {} bits", s, bits));
    }
    Ok((v as u128 & ((1u128 << bits) - 1)) as u64)
}

pub fn parse_num_list(s: &str) -> R<Vec<u64>> {
    let t = s.trim();
    let inner = t
        .strip_prefix('[')
        .and_then(|x| x.strip_suffix(']'))
        .ok_or_else(|| format!("expected a `[..]` list, got `{}`", s))?;
    if inner.trim().is_empty() {
        return Ok(vec![]);
    }
    inner.split(',').map(parse_u64).collect()
}

pub fn parse_heap_type(s: &str) -> R<HeapType> {
    let t = s.trim();
    let (shared, t) = match t.strip_prefix("shared:") {
        Some(r) => (true, r),
        None => (false, t),
    };
    if let Some(n) = t.strip_prefix("type:") {
        if shared {
            return Err(format!("`{}`: concrete heap types cannot be marked shared", s));
        }
        return Ok(HeapType::Concrete(parse_u32(n)?));
    }
    for (short, long) in ABSTRACT_NAMES.iter() {
        if t == *short || t == *long {
            return Ok(HeapType::Abstract {
                shared,
                ty: abstract_from_short(short).unwrap(),
            });
        }
    }
    Err(format!("unknown heap type `{}`", s))
}

pub fn parse_ref_type(s: &str) -> R<RefType> {
    let t = s.trim();
    match t.strip_prefix("nonnull:") {
        Some(r) => Ok(RefType {
            nullable: false,
            heap_type: parse_heap_type(r)?,
        }),
        None => Ok(RefType {
            nullable: true,
            heap_type: parse_heap_type(t)?,
        }),
    }
}

pub fn parse_val_type(s: &str) -> R<ValType> {
    Ok(match s.trim() {
        "i32" => ValType::I32,
        "i64" => ValType::I64,
        "f32" => ValType::F32,
        "f64" => ValType::F64,
        "v128" => ValType::V128,
        other => ValType::Ref(parse_ref_type(other)?),
    })
}

pub fn parse_block_type(s: &str) -> R<BlockType> {
    let t = s.trim();
    if t == "empty" {
        Ok(BlockType::Empty)
    } else if let Some(v) = t.strip_prefix("result:") {
        Ok(BlockType::Result(parse_val_type(v)?))
    } else if let Some(n) = t.strip_prefix("functype:") {
        Ok(BlockType::FunctionType(parse_u32(n)?))
    } else {
        Err(format!(
            "bad block type `{}` (want empty | result:<valtype> | functype:<n>)",
            s
        ))
    }
}

pub fn parse_catch(s: &str) -> R<Catch> {
    let parts: Vec<&str> = s.trim().split(':').collect();
    match parts.as_slice() {
        ["one", t, l] => Ok(Catch::One {
            tag: parse_u32(t)?,
            label: parse_u32(l)?,
        }),
        ["one_ref", t, l] => Ok(Catch::OneRef {
            tag: parse_u32(t)?,
            label: parse_u32(l)?,
        }),
        ["all", l] => Ok(Catch::All { label: parse_u32(l)? }),
        ["all_ref", l] => Ok(Catch::AllRef { label: parse_u32(l)? }),
        _ => Err(format!("bad catch clause `{}`", s)),
    }
}

// ---------------------------------------------------------------------------
// MarkerSource: distinct marker immediates for `codec-table`

#[derive(Clone, Copy, Debug, PartialEq, Eq)]
pub enum BlockAlt {
    Empty,
    Result,
    FuncType,
}

#[derive(Clone, Copy, Debug)]
pub struct Alt {
    pub block: BlockAlt,
    /// start the funcref/externref alternation with externref
    pub externref: bool,
    pub acqrel: bool,
    /// the variant carries both a MemArg and a Lane.  wasm-encoder asserts
    /// `lane < lanes` while encoding (so the lane marker must stay 1 to fit the
    /// 64-bit lane ops); to keep all values distinct the MemArg align marker
    /// becomes 3 instead of 1 for these 8 instructions.
    pub lane_with_memarg: bool,
}

pub const U32_MARKERS: [u32; 12] = [3, 5, 7, 11, 13, 17, 19, 23, 29, 31, 37, 41];
pub const LANE_MARKER: u8 = 1;
pub const I32_MARKER: i32 = -123456789;
pub const I64_MARKER: i64 = -1234567890123456789;
pub const F32_MARKER_BITS: u32 = 0x7fc0_0001;
pub const F64_MARKER_BITS: u64 = 0x7ff8_0000_0000_0001;
pub const MEMARG_ALIGN: u32 = 1;
pub const MEMARG_ALIGN_WITH_LANE: u32 = 3;
pub const MEMARG_OFFSET: u64 = 0x1234567;
pub const MEMARG_MEMORY: u32 = 2;
pub const FUNCTYPE_MARKER: u32 = 9;

pub struct MarkerSource {
    pub alt: Alt,
    next_u32: usize,
    next_ref: usize,
    pub rendered: Vec<(String, String)>,
}

impl MarkerSource {
    pub fn new(alt: Alt) -> Self {
        MarkerSource {
            alt,
            next_u32: 0,
            next_ref: 0,
            rendered: Vec::new(),
        }
    }

    fn rec(&mut self, f: &str, v: String) {
        self.rendered.push((f.to_string(), v));
    }

    fn take_u32(&mut self) -> R<u32> {
        let v = U32_MARKERS
            .get(self.next_u32)
            .copied()
            .ok_or_else(|| "ran out of u32 markers".to_string())?;
        self.next_u32 += 1;
        Ok(v)
    }

    /// funcref, externref, funcref, .. (or starting with externref)
    fn take_abstract(&mut self) -> AbstractHeapType {
        let odd = (self.next_ref % 2 == 1) ^ self.alt.externref;
        self.next_ref += 1;
        if odd {
            AbstractHeapType::Extern
        } else {
            AbstractHeapType::Func
        }
    }
}

impl FieldSource for MarkerSource {
    fn u32(&mut self, f: &str) -> R<u32> {
        let v = self.take_u32()?;
        self.rec(f, v.to_string());
        Ok(v)
    }
    fn i32(&mut self, f: &str) -> R<i32> {
        self.rec(f, I32_MARKER.to_string());
        Ok(I32_MARKER)
    }
    fn i64(&mut self, f: &str) -> R<i64> {
        self.rec(f, I64_MARKER.to_string());
        Ok(I64_MARKER)
    }
    fn f32(&mut self, f: &str) -> R<f32> {
        let v = f32::from_bits(F32_MARKER_BITS);
        self.rec(f, v.to_bits().to_string());
        Ok(v)
    }
    fn f64(&mut self, f: &str) -> R<f64> {
        let v = f64::from_bits(F64_MARKER_BITS);
        self.rec(f, v.to_bits().to_string());
        Ok(v)
    }
    fn v128(&mut self, f: &str) -> R<i128> {
        let mut b = [0u8; 16];
        for (i, x) in b.iter_mut().enumerate() {
            *x = i as u8;
        }
        self.rec(f, render_list(b.iter()));
        Ok(i128::from_le_bytes(b))
    }
    fn lane(&mut self, f: &str) -> R<u8> {
        let v = LANE_MARKER;
        self.rec(f, v.to_string());
        Ok(v)
    }
    fn shuffle(&mut self, f: &str) -> R<[u8; 16]> {
        let mut b = [0u8; 16];
        for (i, x) in b.iter_mut().enumerate() {
            *x = 15 - i as u8;
        }
        self.rec(f, render_list(b.iter()));
        Ok(b)
    }
    fn memarg(&mut self, f: &str) -> R<MemArg> {
        let p = memarg_prefix(f);
        let align = if self.alt.lane_with_memarg {
            MEMARG_ALIGN_WITH_LANE
        } else {
            MEMARG_ALIGN
        };
        self.rec(&format!("{}.align", p), align.to_string());
        self.rec(&format!("{}.offset", p), MEMARG_OFFSET.to_string());
        self.rec(&format!("{}.memory_index", p), MEMARG_MEMORY.to_string());
        Ok(MemArg {
            align,
            offset: MEMARG_OFFSET,
            memory_index: MEMARG_MEMORY,
        })
    }
    fn block_type(&mut self, f: &str) -> R<BlockType> {
        let b = match self.alt.block {
            BlockAlt::Empty => BlockType::Empty,
            BlockAlt::Result => BlockType::Result(ValType::I64),
            BlockAlt::FuncType => BlockType::FunctionType(FUNCTYPE_MARKER),
        };
        self.rec(f, render_block_type(b));
        Ok(b)
    }
    fn val_type(&mut self, f: &str) -> R<ValType> {
        let ty = self.take_abstract();
        let v = ValType::Ref(RefType {
            nullable: true,
            heap_type: HeapType::Abstract { shared: false, ty },
        });
        self.rec(f, render_val_type(v));
        Ok(v)
    }
    fn heap_type(&mut self, f: &str) -> R<HeapType> {
        let ty = self.take_abstract();
        let h = HeapType::Abstract { shared: false, ty };
        self.rec(f, render_heap_type(h));
        Ok(h)
    }
    fn ref_type(&mut self, f: &str) -> R<RefType> {
        let ty = self.take_abstract();
        let r = RefType {
            nullable: true,
            heap_type: HeapType::Abstract { shared: false, ty },
        };
        self.rec(f, render_ref_type(r));
        Ok(r)
    }
    fn ordering(&mut self, f: &str) -> R<Ordering> {
        let o = if self.alt.acqrel {
            Ordering::AcqRel
        } else {
            Ordering::SeqCst
        };
        self.rec(f, render_ordering(o).to_string());
        Ok(o)
    }
    fn u32_list(&mut self, f: &str) -> R<Cow<'static, [u32]>> {
        let v = vec![self.take_u32()?, self.take_u32()?, self.take_u32()?];
        self.rec(f, render_list(v.iter()));
        Ok(Cow::Owned(v))
    }
    fn catch_list(&mut self, f: &str) -> R<Cow<'static, [Catch]>> {
        let v = vec![
            Catch::One {
                tag: self.take_u32()?,
                label: self.take_u32()?,
            },
            Catch::OneRef {
                tag: self.take_u32()?,
                label: self.take_u32()?,
            },
            Catch::All {
                label: self.take_u32()?,
            },
            Catch::AllRef {
                label: self.take_u32()?,
            },
        ];
        self.rec(f, render_list(v.iter().map(render_catch)));
        Ok(Cow::Owned(v))
    }
}

// ---------------------------------------------------------------------------
// MapSource: immediates from a witness field map

pub struct MapSource {
    map: BTreeMap<String, String>,
    used: Vec<String>,
    pub rendered: Vec<(String, String)>,
    /// u32 immediates that were requested, by field name (used to size label
    /// nesting for branch instructions)
    pub u32s: Vec<(String, u32)>,
    pub u32_lists: Vec<(String, Vec<u32>)>,
}

impl MapSource {
    pub fn new(map: BTreeMap<String, String>) -> Self {
        MapSource {
            map,
            used: Vec::new(),
            rendered: Vec::new(),
            u32s: Vec::new(),
            u32_lists: Vec::new(),
        }
    }

    fn get(&mut self, f: &str) -> R<String> {
        match self.map.get(f) {
            Some(v) => {
                self.used.push(f.to_string());
                Ok(v.clone())
            }
            None => Err(format!("witness is missing field `{}`", f)),
        }
    }

    /// look up `<prefix>.<sub>`, also accepting `<f>.<sub>` (e.g. `0.align`)
    fn get_sub(&mut self, f: &str, sub: &str) -> R<String> {
        let a = format!("{}.{}", memarg_prefix(f), sub);
        if self.map.contains_key(&a) {
            return self.get(&a);
        }
        let b = format!("{}.{}", f, sub);
        if self.map.contains_key(&b) {
            return self.get(&b);
        }
        Err(format!("witness is missing field `{}`", a))
    }

    fn rec(&mut self, f: &str, v: String) {
        self.rendered.push((f.to_string(), v));
    }

    pub fn unused_keys(&self) -> Vec<String> {
        self.map
            .keys()
            .filter(|k| !self.used.contains(k))
            .cloned()
            .collect()
    }
}

impl FieldSource for MapSource {
    fn u32(&mut self, f: &str) -> R<u32> {
        let v = parse_u32(&self.get(f)?).map_err(|e| format!("field `{}`: {}", f, e))?;
        self.u32s.push((f.to_string(), v));
        self.rec(f, v.to_string());
        Ok(v)
    }
    fn i32(&mut self, f: &str) -> R<i32> {
        let v = parse_int_bits(&self.get(f)?, 32).map_err(|e| format!("field `{}`: {}", f, e))? as u32
            as i32;
        self.rec(f, v.to_string());
        Ok(v)
    }
    fn i64(&mut self, f: &str) -> R<i64> {
        let v = parse_int_bits(&self.get(f)?, 64).map_err(|e| format!("field `{}`: {}", f, e))? as i64;
        self.rec(f, v.to_string());
        Ok(v)
    }
    fn f32(&mut self, f: &str) -> R<f32> {
        let bits = parse_u32(&self.get(f)?).map_err(|e| format!("field `{}` (f32 bits): {}", f, e))?;
        self.rec(f, bits.to_string());
        Ok(f32::from_bits(bits))
    }
    fn f64(&mut self, f: &str) -> R<f64> {
        let bits = parse_u64(&self.get(f)?).map_err(|e| format!("field `{}` (f64 bits): {}", f, e))?;
        self.rec(f, bits.to_string());
        Ok(f64::from_bits(bits))
    }
    fn v128(&mut self, f: &str) -> R<i128> {
        let s = self.get(f)?;
        let bytes: [u8; 16] = if s.trim_start().starts_with('[') {
            let l = parse_num_list(&s).map_err(|e| format!("field `{}`: {}", f, e))?;
            if l.len() != 16 || l.iter().any(|&b| b > 255) {
                return Err(format!("field `{}`: v128 wants a list of 16 bytes", f));
            }
            let mut b = [0u8; 16];
            for (i, x) in l.iter().enumerate() {
                b[i] = *x as u8;
            }
            b
        } else {
            // a plain (possibly negative / hex) 128-bit integer
            parse_i128(&s)
                .map_err(|e| format!("field `{}`: {}", f, e))?
                .to_le_bytes()
        };
        self.rec(f, render_list(bytes.iter()));
        Ok(i128::from_le_bytes(bytes))
    }
    fn lane(&mut self, f: &str) -> R<u8> {
        let v = parse_u64(&self.get(f)?).map_err(|e| format!("field `{}`: {}", f, e))?;
        let v = u8::try_from(v).map_err(|_| format!("field `{}`: lane does not fit in u8", f))?;
        self.rec(f, v.to_string());
        Ok(v)
    }
    fn shuffle(&mut self, f: &str) -> R<[u8; 16]> {
        let l = parse_num_list(&self.get(f)?).map_err(|e| format!("field `{}`: {}", f, e))?;
        if l.len() != 16 || l.iter().any(|&b| b > 255) {
            return Err(format!("field `{}`: shuffle wants a list of 16 lanes (u8)", f));
        }
        let mut b = [0u8; 16];
        for (i, x) in l.iter().enumerate() {
            b[i] = *x as u8;
        }
        self.rec(f, render_list(b.iter()));
        Ok(b)
    }
    fn memarg(&mut self, f: &str) -> R<MemArg> {
        let p = memarg_prefix(f);
        let align = parse_u32(&self.get_sub(f, "align")?).map_err(|e| format!("{}.align: {}", p, e))?;
        let offset = parse_u64(&self.get_sub(f, "offset")?).map_err(|e| format!("{}.offset: {}", p, e))?;
        let memory_index = parse_u32(&self.get_sub(f, "memory_index")?)
            .map_err(|e| format!("{}.memory_index: {}", p, e))?;
        self.rec(&format!("{}.align", p), align.to_string());
        self.rec(&format!("{}.offset", p), offset.to_string());
        self.rec(&format!("{}.memory_index", p), memory_index.to_string());
        Ok(MemArg {
            align,
            offset,
            memory_index,
        })
    }
    fn block_type(&mut self, f: &str) -> R<BlockType> {
        let b = parse_block_type(&self.get(f)?).map_err(|e| format!("field `{}`: {}", f, e))?;
        self.rec(f, render_block_type(b));
        Ok(b)
    }
    fn val_type(&mut self, f: &str) -> R<ValType> {
        let v = parse_val_type(&self.get(f)?).map_err(|e| format!("field `{}`: {}", f, e))?;
        self.rec(f, render_val_type(v));
        Ok(v)
    }
    fn heap_type(&mut self, f: &str) -> R<HeapType> {
        let v = parse_heap_type(&self.get(f)?).map_err(|e| format!("field `{}`: {}", f, e))?;
        self.rec(f, render_heap_type(v));
        Ok(v)
    }
    fn ref_type(&mut self, f: &str) -> R<RefType> {
        let v = parse_ref_type(&self.get(f)?).map_err(|e| format!("field `{}`: {}", f, e))?;
        self.rec(f, render_ref_type(v));
        Ok(v)
    }
    fn ordering(&mut self, f: &str) -> R<Ordering> {
        let s = self.get(f)?;
        let o = match s.trim().to_ascii_lowercase().as_str() {
            "seqcst" | "seq_cst" => Ordering::SeqCst,
            "acqrel" | "acq_rel" => Ordering::AcqRel,
            _ => return Err(format!("field `{}`: bad ordering `{}`", f, s)),
        };
        self.rec(f, render_ordering(o).to_string());
        Ok(o)
    }
    fn u32_list(&mut self, f: &str) -> R<Cow<'static, [u32]>> {
        let l = parse_num_list(&self.get(f)?).map_err(|e| format!("field `{}`: {}", f, e))?;
        let mut v = Vec::with_capacity(l.len());
        for x in l {
            v.push(u32::try_from(x).map_err(|_| format!("field `{}`: {} does not fit in u32", f, x))?);
        }
        self.u32_lists.push((f.to_string(), v.clone()));
        self.rec(f, render_list(v.iter()));
        Ok(Cow::Owned(v))
    }
    fn catch_list(&mut self, f: &str) -> R<Cow<'static, [Catch]>> {
        let s = self.get(f)?;
        let t = s.trim();
        let inner = t
            .strip_prefix('[')
            .and_then(|x| x.strip_suffix(']'))
            .ok_or_else(|| format!("field `{}`: expected a `[..]` list", f))?;
        let mut v = Vec::new();
        for part in inner.split(',') {
            if part.trim().is_empty() {
                continue;
            }
            v.push(parse_catch(part).map_err(|e| format!("field `{}`: {}", f, e))?);
        }
        self.rec(f, render_list(v.iter().map(render_catch)));
        Ok(Cow::Owned(v))
    }
}
