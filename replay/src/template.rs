//! The fixed module environment used by `op-roundtrip`, and the operand search.
//!
//! The template is laid out so that walrus' deterministic re-numbering on emit
//! is the IDENTITY on every index space (so a verbatim comparison of the
//! target operator is meaningful):
//!   * types are distinct and already in walrus' emit order (sorted by
//!     params, then results);
//!   * the function's "locals" are its 13 PARAMETERS (walrus drops/renumbers
//!     unused declared locals, but never parameters);
//!   * imports come first, the single defined function last.
//!
//! Index spaces (all index markers < 12 resolve):
//!   types      0 []                 1 [i32]          2 [i32 i32]     3 [i32 i32 i32]
//!              4 [i32 i64]          5 [i32 f32]      6 [i32 f64]     7 [i64]
//!              8 [i64 i32]          9 [i64 i64]->[i64 i64]           10 [f32]
//!              11 [f64 f64]         12 = type of the defined function (below)
//!   functions  0..11 imported "env"."f<i>" of type i (function 9 has type 8,
//!              so that `return_call 9` stays valid); 12 = defined, exported "f"
//!   tables     0..11, funcref min 16, except table 7: externref
//!   memories   0..2, min 1 page; 64-bit iff `memory64`; shared with max 16 iff `shared`
//!   globals    0..11 mutable i32 (init i32.const i), except 5: i64, 7: funcref
//!   data       0..11 passive, one byte each;  elements 0..11 passive funcref [ref.func i]
//!   locals     (= params of function 12)  0 externref, 1 funcref, 2 v128,
//!              3,4 f64, 5,6 f32, 7,8 i64, 9..12 i32

use wasm_encoder::{
    CodeSection, ConstExpr, DataCountSection, DataSection, ElementSection, Elements, EntityType,
    ExportKind, ExportSection, Function, FunctionSection, GlobalSection, GlobalType, HeapType,
    ImportSection, Instruction, MemorySection, MemoryType, Module, RefType, TableSection, TableType,
    TypeSection, ValType,
};

#[derive(Clone, Copy, Debug, PartialEq, Eq)]
pub enum Ty {
    I32,
    I64,
    F32,
    F64,
    V128,
    FuncRef,
    ExternRef,
}

pub const ALPHABET: [Ty; 7] = [
    Ty::I32,
    Ty::I64,
    Ty::F32,
    Ty::F64,
    Ty::V128,
    Ty::FuncRef,
    Ty::ExternRef,
];

impl Ty {
    pub fn name(self) -> &'static str {
        match self {
            Ty::I32 => "i32",
            Ty::I64 => "i64",
            Ty::F32 => "f32",
            Ty::F64 => "f64",
            Ty::V128 => "v128",
            Ty::FuncRef => "funcref",
            Ty::ExternRef => "externref",
        }
    }
    pub fn val_type(self) -> ValType {
        match self {
            Ty::I32 => ValType::I32,
            Ty::I64 => ValType::I64,
            Ty::F32 => ValType::F32,
            Ty::F64 => ValType::F64,
            Ty::V128 => ValType::V128,
            Ty::FuncRef => ValType::Ref(RefType::FUNCREF),
            Ty::ExternRef => ValType::Ref(RefType::EXTERNREF),
        }
    }
    /// the first local (parameter of function 12) of this type
    pub fn local(self) -> u32 {
        match self {
            Ty::ExternRef => 0,
            Ty::FuncRef => 1,
            Ty::V128 => 2,
            Ty::F64 => 3,
            Ty::F32 => 5,
            Ty::I64 => 7,
            Ty::I32 => 9,
        }
    }
}

/// Types of the 13 locals (= parameters of the defined function), by index.
pub const LOCALS: [Ty; 13] = [
    Ty::ExternRef,
    Ty::FuncRef,
    Ty::V128,
    Ty::F64,
    Ty::F64,
    Ty::F32,
    Ty::F32,
    Ty::I64,
    Ty::I64,
    Ty::I32,
    Ty::I32,
    Ty::I32,
    Ty::I32,
];

pub const DEFINED_FUNC: u32 = 12;

#[derive(Clone, Copy, Debug)]
pub struct Env {
    pub memory64: bool,
    pub shared: bool,
}

fn func_types() -> Vec<(Vec<ValType>, Vec<ValType>)> {
    use ValType::*;
    vec![
        (vec![], vec![]),
        (vec![I32], vec![]),
        (vec![I32, I32], vec![]),
        (vec![I32, I32, I32], vec![]),
        (vec![I32, I64], vec![]),
        (vec![I32, F32], vec![]),
        (vec![I32, F64], vec![]),
        (vec![I64], vec![]),
        (vec![I64, I32], vec![]),
        (vec![I64, I64], vec![I64, I64]),
        (vec![F32], vec![]),
        (vec![F64, F64], vec![]),
        (LOCALS.iter().map(|t| t.val_type()).collect(), vec![]),
    ]
}

/// Build the template module around the given function body (which must
/// include the final `End`).
pub fn build_module(env: Env, body: &[Instruction<'_>]) -> Vec<u8> {
    let mut module = Module::new();

    let mut types = TypeSection::new();
    for (p, r) in func_types() {
        types.function(p, r);
    }
    module.section(&types);

    let mut imports = ImportSection::new();
    for i in 0..12u32 {
        let ty = if i == 9 { 8 } else { i };
        imports.import("env", &format!("f{}", i), EntityType::Function(ty));
    }
    module.section(&imports);

    let mut funcs = FunctionSection::new();
    funcs.function(12);
    module.section(&funcs);

    let mut tables = TableSection::new();
    for i in 0..12 {
        tables.table(TableType {
            element_type: if i == 7 { RefType::EXTERNREF } else { RefType::FUNCREF },
            table64: false,
            minimum: 16,
            maximum: None,
            shared: false,
        });
    }
    module.section(&tables);

    let mut mems = MemorySection::new();
    for _ in 0..3 {
        mems.memory(MemoryType {
            minimum: 1,
            maximum: if env.shared { Some(16) } else { None },
            memory64: env.memory64,
            shared: env.shared,
            page_size_log2: None,
        });
    }
    module.section(&mems);

    let mut globals = GlobalSection::new();
    for i in 0..12i32 {
        let (val_type, init) = match i {
            5 => (ValType::I64, ConstExpr::i64_const(5)),
            7 => (ValType::Ref(RefType::FUNCREF), ConstExpr::ref_null(HeapType::FUNC)),
            _ => (ValType::I32, ConstExpr::i32_const(i)),
        };
        globals.global(
            GlobalType {
                val_type,
                mutable: true,
                shared: false,
            },
            &init,
        );
    }
    module.section(&globals);

    let mut exports = ExportSection::new();
    exports.export("f", ExportKind::Func, DEFINED_FUNC);
    module.section(&exports);

    let mut elems = ElementSection::new();
    for i in 0..12u32 {
        elems.passive(Elements::Functions(&[i]));
    }
    module.section(&elems);

    module.section(&DataCountSection { count: 12 });

    let mut code = CodeSection::new();
    let mut f = Function::new(Vec::<(u32, ValType)>::new());
    for i in body {
        f.instruction(i);
    }
    code.function(&f);
    module.section(&code);

    let mut data = DataSection::new();
    for i in 0..12u8 {
        data.passive(vec![i]);
    }
    module.section(&data);

    module.finish()
}

/// How the target instruction is embedded in the function body.
pub struct Context {
    /// instructions before the operand pushes
    pub prefix: Vec<Instruction<'static>>,
    /// instructions after the target (includes the function's final `End`)
    pub suffix: Vec<Instruction<'static>>,
    /// false: the context is fixed, do not search operands
    pub search: bool,
    pub note: &'static str,
}

/// Choose the embedding for `name`.  `max_label` is the largest branch label
/// among the immediates (only meaningful for branch instructions).
pub fn context_for(name: &str, max_label: Option<u32>) -> Context {
    use wasm_encoder::BlockType::Empty;
    use Instruction as I;
    match name {
        // structured control: needs a matching `end`
        "Block" | "Loop" | "Try" | "TryTable" => Context {
            prefix: vec![],
            suffix: vec![I::Unreachable, I::End, I::Unreachable, I::End],
            search: true,
            note: "<operands> TARGET unreachable end unreachable end",
        },
        // an `if` with results needs an `else`
        "If" => Context {
            prefix: vec![],
            suffix: vec![I::Unreachable, I::Else, I::Unreachable, I::End, I::Unreachable, I::End],
            search: true,
            note: "<operands> TARGET unreachable else unreachable end unreachable end",
        },
        "Else" => Context {
            prefix: vec![I::LocalGet(Ty::I32.local()), I::If(Empty)],
            suffix: vec![I::End, I::Unreachable, I::End],
            search: false,
            note: "local.get 9; if; TARGET(else) end unreachable end",
        },
        "End" => Context {
            prefix: vec![I::Block(Empty)],
            suffix: vec![I::Unreachable, I::End],
            search: false,
            note: "block; TARGET(end) unreachable end",
        },
        // branches: wrap in enough empty blocks for the labels to resolve
        "Br" | "BrIf" | "BrTable" | "BrOnNull" | "BrOnNonNull" | "BrOnCast" | "BrOnCastFail" => {
            let depth = match max_label {
                Some(l) if l >= 12 && l < 4096 => l as usize + 1,
                _ => 12,
            };
            let mut suffix = vec![I::Unreachable];
            suffix.extend(std::iter::repeat(I::End).take(depth));
            suffix.push(I::End);
            Context {
                prefix: std::iter::repeat(I::Block(Empty)).take(depth).collect(),
                suffix,
                search: true,
                note: "N x block; <operands> TARGET unreachable; N x end; end  (N = max(12, max label + 1))",
            }
        }
        _ => Context {
            prefix: vec![],
            suffix: vec![I::Unreachable, I::End],
            search: true,
            note: "<operands> TARGET unreachable end",
        },
    }
}

pub fn assemble(
    env: Env,
    cx: &Context,
    operands: &[Ty],
    target: &Instruction<'static>,
) -> (Vec<u8>, usize) {
    let mut body: Vec<Instruction<'static>> = Vec::new();
    body.extend(cx.prefix.iter().cloned());
    for t in operands {
        body.push(Instruction::LocalGet(t.local()));
    }
    let pos = body.len();
    body.push(target.clone());
    body.extend(cx.suffix.iter().cloned());
    (build_module(env, &body), pos)
}

fn validates(bytes: &[u8]) -> Result<(), String> {
    let mut v = wasmparser::Validator::new_with_features(crate::walrus_features());
    v.validate_all(bytes).map(|_| ()).map_err(|e| e.message().to_string())
}

pub struct Found {
    pub wasm: Vec<u8>,
    pub operands: Vec<Ty>,
    pub target_index: usize,
    pub tried: usize,
}

/// Search operand type lists of length 0..=4 over `ALPHABET` (shortest first,
/// lexicographic in alphabet order) and return the first module that validates.
/// `Err` carries the number of candidates tried and the distinct validation
/// errors seen (non-"type mismatch" errors first, then by frequency; at most 6).
pub fn search(
    env: Env,
    cx: &Context,
    target: &Instruction<'static>,
) -> Result<Found, (usize, Vec<(String, usize)>)> {
    let mut tried = 0usize;
    let mut errors: std::collections::BTreeMap<String, usize> = Default::default();
    let max_len = if cx.search { 4 } else { 0 };
    for len in 0..=max_len {
        let total = ALPHABET.len().pow(len as u32);
        for mut code in 0..total {
            let mut operands = vec![Ty::I32; len];
            for slot in (0..len).rev() {
                operands[slot] = ALPHABET[code % ALPHABET.len()];
                code /= ALPHABET.len();
            }
            let (wasm, pos) = assemble(env, cx, &operands, target);
            tried += 1;
            match validates(&wasm) {
                Ok(()) => {
                    return Ok(Found {
                        wasm,
                        operands,
                        target_index: pos,
                        tried,
                    })
                }
                Err(e) => *errors.entry(e).or_insert(0) += 1,
            }
        }
    }
    let mut errs: Vec<(String, usize)> = errors.into_iter().collect();
    errs.sort_by_key(|(m, n)| (m.starts_with("type mismatch"), std::cmp::Reverse(*n)));
    errs.truncate(6);
    Err((tried, errs))
}
