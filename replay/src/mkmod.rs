//! `vreplay build <spec.json> -o <out.wasm>`: assemble a wasm binary with
//! wasm-encoder from a JSON module description.  No validation, no walrus.
//!
//! Section order: customs(place=start), type, import, function, table, memory,
//! global, export, start, element, datacount, customs(place=before-code),
//! code, data, name, producers, customs(place=end).  A section is omitted
//! when its list is empty/absent.

use crate::fields::{parse_ref_type, parse_val_type};
use crate::witness::*;
use serde_json::{Map, Value};
use std::borrow::Cow;
use wasm_encoder::{
    CodeSection, ConstExpr, CustomSection, DataCountSection, DataSection, DataSegment, DataSegmentMode,
    ElementMode, ElementSection, ElementSegment, Elements, Encode, EntityType, ExportKind, ExportSection,
    Function, FunctionSection, GlobalSection, GlobalType, ImportSection, IndirectNameMap, MemorySection,
    MemoryType, Module, NameMap, NameSection, ProducersField, ProducersSection, StartSection, TableSection,
    TableType, TypeSection, ValType,
};

const TOP_KEYS: [&str; 14] = [
    "types",
    "imports",
    "funcs",
    "tables",
    "memories",
    "globals",
    "exports",
    "start",
    "elements",
    "data_count",
    "data",
    "customs",
    "names",
    "producers",
];

fn list<'a>(o: &'a Map<String, Value>, k: &str) -> Result<&'a [Value], String> {
    match opt(o, k) {
        None => Ok(&[]),
        Some(v) => Ok(as_arr(v, k)?.as_slice()),
    }
}

fn val_types(v: &Value, what: &str) -> Result<Vec<ValType>, String> {
    as_arr(v, what)?
        .iter()
        .map(|t| {
            parse_val_type(t.as_str().ok_or_else(|| format!("{}: value types are strings", what))?)
                .map_err(|e| format!("{}: {}", what, e))
        })
        .collect()
}

fn table_type(o: &Map<String, Value>, what: &str) -> Result<TableType, String> {
    Ok(TableType {
        element_type: parse_ref_type(req_str(o, "element_type", what)?).map_err(|e| format!("{}: {}", what, e))?,
        table64: opt_bool(o, "table64", what)?,
        minimum: as_u64(req(o, "initial", what)?, &format!("{}.initial", what))?,
        maximum: opt_u64(o, "maximum", what)?,
        shared: opt_bool(o, "shared", what)?,
    })
}

fn memory_type(o: &Map<String, Value>, what: &str) -> Result<MemoryType, String> {
    Ok(MemoryType {
        minimum: as_u64(req(o, "initial", what)?, &format!("{}.initial", what))?,
        maximum: opt_u64(o, "maximum", what)?,
        memory64: opt_bool(o, "memory64", what)?,
        shared: opt_bool(o, "shared", what)?,
        page_size_log2: match opt_u64(o, "page_size_log2", what)? {
            None => None,
            Some(v) => Some(u32::try_from(v).map_err(|_| format!("{}.page_size_log2 too large", what))?),
        },
    })
}

fn global_type(o: &Map<String, Value>, what: &str) -> Result<GlobalType, String> {
    Ok(GlobalType {
        val_type: parse_val_type(req_str(o, "ty", what)?).map_err(|e| format!("{}: {}", what, e))?,
        mutable: opt_bool(o, "mutable", what)?,
        shared: opt_bool(o, "shared", what)?,
    })
}

/// A constant expression: ONE instruction; wasm-encoder appends the `end`.
fn const_expr(v: &Value, what: &str) -> Result<ConstExpr, String> {
    let b = parse_instruction(v, &[]).map_err(|e| format!("{}: {}", what, e))?;
    let mut bytes = Vec::new();
    b.instr.encode(&mut bytes);
    Ok(ConstExpr::raw(bytes))
}

fn name_map(v: &Value, what: &str) -> Result<NameMap, String> {
    let mut m = NameMap::new();
    // emitted in the order written in the JSON (no sorting, no validation)
    for (k, n) in as_obj(v, what)? {
        let idx = crate::fields::parse_u32(k).map_err(|e| format!("{}: {}", what, e))?;
        m.append(idx, n.as_str().ok_or_else(|| format!("{}: names are strings", what))?);
    }
    Ok(m)
}

fn indirect_name_map(v: &Value, what: &str) -> Result<IndirectNameMap, String> {
    let mut m = IndirectNameMap::new();
    for (k, inner) in as_obj(v, what)? {
        let idx = crate::fields::parse_u32(k).map_err(|e| format!("{}: {}", what, e))?;
        m.append(idx, &name_map(inner, &format!("{}.{}", what, k))?);
    }
    Ok(m)
}

fn custom_sections(module: &mut Module, customs: &[Value], place: &str) -> Result<(), String> {
    for (i, c) in customs.iter().enumerate() {
        let what = format!("customs[{}]", i);
        let o = as_obj(c, &what)?;
        let p = match opt(o, "place") {
            None => "end",
            Some(v) => v.as_str().ok_or_else(|| format!("{}: `place` must be a string", what))?,
        };
        if !["start", "before-code", "end"].contains(&p) {
            return Err(format!("{}: bad place `{}` (start | before-code | end)", what, p));
        }
        if p != place {
            continue;
        }
        let data = parse_hex(req_str(o, "data", &what)?, &what)?;
        module.section(&CustomSection {
            name: Cow::Borrowed(req_str(o, "name", &what)?),
            data: Cow::Owned(data),
        });
    }
    Ok(())
}

pub fn build_from_spec(spec: &Value) -> Result<Vec<u8>, String> {
    let o = as_obj(spec, "spec")?;
    for k in o.keys() {
        if !TOP_KEYS.contains(&k.as_str()) {
            return Err(format!("unknown spec key `{}` (known: {:?})", k, TOP_KEYS));
        }
    }
    let customs = list(o, "customs")?;
    let mut module = Module::new();

    custom_sections(&mut module, customs, "start")?;

    // type
    let types = list(o, "types")?;
    if !types.is_empty() {
        let mut s = TypeSection::new();
        for (i, t) in types.iter().enumerate() {
            let what = format!("types[{}]", i);
            let t = as_obj(t, &what)?;
            let params = match opt(t, "params") {
                None => vec![],
                Some(v) => val_types(v, &format!("{}.params", what))?,
            };
            let results = match opt(t, "results") {
                None => vec![],
                Some(v) => val_types(v, &format!("{}.results", what))?,
            };
            s.function(params, results);
        }
        module.section(&s);
    }

    // import
    let imports = list(o, "imports")?;
    if !imports.is_empty() {
        let mut s = ImportSection::new();
        for (i, imp) in imports.iter().enumerate() {
            let what = format!("imports[{}]", i);
            let m = as_obj(imp, &what)?;
            let ty = match req_str(m, "kind", &what)? {
                "func" => EntityType::Function(as_u32(req(m, "type", &what)?, &format!("{}.type", what))?),
                "memory" => EntityType::Memory(memory_type(m, &what)?),
                "table" => EntityType::Table(table_type(m, &what)?),
                "global" => EntityType::Global(global_type(m, &what)?),
                other => return Err(format!("{}: bad kind `{}`", what, other)),
            };
            s.import(req_str(m, "module", &what)?, req_str(m, "name", &what)?, ty);
        }
        module.section(&s);
    }

    // function
    let funcs = list(o, "funcs")?;
    if !funcs.is_empty() {
        let mut s = FunctionSection::new();
        for (i, f) in funcs.iter().enumerate() {
            let what = format!("funcs[{}]", i);
            s.function(as_u32(req(as_obj(f, &what)?, "type", &what)?, &format!("{}.type", what))?);
        }
        module.section(&s);
    }

    // table
    let tables = list(o, "tables")?;
    if !tables.is_empty() {
        let mut s = TableSection::new();
        for (i, t) in tables.iter().enumerate() {
            let what = format!("tables[{}]", i);
            let t = as_obj(t, &what)?;
            let ty = table_type(t, &what)?;
            match opt(t, "init") {
                None => {
                    s.table(ty);
                }
                Some(e) => {
                    s.table_with_init(ty, &const_expr(e, &format!("{}.init", what))?);
                }
            }
        }
        module.section(&s);
    }

    // memory
    let memories = list(o, "memories")?;
    if !memories.is_empty() {
        let mut s = MemorySection::new();
        for (i, m) in memories.iter().enumerate() {
            let what = format!("memories[{}]", i);
            s.memory(memory_type(as_obj(m, &what)?, &what)?);
        }
        module.section(&s);
    }

    // global
    let globals = list(o, "globals")?;
    if !globals.is_empty() {
        let mut s = GlobalSection::new();
        for (i, g) in globals.iter().enumerate() {
            let what = format!("globals[{}]", i);
            let g = as_obj(g, &what)?;
            s.global(
                global_type(g, &what)?,
                &const_expr(req(g, "init", &what)?, &format!("{}.init", what))?,
            );
        }
        module.section(&s);
    }

    // export
    let exports = list(o, "exports")?;
    if !exports.is_empty() {
        let mut s = ExportSection::new();
        for (i, e) in exports.iter().enumerate() {
            let what = format!("exports[{}]", i);
            let e = as_obj(e, &what)?;
            let kind = match req_str(e, "kind", &what)? {
                "func" => ExportKind::Func,
                "table" => ExportKind::Table,
                "memory" => ExportKind::Memory,
                "global" => ExportKind::Global,
                "tag" => ExportKind::Tag,
                other => return Err(format!("{}: bad kind `{}`", what, other)),
            };
            s.export(
                req_str(e, "name", &what)?,
                kind,
                as_u32(req(e, "index", &what)?, &format!("{}.index", what))?,
            );
        }
        module.section(&s);
    }

    // start
    if let Some(v) = opt(o, "start") {
        module.section(&StartSection {
            function_index: as_u32(v, "start")?,
        });
    }

    // element
    let elements = list(o, "elements")?;
    if !elements.is_empty() {
        let mut s = ElementSection::new();
        for (i, e) in elements.iter().enumerate() {
            let what = format!("elements[{}]", i);
            let e = as_obj(e, &what)?;
            let offset;
            let mode = match req_str(e, "mode", &what)? {
                "passive" => ElementMode::Passive,
                "declared" => ElementMode::Declared,
                "active" => {
                    offset = const_expr(req(e, "offset", &what)?, &format!("{}.offset", what))?;
                    ElementMode::Active {
                        // null -> MVP encoding (no table index); number -> explicit index
                        table: match opt(e, "table") {
                            None => None,
                            Some(v) => Some(as_u32(v, &format!("{}.table", what))?),
                        },
                        offset: &offset,
                    }
                }
                other => return Err(format!("{}: bad mode `{}`", what, other)),
            };
            let items = as_obj(req(e, "items", &what)?, &format!("{}.items", what))?;
            let func_items: Vec<u32>;
            let expr_items: Vec<ConstExpr>;
            let elements = if let Some(fs) = opt(items, "funcs") {
                func_items = as_arr(fs, &format!("{}.items.funcs", what))?
                    .iter()
                    .map(|v| as_u32(v, &format!("{}.items.funcs", what)))
                    .collect::<Result<_, _>>()?;
                Elements::Functions(&func_items)
            } else if let Some(ex) = opt(items, "exprs") {
                let w = format!("{}.items.exprs", what);
                let ex = as_obj(ex, &w)?;
                let ty = parse_ref_type(req_str(ex, "ty", &w)?).map_err(|e| format!("{}: {}", w, e))?;
                expr_items = as_arr(req(ex, "items", &w)?, &w)?
                    .iter()
                    .enumerate()
                    .map(|(j, v)| const_expr(v, &format!("{}.items[{}]", w, j)))
                    .collect::<Result<_, _>>()?;
                Elements::Expressions(ty, &expr_items)
            } else {
                return Err(format!("{}.items needs `funcs` or `exprs`", what));
            };
            s.segment(ElementSegment { mode, elements });
        }
        module.section(&s);
    }

    // data count
    if let Some(v) = opt(o, "data_count") {
        module.section(&DataCountSection {
            count: as_u32(v, "data_count")?,
        });
    }

    custom_sections(&mut module, customs, "before-code")?;

    // code
    if !funcs.is_empty() {
        let mut s = CodeSection::new();
        for (i, f) in funcs.iter().enumerate() {
            let what = format!("funcs[{}]", i);
            let f = as_obj(f, &what)?;
            let mut locals: Vec<(u32, ValType)> = Vec::new();
            if let Some(l) = opt(f, "locals") {
                for (j, pair) in as_arr(l, &format!("{}.locals", what))?.iter().enumerate() {
                    let w = format!("{}.locals[{}]", what, j);
                    let pair = as_arr(pair, &w)?;
                    if pair.len() != 2 {
                        return Err(format!("{}: expected [count, type]", w));
                    }
                    locals.push((
                        as_u32(&pair[0], &w)?,
                        parse_val_type(pair[1].as_str().ok_or_else(|| format!("{}: type is a string", w))?)
                            .map_err(|e| format!("{}: {}", w, e))?,
                    ));
                }
            }
            let mut func = Function::new(locals);
            // emitted verbatim: the caller includes the final End
            for (j, op) in list(f, "ops")?.iter().enumerate() {
                let b = parse_instruction(op, &[]).map_err(|e| format!("{}.ops[{}]: {}", what, j, e))?;
                func.instruction(&b.instr);
            }
            s.function(&func);
        }
        module.section(&s);
    }

    // data
    let data = list(o, "data")?;
    if !data.is_empty() {
        let mut s = DataSection::new();
        for (i, d) in data.iter().enumerate() {
            let what = format!("data[{}]", i);
            let d = as_obj(d, &what)?;
            let bytes = parse_hex(req_str(d, "bytes", &what)?, &what)?;
            let offset;
            let mode = match req_str(d, "mode", &what)? {
                "passive" => DataSegmentMode::Passive,
                "active" => {
                    offset = const_expr(req(d, "offset", &what)?, &format!("{}.offset", what))?;
                    DataSegmentMode::Active {
                        memory_index: match opt(d, "memory") {
                            None => 0,
                            Some(v) => as_u32(v, &format!("{}.memory", what))?,
                        },
                        offset: &offset,
                    }
                }
                other => return Err(format!("{}: bad mode `{}`", what, other)),
            };
            s.segment(DataSegment { mode, data: bytes });
        }
        module.section(&s);
    }

    // name
    if let Some(n) = opt(o, "names") {
        let n = as_obj(n, "names")?;
        let mut s = NameSection::new();
        // subsections are emitted in the order the keys are written
        for (k, v) in n {
            if v.is_null() {
                continue;
            }
            let what = format!("names.{}", k);
            match k.as_str() {
                "module" => s.module(v.as_str().ok_or("names.module must be a string")?),
                "functions" => s.functions(&name_map(v, &what)?),
                "locals" => s.locals(&indirect_name_map(v, &what)?),
                "labels" => s.labels(&indirect_name_map(v, &what)?),
                "types" => s.types(&name_map(v, &what)?),
                "tables" => s.tables(&name_map(v, &what)?),
                "memories" => s.memories(&name_map(v, &what)?),
                "globals" => s.globals(&name_map(v, &what)?),
                "elements" => s.elements(&name_map(v, &what)?),
                "data" => s.data(&name_map(v, &what)?),
                other => return Err(format!("unknown names key `{}`", other)),
            }
        }
        module.section(&s);
    }

    // producers
    if let Some(p) = opt(o, "producers") {
        let mut s = ProducersSection::new();
        for (i, f) in as_arr(p, "producers")?.iter().enumerate() {
            let what = format!("producers[{}]", i);
            let f = as_obj(f, &what)?;
            let mut field = ProducersField::new();
            for pair in as_arr(req(f, "values", &what)?, &what)? {
                let pair = as_arr(pair, &what)?;
                if pair.len() != 2 {
                    return Err(format!("{}: values are [name, version] pairs", what));
                }
                field.value(
                    pair[0].as_str().ok_or_else(|| format!("{}: name is a string", what))?,
                    pair[1].as_str().ok_or_else(|| format!("{}: version is a string", what))?,
                );
            }
            s.field(req_str(f, "field", &what)?, &field);
        }
        module.section(&s);
    }

    custom_sections(&mut module, customs, "end")?;

    Ok(module.finish())
}

pub fn run(spec_path: &str, out_path: &str) -> Result<usize, String> {
    let text = std::fs::read_to_string(spec_path).map_err(|e| format!("cannot read {}: {}", spec_path, e))?;
    let spec: Value = serde_json::from_str(&text).map_err(|e| format!("{}: bad JSON: {}", spec_path, e))?;
    let wasm = build_from_spec(&spec)?;
    std::fs::write(out_path, &wasm).map_err(|e| format!("cannot write {}: {}", out_path, e))?;
    Ok(wasm.len())
}
