//! `vreplay roundtrip`: walrus parse -> [gc] -> emit [-> emit], with dumps.

use crate::dump::{dump_module, validity};
use serde_json::{json, Value};
use std::panic::{catch_unwind, AssertUnwindSafe};
use std::sync::Mutex;

pub static LAST_PANIC_LOCATION: Mutex<Option<String>> = Mutex::new(None);

#[derive(Default, Clone, Debug)]
pub struct Options {
    pub gc: bool,
    pub no_names: bool,
    pub no_producers: bool,
    pub twice: bool,
}

pub enum Outcome {
    Ok { first: Vec<u8>, second: Option<Vec<u8>> },
    ParseError(String),
    /// message, stage ("parse" | "gc" | "emit" | "emit2"), and the first
    /// output if the panic happened after it was produced
    Panic(String, &'static str, Option<Vec<u8>>),
}

/// Run the real walrus on `wasm`.  Panics are caught.
pub fn run_walrus(wasm: &[u8], opts: &Options) -> Outcome {
    *LAST_PANIC_LOCATION.lock().unwrap() = None;
    let mut stage: &'static str = "parse";
    let mut first: Option<Vec<u8>> = None;
    let r = catch_unwind(AssertUnwindSafe(|| -> Result<Option<Vec<u8>>, String> {
        let mut config = walrus::ModuleConfig::new();
        if opts.no_producers {
            config.generate_producers_section(false);
        }
        if opts.no_names {
            config.generate_name_section(false);
        }
        let mut module = config.parse(wasm).map_err(|e| format!("{:#}", e))?;
        if opts.gc {
            stage = "gc";
            walrus::passes::gc::run(&mut module);
        }
        stage = "emit";
        first = Some(module.emit_wasm());
        if opts.twice {
            stage = "emit2";
            Ok(Some(module.emit_wasm()))
        } else {
            Ok(None)
        }
    }));
    match r {
        Ok(Ok(second)) => Outcome::Ok {
            first: first.expect("first output"),
            second,
        },
        Ok(Err(e)) => Outcome::ParseError(e),
        Err(p) => {
            let loc = LAST_PANIC_LOCATION.lock().unwrap().clone().unwrap_or_default();
            Outcome::Panic(format!("{} [{}]", crate::panic_message(&p), loc), stage, first)
        }
    }
}

pub fn describe(bytes: &[u8]) -> Value {
    let (valid, err) = validity(bytes);
    json!({
        "valid": valid,
        "validation_error": err,
        "size": bytes.len(),
        "dump": dump_module(bytes),
    })
}

pub fn run(path: &str, opts: &Options) -> Result<Value, String> {
    let raw = std::fs::read(path).map_err(|e| format!("cannot read {}: {}", path, e))?;
    let wasm = if path.ends_with(".wat") || path.ends_with(".wast") {
        wat::parse_bytes(&raw)
            .map_err(|e| format!("cannot parse {} as wat: {}", path, e))?
            .into_owned()
    } else {
        raw
    };

    let mut out = serde_json::Map::new();
    out.insert("file".into(), json!(path));
    out.insert(
        "options".into(),
        json!({"gc": opts.gc, "no_names": opts.no_names, "no_producers": opts.no_producers, "twice": opts.twice}),
    );
    let input = describe(&wasm);
    match run_walrus(&wasm, opts) {
        Outcome::Ok { first, second } => {
            out.insert("status".into(), json!("ok"));
            out.insert("error".into(), Value::Null);
            out.insert("input".into(), input);
            out.insert("output".into(), describe(&first));
            match second {
                Some(s) => {
                    out.insert("output2_identical".into(), json!(s == first));
                    out.insert("output2".into(), describe(&s));
                }
                None => {
                    out.insert("output2".into(), Value::Null);
                }
            }
        }
        Outcome::ParseError(e) => {
            out.insert("status".into(), json!("parse-error"));
            out.insert("error".into(), json!(e));
            out.insert("input".into(), input);
            out.insert("output".into(), Value::Null);
            out.insert("output2".into(), Value::Null);
        }
        Outcome::Panic(e, stage, first) => {
            out.insert("status".into(), json!("panic"));
            out.insert("error".into(), json!(e));
            out.insert("panic_stage".into(), json!(stage));
            out.insert("input".into(), input);
            out.insert("output".into(), first.map(|f| describe(&f)).unwrap_or(Value::Null));
            out.insert("output2".into(), Value::Null);
        }
    }
    Ok(Value::Object(out))
}
