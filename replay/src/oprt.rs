//! `vreplay op-roundtrip <witness.json>`: replay one instruction through the
//! real walrus (parse + emit) inside a validating one-function module.

use crate::codec_table::hex;
use crate::dump::{function_ops, validity};
use crate::witness::parse_instruction;
use crate::roundtrip::{run_walrus, Options, Outcome};
use crate::template::{self, Env};
use serde_json::{json, Map, Value};
use wasm_encoder::Encode;

fn is_nop(debug: &str) -> bool {
    debug == "Nop"
}

/// Returns the JSON report and the process exit code (0, or 3 for
/// no-valid-context).  `Err` = usage error (bad witness).
pub fn run(path: &str, emit_wasm: Option<&str>) -> Result<(Value, i32), String> {
    let text = std::fs::read_to_string(path).map_err(|e| format!("cannot read {}: {}", path, e))?;
    let w: Value = serde_json::from_str(&text).map_err(|e| format!("{}: bad JSON: {}", path, e))?;
    let obj = w.as_object().ok_or("witness must be a JSON object")?;
    for k in obj.keys() {
        if !["instruction", "fields", "memory64", "shared"].contains(&k.as_str()) {
            return Err(format!("unknown witness key `{}`", k));
        }
    }
    let memory64 = match obj.get("memory64") {
        None | Some(Value::Null) => false,
        Some(Value::Bool(b)) => *b,
        Some(_) => return Err("`memory64` must be a boolean".into()),
    };
    let atomic = obj
        .get("instruction")
        .and_then(|v| v.as_str())
        .map_or(false, |n| n.contains("Atomic"));
    let shared = match obj.get("shared") {
        None | Some(Value::Null) => atomic,
        Some(Value::Bool(b)) => *b,
        Some(_) => return Err("`shared` must be a boolean".into()),
    };

    let built = parse_instruction(&w, &["memory64", "shared"])?;
    let (name, instr, src) = (built.name, built.instr, built.src);
    let mut instr_bytes = Vec::new();
    instr.encode(&mut instr_bytes);

    // labels (for branch nesting)
    let max_label = src
        .u32s
        .iter()
        .map(|(_, v)| *v)
        .chain(src.u32_lists.iter().flat_map(|(_, l)| l.iter().copied()))
        .max();

    let env = Env { memory64, shared };
    let cx = template::context_for(&name, max_label);

    let mut out = Map::new();
    out.insert("status".into(), Value::Null);
    out.insert("instruction".into(), json!(name));
    let mut fm = Map::new();
    for (k, v) in &src.rendered {
        fm.insert(k.clone(), json!(v));
    }
    out.insert("instr_fields".into(), Value::Object(fm));
    out.insert("instr_bytes".into(), json!(hex(&instr_bytes)));
    out.insert("memory64".into(), json!(memory64));
    out.insert("shared".into(), json!(shared));
    out.insert("context".into(), json!(cx.note));

    let found = match template::search(env, &cx, &instr) {
        Ok(f) => f,
        Err((tried, errors)) => {
            out.insert("status".into(), json!("no-valid-context"));
            out.insert("candidates_tried".into(), json!(tried));
            out.insert(
                "validation_errors".into(),
                Value::Array(
                    errors
                        .into_iter()
                        .map(|(m, n)| json!({"message": m, "count": n}))
                        .collect(),
                ),
            );
            out.insert("input_valid".into(), json!(false));
            out.insert("output_valid".into(), json!(false));
            out.insert("in_ops".into(), json!([]));
            out.insert("out_ops".into(), json!([]));
            out.insert("target_in".into(), Value::Null);
            out.insert("target_out".into(), Value::Null);
            out.insert("same".into(), json!(false));
            return Ok((Value::Object(out), 3));
        }
    };

    if let Some(p) = emit_wasm {
        std::fs::write(p, &found.wasm).map_err(|e| format!("cannot write {}: {}", p, e))?;
    }

    out.insert(
        "operands".into(),
        Value::Array(found.operands.iter().map(|t| json!(t.name())).collect()),
    );
    out.insert("candidates_tried".into(), json!(found.tried));
    out.insert("target_index".into(), json!(found.target_index));

    let (input_valid, input_err) = validity(&found.wasm);
    let in_ops = function_ops(&found.wasm, 0)?;
    let target_in = in_ops.get(found.target_index).cloned();
    // ordinal of the target among the non-nop operators of the input
    let ordinal = match &target_in {
        Some(t) if is_nop(t) => None,
        _ => Some(
            in_ops[..found.target_index.min(in_ops.len())]
                .iter()
                .filter(|o| !is_nop(o))
                .count(),
        ),
    };

    // The brief's exact configuration: producers section off, everything else default.
    let opts = Options {
        no_producers: true,
        ..Options::default()
    };
    let (status, error, output): (&str, Option<String>, Option<Vec<u8>>) = match run_walrus(&found.wasm, &opts) {
        Outcome::Ok { first, .. } => ("ok", None, Some(first)),
        Outcome::ParseError(e) => ("parse-error", Some(e), None),
        Outcome::Panic(e, stage, first) => ("panic", Some(format!("during {}: {}", stage, e)), first),
    };

    let (output_valid, output_err, out_ops) = match &output {
        Some(o) => {
            let (v, e) = validity(o);
            // walrus emits the single defined function as body #0
            let ops = function_ops(o, 0).unwrap_or_else(|e| vec![format!("<decode error: {}>", e)]);
            (v, e, ops)
        }
        None => (false, None, vec![]),
    };
    let target_out: Option<String> = match (&output, ordinal) {
        (Some(_), Some(k)) => out_ops.iter().filter(|o| !is_nop(o)).nth(k).cloned(),
        // the target is itself a nop: same absolute position
        (Some(_), None) => out_ops.get(found.target_index).cloned(),
        _ => None,
    };
    let same = target_in.is_some() && target_in == target_out;

    out.insert("status".into(), json!(status));
    out.insert("error".into(), json!(error));
    out.insert("input_valid".into(), json!(input_valid));
    out.insert("input_validation_error".into(), json!(input_err));
    out.insert("output_valid".into(), json!(output_valid));
    out.insert("output_validation_error".into(), json!(output_err));
    out.insert("in_ops".into(), json!(in_ops));
    out.insert("out_ops".into(), json!(out_ops));
    out.insert("target_in".into(), json!(target_in));
    out.insert("target_out".into(), json!(target_out));
    out.insert("same".into(), json!(same));
    out.insert("input_hex".into(), json!(hex(&found.wasm)));
    out.insert("output_hex".into(), json!(output.as_ref().map(|o| hex(o))));
    Ok((Value::Object(out), 0))
}
