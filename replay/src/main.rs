//! vreplay: native helper for the walrus verification framework.  See README.md.

mod codec_table;
mod dump;
mod dwarf;
mod fields;
mod gen_instrs;
mod mkmod;
mod opfields;
mod oprt;
mod roundtrip;
mod script;
mod template;
mod witness;

use std::any::Any;
use std::process::exit;

/// The feature set `walrus::ModuleConfig::new()` validates with
/// (`only_stable_features == false`), see /repo/src/module/config.rs.
pub fn walrus_features() -> wasmparser::WasmFeatures {
    use wasmparser::WasmFeatures as F;
    F::FLOATS
        | F::MUTABLE_GLOBAL
        | F::SATURATING_FLOAT_TO_INT
        | F::SIGN_EXTENSION
        | F::MULTI_VALUE
        | F::REFERENCE_TYPES
        | F::BULK_MEMORY
        | F::SIMD
        | F::RELAXED_SIMD
        | F::TAIL_CALL
        | F::MULTI_MEMORY
        | F::MEMORY64
        | F::THREADS
}

pub fn panic_message(p: &Box<dyn Any + Send>) -> String {
    if let Some(s) = p.downcast_ref::<&str>() {
        s.to_string()
    } else if let Some(s) = p.downcast_ref::<String>() {
        s.clone()
    } else {
        "<non-string panic payload>".to_string()
    }
}

fn usage() -> ! {
    eprintln!(
        "usage:\n  vreplay codec-table\n  vreplay op-roundtrip <witness.json> [--emit-wasm <out.wasm>]\n  vreplay roundtrip <file.wasm|file.wat> [--gc] [--no-names] [--no-producers] [--twice]\n  vreplay build <spec.json> -o <out.wasm>\n  vreplay script <script.json>\n  vreplay dwarf <script.json>\n  vreplay consts"
    );
    exit(2)
}

fn main() {
    let args: Vec<String> = std::env::args().skip(1).collect();
    if args.is_empty() {
        usage();
    }
    // Panics inside walrus are caught and reported in the JSON; keep stderr quiet
    // but remember the location of the last panic.
    std::panic::set_hook(Box::new(|info| {
        let loc = info
            .location()
            .map(|l| format!("{}:{}:{}", l.file(), l.line(), l.column()))
            .unwrap_or_default();
        *roundtrip::LAST_PANIC_LOCATION.lock().unwrap() = Some(loc);
    }));
    match args[0].as_str() {
        "consts" => {
            // byte representation of the packed wasmparser constants that walrus matches on
            fn b(r: wasmparser::RefType) -> Vec<u8> {
                let a: [u8; 3] = unsafe { std::mem::transmute(r) };
                a.to_vec()
            }
            let v = serde_json::json!({
                "wasmparser::RefType::FUNCREF": b(wasmparser::RefType::FUNCREF),
                "wasmparser::RefType::EXTERNREF": b(wasmparser::RefType::EXTERNREF),
                "sizeof_RefType": std::mem::size_of::<wasmparser::RefType>(),
            });
            println!("{}", serde_json::to_string_pretty(&v).unwrap());
        }
        "codec-table" => {
            if args.len() != 1 {
                usage();
            }
            let v = codec_table::codec_table();
            println!("{}", serde_json::to_string_pretty(&v).unwrap());
        }
        "op-roundtrip" => {
            let mut path = None;
            let mut emit = None;
            let mut i = 1;
            while i < args.len() {
                match args[i].as_str() {
                    "--emit-wasm" => {
                        i += 1;
                        emit = Some(args.get(i).cloned().unwrap_or_else(|| usage()));
                    }
                    a if a.starts_with("--") => usage(),
                    a => {
                        if path.is_some() {
                            usage();
                        }
                        path = Some(a.to_string());
                    }
                }
                i += 1;
            }
            let path = path.unwrap_or_else(|| usage());
            match oprt::run(&path, emit.as_deref()) {
                Ok((v, code)) => {
                    println!("{}", serde_json::to_string_pretty(&v).unwrap());
                    exit(code);
                }
                Err(e) => {
                    eprintln!("vreplay op-roundtrip: {}", e);
                    exit(2);
                }
            }
        }
        "roundtrip" => {
            let mut path = None;
            let mut opts = roundtrip::Options::default();
            for a in &args[1..] {
                match a.as_str() {
                    "--gc" => opts.gc = true,
                    "--no-names" => opts.no_names = true,
                    "--no-producers" => opts.no_producers = true,
                    "--twice" => opts.twice = true,
                    a if a.starts_with("--") => usage(),
                    a => {
                        if path.is_some() {
                            usage();
                        }
                        path = Some(a.to_string());
                    }
                }
            }
            let path = path.unwrap_or_else(|| usage());
            match roundtrip::run(&path, &opts) {
                Ok(v) => println!("{}", serde_json::to_string_pretty(&v).unwrap()),
                Err(e) => {
                    eprintln!("vreplay roundtrip: {}", e);
                    exit(2);
                }
            }
        }
        "build" => {
            let mut spec = None;
            let mut out = None;
            let mut i = 1;
            while i < args.len() {
                match args[i].as_str() {
                    "-o" | "--output" => {
                        i += 1;
                        out = Some(args.get(i).cloned().unwrap_or_else(|| usage()));
                    }
                    a if a.starts_with('-') => usage(),
                    a => {
                        if spec.is_some() {
                            usage();
                        }
                        spec = Some(a.to_string());
                    }
                }
                i += 1;
            }
            let (spec, out) = match (spec, out) {
                (Some(s), Some(o)) => (s, o),
                _ => usage(),
            };
            match mkmod::run(&spec, &out) {
                Ok(n) => eprintln!("vreplay build: wrote {} bytes to {}", n, out),
                Err(e) => {
                    eprintln!("vreplay build: {}", e);
                    exit(2);
                }
            }
        }
        "dwarf" => {
            if args.len() != 2 {
                usage();
            }
            match dwarf::run(&args[1]) {
                Ok(v) => println!("{}", serde_json::to_string_pretty(&v).unwrap()),
                Err(e) => {
                    eprintln!("vreplay dwarf: {}", e);
                    exit(2);
                }
            }
        }
        "script" => {
            if args.len() != 2 {
                usage();
            }
            match script::run(&args[1]) {
                Ok(v) => println!("{}", serde_json::to_string_pretty(&v).unwrap()),
                Err(e) => {
                    eprintln!("vreplay script: {}", e);
                    exit(2);
                }
            }
        }
        _ => usage(),
    }
}
