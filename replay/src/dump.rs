//! Generic, Debug-string based dump of a core wasm module (wasmparser 0.214).

use crate::codec_table::hex;
use serde_json::{json, Map, Value};
use wasmparser::{
    BinaryReader, CompositeInnerType, ConstExpr, DataKind, ElementItems, ElementKind, KnownCustom, Name,
    Parser, Payload, TableInit, Validator, WasmFeatures,
};

/// Validate with the walrus feature set.
pub fn validity(bytes: &[u8]) -> (bool, Option<String>) {
    let mut v = Validator::new_with_features(crate::walrus_features());
    match v.validate_all(bytes) {
        Ok(_) => (true, None),
        Err(e) => (false, Some(format!("{} (at offset 0x{:x})", e.message(), e.offset()))),
    }
}

fn ops_of_reader(mut r: wasmparser::OperatorsReader<'_>) -> Vec<Value> {
    let mut out = Vec::new();
    while !r.eof() {
        match r.read() {
            Ok(op) => out.push(json!(format!("{:?}", op))),
            Err(e) => {
                out.push(json!(format!("<decode error: {}>", e)));
                break;
            }
        }
    }
    out
}

fn const_expr_ops(e: &ConstExpr<'_>) -> Value {
    Value::Array(ops_of_reader(e.get_operators_reader()))
}

fn name_map(m: wasmparser::NameMap<'_>) -> Value {
    let mut o = Map::new();
    for n in m {
        match n {
            Ok(n) => {
                o.insert(n.index.to_string(), json!(n.name));
            }
            Err(e) => {
                o.insert("<error>".into(), json!(e.to_string()));
                break;
            }
        }
    }
    Value::Object(o)
}

fn indirect_name_map(m: wasmparser::IndirectNameMap<'_>) -> Value {
    let mut o = Map::new();
    for n in m {
        match n {
            Ok(n) => {
                o.insert(n.index.to_string(), name_map(n.names));
            }
            Err(e) => {
                o.insert("<error>".into(), json!(e.to_string()));
                break;
            }
        }
    }
    Value::Object(o)
}

fn dump_names(r: wasmparser::NameSectionReader<'_>) -> Value {
    let mut o = Map::new();
    let mut order = Vec::new();
    for sub in r {
        let sub = match sub {
            Ok(s) => s,
            Err(e) => {
                o.insert("error".into(), json!(e.to_string()));
                break;
            }
        };
        let (k, v) = match sub {
            Name::Module { name, .. } => ("module", json!(name)),
            Name::Function(m) => ("function", name_map(m)),
            Name::Local(m) => ("local", indirect_name_map(m)),
            Name::Label(m) => ("label", indirect_name_map(m)),
            Name::Type(m) => ("type", name_map(m)),
            Name::Table(m) => ("table", name_map(m)),
            Name::Memory(m) => ("memory", name_map(m)),
            Name::Global(m) => ("global", name_map(m)),
            Name::Element(m) => ("elem", name_map(m)),
            Name::Data(m) => ("data", name_map(m)),
            Name::Field(m) => ("field", indirect_name_map(m)),
            Name::Tag(m) => ("tag", name_map(m)),
            Name::Unknown { ty, data, .. } => {
                order.push(json!(format!("unknown:{}", ty)));
                o.insert(format!("unknown:{}", ty), json!(hex(data)));
                continue;
            }
        };
        order.push(json!(k));
        o.insert(k.to_string(), v);
    }
    o.insert("subsection_order".into(), Value::Array(order));
    Value::Object(o)
}

/// Dump one module.  Never panics on malformed input: a decode error is
/// recorded under `"decode_error"` and whatever was decoded so far is kept.
pub fn dump_module(bytes: &[u8]) -> Value {
    let mut types = Vec::new();
    let mut imports = Vec::new();
    let mut functions = Vec::new();
    let mut tables = Vec::new();
    let mut memories = Vec::new();
    let mut tags = Vec::new();
    let mut globals = Vec::new();
    let mut exports = Vec::new();
    let mut start = Value::Null;
    let mut elements = Vec::new();
    let mut data_count = Value::Null;
    let mut data = Vec::new();
    let mut code = Vec::new();
    let mut customs = Vec::new();
    let mut names = Value::Null;
    let mut sections: Vec<Value> = Vec::new();
    let mut decode_error = Value::Null;

    let mut parser = Parser::new(0);
    parser.set_features(WasmFeatures::all());

    let res: Result<(), wasmparser::BinaryReaderError> = (|| {
        for payload in parser.parse_all(bytes) {
            match payload? {
                Payload::Version { num, encoding, .. } => {
                    sections.push(json!(format!("version:{}:{:?}", num, encoding)));
                }
                Payload::TypeSection(r) => {
                    sections.push(json!("type"));
                    for rg in r {
                        let rg = rg?;
                        let explicit = rg.is_explicit_rec_group();
                        for st in rg.into_types() {
                            let s = match (&st.composite_type.inner, explicit) {
                                (CompositeInnerType::Func(f), false)
                                    if st.supertype_idx.is_none() && st.is_final && !st.composite_type.shared =>
                                {
                                    format!("func {:?} -> {:?}", f.params(), f.results())
                                }
                                _ => format!("{:?}", st),
                            };
                            types.push(json!(s));
                        }
                    }
                }
                Payload::ImportSection(r) => {
                    sections.push(json!("import"));
                    for i in r {
                        let i = i?;
                        imports.push(json!({
                            "module": i.module,
                            "name": i.name,
                            "ty": format!("{:?}", i.ty),
                        }));
                    }
                }
                Payload::FunctionSection(r) => {
                    sections.push(json!("function"));
                    for f in r {
                        functions.push(json!(f?));
                    }
                }
                Payload::TableSection(r) => {
                    sections.push(json!("table"));
                    for t in r {
                        let t = t?;
                        let init = match &t.init {
                            TableInit::RefNull => json!("RefNull"),
                            TableInit::Expr(e) => const_expr_ops(e),
                        };
                        tables.push(json!({"ty": format!("{:?}", t.ty), "init": init}));
                    }
                }
                Payload::MemorySection(r) => {
                    sections.push(json!("memory"));
                    for m in r {
                        memories.push(json!(format!("{:?}", m?)));
                    }
                }
                Payload::TagSection(r) => {
                    sections.push(json!("tag"));
                    for t in r {
                        tags.push(json!(format!("{:?}", t?)));
                    }
                }
                Payload::GlobalSection(r) => {
                    sections.push(json!("global"));
                    for g in r {
                        let g = g?;
                        globals.push(json!({
                            "ty": format!("{:?}", g.ty),
                            "init": const_expr_ops(&g.init_expr),
                        }));
                    }
                }
                Payload::ExportSection(r) => {
                    sections.push(json!("export"));
                    for e in r {
                        let e = e?;
                        exports.push(json!({
                            "name": e.name,
                            "kind": format!("{:?}", e.kind),
                            "index": e.index,
                        }));
                    }
                }
                Payload::StartSection { func, .. } => {
                    sections.push(json!("start"));
                    start = json!(func);
                }
                Payload::ElementSection(r) => {
                    sections.push(json!("element"));
                    for e in r {
                        let e = e?;
                        let (mode, table, offset) = match &e.kind {
                            ElementKind::Passive => ("passive", Value::Null, Value::Null),
                            ElementKind::Declared => ("declared", Value::Null, Value::Null),
                            ElementKind::Active {
                                table_index,
                                offset_expr,
                            } => (
                                "active",
                                // `None` is the MVP encoding of table 0
                                json!({"explicit": table_index.is_some(), "index": table_index.unwrap_or(0)}),
                                const_expr_ops(offset_expr),
                            ),
                        };
                        let (items_kind, items) = match e.items {
                            ElementItems::Functions(fr) => {
                                let mut v = Vec::new();
                                for f in fr {
                                    v.push(json!(f?));
                                }
                                ("functions".to_string(), v)
                            }
                            ElementItems::Expressions(rt, er) => {
                                let mut v = Vec::new();
                                for x in er {
                                    v.push(const_expr_ops(&x?));
                                }
                                (format!("expressions:{:?}", rt), v)
                            }
                        };
                        elements.push(json!({
                            "mode": mode,
                            "table": table,
                            "offset": offset,
                            "items_kind": items_kind,
                            "items": items,
                        }));
                    }
                }
                Payload::DataCountSection { count, .. } => {
                    sections.push(json!("datacount"));
                    data_count = json!(count);
                }
                Payload::DataSection(r) => {
                    sections.push(json!("data"));
                    for d in r {
                        let d = d?;
                        let (mode, memory, offset) = match &d.kind {
                            DataKind::Passive => ("passive", Value::Null, Value::Null),
                            DataKind::Active {
                                memory_index,
                                offset_expr,
                            } => ("active", json!(memory_index), const_expr_ops(offset_expr)),
                        };
                        data.push(json!({
                            "mode": mode,
                            "memory": memory,
                            "offset": offset,
                            "bytes": hex(d.data),
                        }));
                    }
                }
                Payload::CodeSectionStart { .. } => {
                    sections.push(json!("code"));
                }
                Payload::CodeSectionEntry(body) => {
                    let mut locals = Vec::new();
                    for l in body.get_locals_reader()? {
                        let (n, ty) = l?;
                        locals.push(json!(format!("{} x {:?}", n, ty)));
                    }
                    let ops = ops_of_reader(body.get_operators_reader()?);
                    code.push(json!({"locals": locals, "ops": ops}));
                }
                Payload::CustomSection(c) => {
                    sections.push(json!(format!("custom:{}", c.name())));
                    customs.push(json!({"name": c.name(), "data": hex(c.data())}));
                    if let KnownCustom::Name(nr) = c.as_known() {
                        names = dump_names(nr);
                    }
                }
                Payload::UnknownSection { id, contents, .. } => {
                    sections.push(json!(format!("unknown:{}", id)));
                    customs.push(json!({"name": format!("<unknown section {}>", id), "data": hex(contents)}));
                }
                Payload::End(_) => {}
                other => {
                    sections.push(json!(format!("other:{:?}", other)));
                }
            }
        }
        Ok(())
    })();
    if let Err(e) = res {
        decode_error = json!(format!("{} (at offset 0x{:x})", e.message(), e.offset()));
    }

    json!({
        "sections": sections,
        "types": types,
        "imports": imports,
        "functions": functions,
        "tables": tables,
        "memories": memories,
        "tags": tags,
        "globals": globals,
        "exports": exports,
        "start": start,
        "elements": elements,
        "data_count": data_count,
        "data": data,
        "code": code,
        "custom_sections": customs,
        "names": names,
        "decode_error": decode_error,
    })
}

/// Operators (Debug strings) of the `n`-th function body in the code section.
pub fn function_ops(bytes: &[u8], n: usize) -> Result<Vec<String>, String> {
    let mut parser = Parser::new(0);
    parser.set_features(WasmFeatures::all());
    let mut idx = 0;
    for payload in parser.parse_all(bytes) {
        let payload = payload.map_err(|e| e.to_string())?;
        if let Payload::CodeSectionEntry(body) = payload {
            if idx == n {
                let mut r = body.get_operators_reader().map_err(|e| e.to_string())?;
                let mut out = Vec::new();
                while !r.eof() {
                    out.push(format!("{:?}", r.read().map_err(|e| e.to_string())?));
                }
                return Ok(out);
            }
            idx += 1;
        }
    }
    Err(format!("module has no function body #{}", n))
}

#[allow(dead_code)]
pub fn read_one_operator(bytes: &[u8]) -> Result<String, String> {
    let mut r = BinaryReader::new(bytes, 0, WasmFeatures::all());
    r.read_operator().map(|o| format!("{:?}", o)).map_err(|e| e.to_string())
}
