//! End-to-end tests of the `vreplay` binary.
//! Run with: CARGO_NET_OFFLINE=true cargo test --offline --target-dir /root/vscratch/replay-target

use serde_json::Value;
use std::path::PathBuf;
use std::process::Command;

fn bin() -> Command {
    Command::new(env!("CARGO_BIN_EXE_vreplay"))
}

fn here(rel: &str) -> PathBuf {
    PathBuf::from(env!("CARGO_MANIFEST_DIR")).join(rel)
}

fn run_json(args: &[&str]) -> (Value, i32) {
    let out = bin().args(args).output().expect("spawn vreplay");
    let code = out.status.code().unwrap_or(-1);
    let v: Value = serde_json::from_slice(&out.stdout).unwrap_or_else(|e| {
        panic!(
            "vreplay {:?}: stdout is not JSON ({}); exit {}; stderr: {}",
            args,
            e,
            code,
            String::from_utf8_lossy(&out.stderr)
        )
    });
    (v, code)
}

#[test]
fn codec_table_is_complete() {
    let (t, code) = run_json(&["codec-table"]);
    assert_eq!(code, 0);
    assert_eq!(t["variants"], 608);
    let entries = t["entries"].as_array().unwrap();
    // every enum variant appears (possibly with #suffixes)
    let mut names: Vec<&str> = entries
        .iter()
        .map(|e| e["instruction"].as_str().unwrap().split('#').next().unwrap())
        .collect();
    names.dedup();
    names.sort();
    names.dedup();
    assert_eq!(names.len(), 608);

    let wanted = [
        "mvp",
        "sign_extension",
        "saturating_float_to_int",
        "bulk_memory",
        "reference_types",
        "simd",
        "relaxed_simd",
        "tail_call",
        "threads",
    ];
    let mut per_proposal = std::collections::BTreeMap::new();
    for e in entries {
        let name = e["instruction"].as_str().unwrap();
        let ok = e["ok"].as_bool().unwrap();
        if !ok {
            assert!(e["error"].is_string(), "{}: not ok without error", name);
        }
        if let Some(p) = e["proposal"].as_str() {
            *per_proposal.entry(p.to_string()).or_insert(0usize) += 1;
            if wanted.contains(&p) {
                assert!(ok, "{} ({}) must be ok: {}", name, p, e);
            }
        }
        if ok {
            assert_eq!(e["name_match"], true, "{}", e);
            assert_eq!(e["values_match"], true, "{}", e);
        }
        // marker values of one instruction are pairwise distinct
        let vals: Vec<&str> = e["instr_fields"]
            .as_object()
            .unwrap()
            .values()
            .map(|v| v.as_str().unwrap())
            .collect();
        let mut d = vals.clone();
        d.sort();
        d.dedup();
        assert_eq!(d.len(), vals.len(), "{}: duplicate marker values {:?}", name, vals);
    }
    for p in wanted {
        assert!(per_proposal.get(p).copied().unwrap_or(0) > 0, "no entries for {}", p);
    }
    // the only known failure: wasm-encoder 0.214 encodes RefI31Shared as FE 1F,
    // wasmparser 0.214 expects FE 72
    let bad: Vec<&str> = entries
        .iter()
        .filter(|e| e["ok"] == false)
        .map(|e| e["instruction"].as_str().unwrap())
        .collect();
    assert_eq!(bad, vec!["RefI31Shared"]);

    let mc = entries.iter().find(|e| e["instruction"] == "MemoryCopy").unwrap();
    assert_eq!(mc["bytes"], "fc0a0503");
    assert_eq!(mc["instr_fields"]["src_mem"], "3");
    assert_eq!(mc["op_fields"]["src_mem"], "3");
    assert_eq!(mc["op_fields"]["dst_mem"], "5");
    let f = entries.iter().find(|e| e["instruction"] == "F32Const").unwrap();
    assert_eq!(f["op_fields"]["value"], "2143289345");
    let l = entries.iter().find(|e| e["instruction"] == "I32Load").unwrap();
    assert_eq!(l["instr_fields"]["memarg.memory_index"], "2");
    assert_eq!(l["op_fields"]["memarg.memory"], "2");
    assert_eq!(l["op_fields"]["memarg.offset"], "19088743");
}

fn witness(name: &str) -> (Value, i32) {
    let p = here("tests/witness").join(name);
    run_json(&["op-roundtrip", p.to_str().unwrap()])
}

#[test]
fn op_roundtrip_witnesses() {
    // (file, operator name, expected `same`; None = known walrus defect, do not pin)
    let cases: [(&str, &str, Option<bool>); 9] = [
        ("i32load_off16.json", "I32Load", Some(true)),
        ("i64atomicrmw8addu.json", "I64AtomicRmw8AddU", None),
        ("memorycopy.json", "MemoryCopy", Some(true)),
        ("v128load8lane.json", "V128Load8Lane", Some(true)),
        ("i8x16shuffle.json", "I8x16Shuffle", Some(true)),
        ("f32const_nan.json", "F32Const", Some(true)),
        ("tablecopy.json", "TableCopy", Some(true)),
        ("reffunc3.json", "RefFunc", Some(true)),
        ("callindirect.json", "CallIndirect", Some(true)),
    ];
    for (file, op, same) in cases {
        let (r, code) = witness(file);
        assert_eq!(code, 0, "{}", file);
        assert_eq!(r["status"], "ok", "{}: {}", file, r);
        assert_eq!(r["input_valid"], true, "{}", file);
        let t = r["target_in"].as_str().unwrap();
        assert!(
            t == op || t.starts_with(&format!("{} ", op)),
            "{}: target_in = {}",
            file,
            t
        );
        let idx = r["target_index"].as_u64().unwrap() as usize;
        assert_eq!(r["in_ops"][idx], r["target_in"]);
        if let Some(s) = same {
            assert_eq!(r["same"], s, "{}: {}", file, r);
            assert_eq!(r["output_valid"], true, "{}", file);
        }
    }
    // shared memory for atomics, 64-bit memories on request
    let (r, _) = witness("i64atomicrmw8addu.json");
    assert_eq!(r["shared"], true);
    assert_eq!(r["memory64"], true);
    assert_eq!(r["operands"], serde_json::json!(["i64", "i64"]));
    assert!(r["target_in"].as_str().unwrap().contains("offset: 68719476736"));
}

#[test]
fn template_is_a_walrus_fixpoint() {
    // walrus' re-numbering must be the identity on the template, otherwise
    // verbatim comparison of the target operator would be meaningless
    let (r, _) = witness("i32load_off16.json");
    assert_eq!(r["input_hex"], r["output_hex"]);
}

#[test]
fn op_roundtrip_no_valid_context_and_usage() {
    let dir = std::env::temp_dir().join(format!("vreplay-test-{}", std::process::id()));
    std::fs::create_dir_all(&dir).unwrap();
    let w = dir.join("w.json");
    // table 7 is externref: call_indirect cannot validate
    std::fs::write(
        &w,
        r#"{"instruction":"CallIndirect","fields":{"type_index":"3","table_index":"7"}}"#,
    )
    .unwrap();
    let (r, code) = run_json(&["op-roundtrip", w.to_str().unwrap()]);
    assert_eq!(code, 3);
    assert_eq!(r["status"], "no-valid-context");
    // exceptions are outside walrus' feature set
    std::fs::write(&w, r#"{"instruction":"Throw","fields":{"0":"0"}}"#).unwrap();
    let (r, code) = run_json(&["op-roundtrip", w.to_str().unwrap()]);
    assert_eq!(code, 3);
    assert_eq!(r["status"], "no-valid-context");
    // usage errors: exit 2, no JSON
    std::fs::write(&w, r#"{"instruction":"I32Load","fields":{"memarg.align":"2"}}"#).unwrap();
    let out = bin().args(["op-roundtrip", w.to_str().unwrap()]).output().unwrap();
    assert_eq!(out.status.code(), Some(2));
    assert!(out.stdout.is_empty());
    let out = bin().args(["frobnicate"]).output().unwrap();
    assert_eq!(out.status.code(), Some(2));
    let _ = std::fs::remove_dir_all(&dir);
}

#[test]
fn control_instructions_have_contexts() {
    let dir = std::env::temp_dir().join(format!("vreplay-test-ctl-{}", std::process::id()));
    std::fs::create_dir_all(&dir).unwrap();
    let w = dir.join("w.json");
    let cases = [
        r#"{"instruction":"Block","fields":{"0":"functype:9"}}"#,
        r#"{"instruction":"Loop","fields":{"0":"empty"}}"#,
        r#"{"instruction":"If","fields":{"0":"result:i64"}}"#,
        r#"{"instruction":"Else"}"#,
        r#"{"instruction":"End"}"#,
        r#"{"instruction":"Br","fields":{"0":"11"}}"#,
        r#"{"instruction":"BrIf","fields":{"0":"20"}}"#,
        r#"{"instruction":"BrTable","fields":{"0":"[3, 5, 7]","1":"11"}}"#,
        r#"{"instruction":"Return"}"#,
        r#"{"instruction":"Unreachable"}"#,
        r#"{"instruction":"ReturnCall","fields":{"0":"9"}}"#,
    ];
    for c in cases {
        std::fs::write(&w, c).unwrap();
        let (r, code) = run_json(&["op-roundtrip", w.to_str().unwrap()]);
        assert_eq!(code, 0, "{}", c);
        assert_eq!(r["status"], "ok", "{}: {}", c, r);
        assert_eq!(r["same"], true, "{}: {}", c, r);
        assert_eq!(r["output_valid"], true, "{}", c);
    }
    let _ = std::fs::remove_dir_all(&dir);
}

#[test]
fn roundtrip_sample_wat() {
    let p = here("tests/wat/sample.wat");
    let (r, code) = run_json(&["roundtrip", p.to_str().unwrap(), "--twice"]);
    assert_eq!(code, 0);
    assert_eq!(r["status"], "ok");
    for k in ["input", "output", "output2"] {
        assert_eq!(r[k]["valid"], true, "{}", k);
        assert_eq!(r[k]["dump"]["decode_error"], Value::Null);
        assert_eq!(r[k]["dump"]["code"].as_array().unwrap().len(), 3);
        assert_eq!(r[k]["dump"]["names"]["function"]["1"], "add");
    }
    assert_eq!(r["input"]["dump"]["custom_sections"][0]["name"], "my-custom");
    assert_eq!(r["input"]["dump"]["custom_sections"][0]["data"], "010203");
    assert_eq!(r["input"]["dump"]["data"][0]["bytes"], "68656c6c6f");

    let (r, _) = run_json(&[
        "roundtrip",
        p.to_str().unwrap(),
        "--gc",
        "--no-names",
        "--no-producers",
    ]);
    assert_eq!(r["status"], "ok");
    assert_eq!(r["output"]["valid"], true);
    assert_eq!(r["output"]["dump"]["names"], Value::Null);
    assert_eq!(r["output"]["dump"]["code"].as_array().unwrap().len(), 2);
    assert_eq!(r["output2"], Value::Null);
}

#[test]
fn generated_file_is_fresh() {
    // skipped when python3 or the registry source is unavailable
    let out = Command::new("python3")
        .arg(here("gen.py"))
        .arg("--check")
        .output();
    match out {
        Ok(o) => {
            let err = String::from_utf8_lossy(&o.stderr);
            if err.contains("cannot find") {
                eprintln!("skipped: {}", err);
                return;
            }
            assert!(o.status.success(), "{}", err);
        }
        Err(e) => eprintln!("skipped: python3 unavailable: {}", e),
    }
}

#[test]
fn build_spec_with_every_section() {
    let dir = std::env::temp_dir().join(format!("vreplay-test-build-{}", std::process::id()));
    std::fs::create_dir_all(&dir).unwrap();
    let out = dir.join("full.wasm");
    let spec = here("tests/spec/full.json");
    let st = bin()
        .args(["build", spec.to_str().unwrap(), "-o", out.to_str().unwrap()])
        .output()
        .unwrap();
    assert!(st.status.success(), "{}", String::from_utf8_lossy(&st.stderr));
    let (r, _) = run_json(&["roundtrip", out.to_str().unwrap()]);
    let i = &r["input"];
    assert_eq!(i["valid"], true, "{}", i["validation_error"]);
    let d = &i["dump"];
    assert_eq!(
        d["sections"],
        serde_json::json!([
            "version:1:Module", "custom:hello", "type", "import", "function", "table", "memory", "global",
            "export", "start", "element", "datacount", "custom:mid", "code", "data", "custom:name",
            "custom:producers", "custom:tail", "custom:default-place"
        ])
    );
    assert_eq!(d["types"].as_array().unwrap().len(), 3);
    assert_eq!(d["imports"].as_array().unwrap().len(), 5);
    assert_eq!(d["functions"], serde_json::json!([0, 1, 2]));
    assert_eq!(d["start"], 2);
    assert_eq!(d["data_count"], 2);
    // MVP vs explicit-index encodings of active element segments
    assert_eq!(d["elements"][0]["table"]["explicit"], false);
    assert_eq!(d["elements"][1]["table"], serde_json::json!({"explicit": true, "index": 1}));
    assert_eq!(d["elements"][2]["items"].as_array().unwrap().len(), 3);
    assert_eq!(d["elements"][3]["mode"], "declared");
    assert_eq!(d["code"][0]["locals"], serde_json::json!(["1 x I64", "2 x I32"]));
    assert_eq!(d["code"][0]["ops"][1], "I32Const { value: -5 }");
    assert_eq!(d["data"][1]["bytes"], "00ff");
    assert_eq!(d["names"]["local"]["1"]["1"], "l");
    assert_eq!(d["names"]["global"]["2"], "g7");
    assert_eq!(r["status"], "ok");

    // an empty spec is just the 8-byte header; bad specs are usage errors
    let e = dir.join("empty.json");
    std::fs::write(&e, "{}").unwrap();
    let st = bin().args(["build", e.to_str().unwrap(), "-o", out.to_str().unwrap()]).output().unwrap();
    assert!(st.status.success());
    assert_eq!(std::fs::read(&out).unwrap(), b"\0asm\x01\0\0\0");
    std::fs::write(&e, r#"{"funcs":[{"type":0,"ops":[{"instruction":"LocalGet","fields":{}}]}]}"#).unwrap();
    let st = bin().args(["build", e.to_str().unwrap(), "-o", out.to_str().unwrap()]).output().unwrap();
    assert_eq!(st.status.code(), Some(2));
    let _ = std::fs::remove_dir_all(&dir);
}

fn script(name: &str) -> Value {
    let p = here("tests/script").join(name);
    let (r, code) = run_json(&["script", p.to_str().unwrap()]);
    assert_eq!(code, 0);
    r
}

#[test]
fn script_emit_variants() {
    let r = script("emit.json");
    assert_eq!(r["status"], "ok");
    assert_eq!(r["input"]["valid"], true);
    assert_eq!(r["emits"].as_array().unwrap().len(), 1);
    assert_eq!(r["emits"][0]["valid"], true);
    assert!(r["emits"][0]["hex"].as_str().unwrap().starts_with("0061736d"));
    assert_eq!(r["on_parse"], Value::Null);

    let r = script("gc_emit.json");
    assert_eq!(r["status"], "ok");
    assert_eq!(r["steps_done"].as_array().unwrap().len(), 2);
    assert_eq!(r["emits"][0]["valid"], true);
    let secs = r["emits"][0]["dump"]["sections"].as_array().unwrap();
    assert!(!secs.contains(&serde_json::json!("custom:producers")));

    let r = script("emit_emit.json");
    assert_eq!(r["status"], "ok");
    assert_eq!(r["emits"].as_array().unwrap().len(), 2);
    assert!(r["emits_identical_to_first"][0].is_boolean());
}

#[test]
fn script_on_parse_and_reparse() {
    let r = script("on_parse.json");
    assert_eq!(r["status"], "ok");
    let o = &r["on_parse"];
    assert_eq!(o["calls"], 2); // parse + reparse
    assert_eq!(o["later_calls"].as_array().unwrap().len(), 1);
    assert_eq!(o["func"].as_array().unwrap().len(), 4);
    assert_eq!(o["func"][0]["imported"], true);
    assert_eq!(o["func"][1]["name"], "f");
    assert_eq!(o["func"][3]["ty"]["results"], "[I64]");
    assert_eq!(o["memory"][0]["maximum"], 2);
    assert_eq!(o["memory"][0]["imported"], true);
    assert_eq!(o["table"].as_array().unwrap().len(), 3);
    assert_eq!(o["global"].as_array().unwrap().len(), 6);
    assert_eq!(o["global"][3]["mutable"], true);
    assert_eq!(o["element"].as_array().unwrap().len(), 4);
    assert_eq!(o["data"][0]["value"], "68656c6c6f");
    assert_eq!(o["type"].as_array().unwrap().len(), 3);
    assert_eq!(r["emits"].as_array().unwrap().len(), 2);
}

#[test]
fn script_preserve_code_transform() {
    let r = script("code_transform.json");
    assert_eq!(r["status"], "ok");
    let ct = r["code_transform"].as_array().unwrap();
    assert!(!ct.is_empty());
    assert_eq!(ct[0]["emit"], 0);
    assert!(ct[0]["code_section_start"].as_u64().unwrap() > 8);
    assert_eq!(ct[0]["function_ranges"].as_array().unwrap().len(), 3);
    assert!(!ct[0]["instruction_map"].as_array().unwrap().is_empty());
    let ei = r["emit_indices"].as_array().unwrap();
    assert_eq!(ei[0]["func"].as_array().unwrap().len(), 4);
    assert_eq!(ei[0]["func"][0], serde_json::json!({"arena_pos": 0, "name": "imp", "index": 0}));
    // gc removed the unused imported globals: no index at emit time
    assert_eq!(ei[0]["global"][0]["index"], Value::Null);
    let secs = r["emits"][0]["dump"]["sections"].as_array().unwrap();
    assert!(secs.contains(&serde_json::json!("custom:vreplay-probe")));
}

fn dwarf(name: &str) -> Value {
    let p = here("tests/dwarf").join(name);
    let (r, code) = run_json(&["dwarf", p.to_str().unwrap()]);
    assert_eq!(code, 0);
    r
}

#[test]
fn dwarf_three_functions() {
    for v in [4, 5] {
        let r = dwarf(&format!("three_v{}_gc_false.json", v));
        assert_eq!(r["status"], "ok", "{}", r["error"]);
        assert_eq!(r["input"]["funcs"].as_array().unwrap().len(), 3);
        assert_eq!(r["input"]["funcs"][0]["entry_start"], 1);
        assert_eq!(r["input"]["funcs"][0]["body_start"], 2);
        assert_eq!(r["rows_in"][0], serde_json::json!([3, 1000, false]));
        assert_eq!(r["subprograms_in"][1]["name"], "f1");
        let s = &r["checks"]["summary"];
        assert_eq!(s["rows_in"], 15);
        assert_eq!(s["rows_out"], 15);
        assert_eq!(s["row_mismatches"], 0);
        assert_eq!(s["rows_lost"], 0);
        assert_eq!(s["subprogram_mismatches"], 0);

        let r = dwarf(&format!("three_v{}_gc_true.json", v));
        assert_eq!(r["status"], "ok", "{}", r["error"]);
        assert_eq!(r["output"]["funcs"].as_array().unwrap().len(), 2);
        assert_eq!(r["checks"]["function_map"][2]["out"], Value::Null);
        let s = &r["checks"]["summary"];
        assert_eq!(s["rows_in"], 15);
        assert_eq!(s["row_mismatches"], 0);
        assert_eq!(s["subprogram_mismatches"], 0);
    }
    // file index 0 (DWARF 5) and the alternative low_pc convention: only the
    // report shape is pinned, the verdict is walrus' business
    let r = dwarf("three_v5_file0.json");
    assert!(r["status"] == "ok" || r["status"] == "panic", "{}", r);
    assert!(r["notes"][0].as_str().unwrap().contains("patched 3"));
    let r = dwarf("three_v4_sizeleb.json");
    assert_eq!(r["status"], "ok");
    assert_eq!(r["subprograms_in"][0]["low_pc"], 1);
    assert!(r["checks"]["summary"]["subprogram_mismatches"].is_u64());
}

#[test]
fn dwarf_size_leb_shrinks() {
    for v in [4, 5] {
        let r = dwarf(&format!("leb_shrink_v{}.json", v));
        assert_eq!(r["status"], "ok", "{}", r["error"]);
        // input body >= 128 bytes (2-byte size LEB), output < 128 (1-byte)
        let fi = &r["input"]["funcs"][0];
        let fo = &r["output"]["funcs"][0];
        assert_eq!(fi["body_start"].as_u64().unwrap() - fi["entry_start"].as_u64().unwrap(), 2);
        assert_eq!(fo["body_start"].as_u64().unwrap() - fo["entry_start"].as_u64().unwrap(), 1);
        let s = &r["checks"]["summary"];
        assert_eq!(s["rows_in"], 94);
        assert!(s["rows_lost"].as_u64().unwrap() >= 10); // the 10 nops
    }
}
