(module $sample
  (type $t0 (func (param i32) (result i32)))
  (type $unused (func (param f64)))
  (import "env" "imp" (func $imp (type $t0)))
  (import "env" "g" (global $gimp i32))
  (table $tab 4 funcref)
  (memory $mem 1 2)
  (global $g (mut i32) (i32.const 7))
  (global $dead (mut i64) (i64.const 9))
  (func $add (type $t0) (param $x i32) (result i32)
    (local $tmp i32) (local $unused_local f32)
    local.get $x
    i32.const 1
    i32.add
    local.tee $tmp
    call $imp
    global.get $g
    i32.add)
  (func $dead_fn (result i32) i32.const 42)
  (func $start nop)
  (start $start)
  (export "add" (func $add))
  (export "mem" (memory $mem))
  (export "tab" (table $tab))
  (elem $e (i32.const 1) func $add $imp)
  (elem $p funcref (ref.func $add) (ref.null func))
  (data $d (i32.const 8) "hello")
  (data $pd "passive")
  (@custom "my-custom" "\01\02\03")
)
