(module
  (func $a (export "a") (param i32) (result i32) (local.get 0) (i32.const 1) (i32.add))
  (func $b (export "b") (result i32) (i32.const 7) (i32.const 8) (i32.const 9) (drop) (drop))
  (func $dead (result i32) (i32.const 3)))
